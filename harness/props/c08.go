package props

import (
	"encoding/json"
	"fmt"
	"os"
	"path/filepath"
	"time"

	"github.com/lidofinance/dc4bc/client/api/dto"
	"github.com/lidofinance/dc4bc/client/modules/state"
	"github.com/lidofinance/dc4bc/client/types"
	"github.com/lidofinance/dc4bc/fsm/types/requests"
	"github.com/lidofinance/dc4bc/storage"

	"verifharness/oracle"
	"verifharness/sched"
	"verifharness/world"
)

// C08: a round's state is a deterministic function of the board log.
func init() { Register("C08", "exploration", checkC08) }

// nodeView is what the property speaks about for one node: per-round projections, signature stores, offset.
type nodeView struct {
	Rounds map[string]string
	Sigs   map[string]string
	Offset int
}

func viewOf(n *world.Node, rounds []string, o oracle.ProjOpts) nodeView {
	v := nodeView{Rounds: map[string]string{}, Sigs: map[string]string{}, Offset: int(n.Offset())}
	for _, r := range rounds {
		v.Rounds[r] = Projection(n, r, o)
		bz, _ := n.State.Get("signatures_" + r)
		// the store keeps entries in arrival order; canonicalise through JSON (maps are sorted)
		var x interface{}
		if json.Unmarshal(bz, &x) == nil {
			c, _ := json.Marshal(x)
			v.Sigs[r] = string(c)
		}
	}
	return v
}

func diffViews(a, b nodeView, withOffset bool) string {
	for r, p := range a.Rounds {
		if b.Rounds[r] != p {
			return "round " + trunc(r, 8) + ": " + oracle.FirstDiff(p, b.Rounds[r])
		}
		if a.Sigs[r] != b.Sigs[r] {
			return "signature store of round " + trunc(r, 8) + ": " + oracle.FirstDiff(a.Sigs[r], b.Sigs[r])
		}
	}
	if withOffset && a.Offset != b.Offset {
		return fmt.Sprintf("offset %d vs %d", a.Offset, b.Offset)
	}
	return ""
}

// replayNode builds a fresh node with the identity (name, key) of `like` over a board holding `log`.
func replayNode(like *world.Node, log []storage.Message) (*world.Node, *world.MemBoard, error) {
	b := world.NewMemBoard()
	for _, m := range log {
		b.Inject(m)
	}
	n := &world.Node{Idx: like.Idx, Name: like.Name, KeyPair: like.KeyPair, Keys: like.Keys, ResultCache: map[string][]byte{}}
	n.Mem = world.NewMemState(world.Topic)
	if err := n.WireHot(n.Mem, b); err != nil {
		return nil, nil, err
	}
	return n, b, nil
}

func checkC08(c *Ctx) {
	c.Rule = "logs recorded from reference worlds (honest key generation + signing with slow signers; a key generation cancelled by an error report; two rounds interleaved on one board; logs salted with rejected, duplicated and junk messages) are replayed on fresh nodes carrying a recorded node's identity: (a) the live node vs replays under 'one message per poll', 'everything in one poll' and 5 random poll splits; (b) the same after the real ResetFSMState path; (c) every pair of live nodes after every prefix, outside the per-recipient deal phase; (d) each round replayed alone vs inside the interleaved log. Compared: public time-free projection of the round, signature store, final offset. Every world ends with a proposal that is rejected after the round's action ran (baked range outside the list) followed by an ordinary one, so that nodes which lived through a rejected message are compared with restarted ones. Worlds with name twins (alice/Alice); one replay per world through the repository's own Poll() loop; one replay per node of the log without other participants' private messages. Worlds cancelled by a differing group key; unsigned rows (no signature key) behind signed broadcasts in the file-board replays. distinct = distinct (log kind, comparison kind, split/prefix) comparisons"
	c.Assumptions = []string{"timestamps within the confirmation deadlines (property's own proviso)", "MemState", "the replaying node never answers operations: a round's state must not depend on them"}
	// "name-twins": participants whose names differ in letter case / surrounding blanks only (the proposal
	// validation accepts them as different users; private messages are addressed by name)
	// "key-mismatch": one participant announces another group key than the others (a faulty ceremony that
	// ends cancelled in the last phase; who is recorded how must not depend on the node)
	kinds := []string{"honest+signing", "cancelled", "two-rounds", "honest+junk", "name-twins", "key-mismatch"}
	reps := c.Pick(8, 80)
	type job struct {
		kind string
		rep  int
	}
	var jobs []job
	for r := 0; r < reps; r++ {
		for _, k := range kinds {
			jobs = append(jobs, job{k, r})
		}
	}
	Parallel(len(jobs), 12, func(i int) { runC08(c, jobs[i].kind, c.Seed*83+uint64(i)) })
}

func runC08(c *Ctx, kind string, seed uint64) {
	n, t := 3, 2
	r := sched.Derive(seed, 8)
	opts := world.Options{N: n, T: t, Seed: seed, OddNames: seed%3 == 1}
	if kind == "name-twins" {
		opts.OddNames = false
		opts.Names = [][]string{{"alice", "Alice", "bob"}, {"carol", "carol ", "CAROL"}, {"Node_1", "node_1", "node_10"}}[seed%3]
	}
	w, err := world.NewWorld(opts)
	if err != nil {
		c.Inconclusive("world: %v", err)
		return
	}
	defer w.Close()
	var rounds []string
	// (c) lock-step agreement is checked while the live world runs
	agreeChecks := 0
	w.AfterStep = func(a world.Action) {
		// compare only nodes that consumed the same prefix
		for x := 0; x < len(w.Nodes); x++ {
			for y := x + 1; y < len(w.Nodes); y++ {
				nx, ny := w.Nodes[x], w.Nodes[y]
				if nx.Offset() != ny.Offset() {
					continue
				}
				for _, rd := range rounds {
					sx, sy := NodeState(nx, rd), NodeState(ny, rd)
					if sx == "state_dkg_deals_await_confirmations" || sy == "state_dkg_deals_await_confirmations" {
						continue
					}
					px, py := Projection(nx, rd, oracle.ProjOpts{DropDeals: true}), Projection(ny, rd, oracle.ProjOpts{DropDeals: true})
					agreeChecks++
					if px != py {
						c.Violate("C08/nodes-at-same-prefix-disagree", fmt.Sprintf("%s and %s both consumed %d messages but differ on round %s: %s", nx.Name, ny.Name, nx.Offset(), trunc(rd, 8), oracle.FirstDiff(px, py)), map[string]interface{}{"kind": kind, "case_seed": seed, "prefix": nx.Offset()})
					}
				}
			}
		}
	}
	start := func(by int, at time.Time) string {
		id, err := w.StartDKG(by, t, at)
		if err != nil {
			return ""
		}
		rounds = append(rounds, id)
		return id
	}
	junk := func() {
		// rejected / duplicated / junk traffic salted into the log
		all := w.Board.All()
		if len(all) > 0 {
			d := all[r.Intn(len(all))]
			_ = w.Board.Send(d) // duplicate of a genuine message
			f := all[r.Intn(len(all))]
			f.Data = append([]byte("x"), f.Data...)
			_ = w.Board.Send(f) // broken signature
		}
		_ = w.Board.Send(storage.Message{DkgRoundID: "junk-round", Event: "bogus", Data: r.Bytes(20), SenderAddr: "nobody", Signature: r.Bytes(64)})
		// forged failure reports in a participant's name (junk signature): rejected by every honest node
		for _, rd := range rounds {
			for _, ev := range []string{EvDecline, EvCommitErr, EvDealErr, EvResponseErr, EvMasterKeyErr, EvPartialErr} {
				var data []byte
				if ev == EvDecline {
					data = mkReq(requests.SignatureProposalParticipantRequest{ParticipantId: 1, CreatedAt: now()})
				} else {
					data = mkReq(requests.DKGProposalConfirmationErrorRequest{ParticipantId: 1, Error: requests.NewFSMError(fmt.Errorf("forged")), CreatedAt: now()})
				}
				_ = w.Board.Send(storage.Message{DkgRoundID: rd, Event: ev, Data: data, SenderAddr: w.Nodes[1].Name, Signature: r.Bytes(64)})
			}
		}
		// a reinitialisation message whose last embedded message is rejected
		cid := fmt.Sprintf("%064x", r.Uint64())
		_ = w.Board.Send(storage.Message{DkgRoundID: cid, Event: EvReinit, Data: []byte(`{"dkg_id":"` + cid + `","threshold":2,"participants":[],"messages":[{"id":"x","dkg_round_id":"` + cid + `","offset":0,"event":"event_dkg_commit_confirm_received","data":"e30=","signature":"AA==","sender":"nobody","recipient":""}]}`), SenderAddr: "nobody", Signature: []byte("x")})
		// unauthenticated reinitialisation messages: malformed, and empty for an unused round id
		_ = w.Board.Send(storage.Message{DkgRoundID: "", Event: EvReinit, Data: []byte(`{"dkg_id":"","threshold":0}`), SenderAddr: "nobody", Signature: []byte("x")})
		rid := fmt.Sprintf("%064x", r.Uint64())
		_ = w.Board.Send(storage.Message{DkgRoundID: rid, Event: EvReinit, Data: []byte(`{"dkg_id":"` + rid + `","threshold":2,"participants":[],"messages":[]}`), SenderAddr: "nobody", Signature: []byte("x")})
	}
	if kind == "key-mismatch" {
		dev := r.Intn(n)
		w.ResultHook = func(nd *world.Node, req, res *types.Operation) *types.Operation {
			if string(req.Type) != OpMasterKey || nd.Idx != dev || len(res.ResultMsgs) != 1 {
				return res
			}
			var mk requests.DKGProposalMasterKeyConfirmationRequest
			if json.Unmarshal(res.ResultMsgs[0].Data, &mk) != nil {
				return res
			}
			mk.MasterKey = oracle.PointBytes(oracle.NewSuite().Point().Pick(oracle.NewSuite().RandomStream()))
			res.ResultMsgs[0].Data, _ = json.Marshal(mk)
			return res
		}
	}
	switch kind {
	case "cancelled":
		rw, err := buildRefWorld("cancelled", seed, 2, 2)
		if err != nil {
			c.Inconclusive("cancelled world: %v", err)
			return
		}
		defer rw.Close()
		judgeReplays(c, kind, seed, rw.Ce.W, []string{rw.Ce.Round}, r)
		return
	case "two-rounds":
		ra := start(0, now())
		rb := start(1, now().Add(time.Second))
		if ra == "" || rb == "" {
			c.Inconclusive("start failed")
			return
		}
	default:
		if start(int(seed)%n, now()) == "" {
			c.Inconclusive("start failed")
			return
		}
	}
	steps, junkRounds := 0, 0
	policy := func(w *world.World, acts []world.Action) (*world.Action, int) {
		steps++
		if kind == "honest+junk" && steps%9 == 0 && junkRounds < 8 {
			junkRounds++
			junk()
		}
		return world.RandomPolicy(w, acts)
	}
	if _, q := w.Run(policy, 20000); !q {
		c.Inconclusive("%s: no quiescence", kind)
		return
	}
	for _, rd := range rounds {
		ce := &Ceremony{W: w, N: n, T: t, Round: rd}
		if !ce.AllIn(StIdle) {
			// still a log worth replaying: whatever happened live must happen again on replay
			c.Note("%s: round %s ended %v (replays are still compared)", kind, trunc(rd, 6), ce.States())
			continue
		}
		slow := r.Intn(n)
		var signers []int
		for i := 0; i < n; i++ {
			if i != slow {
				signers = append(signers, i)
			}
		}
		if _, err := ce.RunBatch(BatchSpec{Proposer: r.Intn(n), Signers: signers, Data: map[string][]byte{"f": r.Bytes(10)}}, policy); err != nil {
			c.Inconclusive("batch: %v", err)
			return
		}
	}
	// a batch whose proposal is stamped a moment ahead of this machine's clock (the proposer's clock runs
	// fast): the live nodes consume it before that instant, the replays after it (see the wait below)
	var ahead time.Time
	for _, rd := range rounds {
		ce := &Ceremony{W: w, N: n, T: t, Round: rd}
		if !ce.AllIn(StIdle) {
			continue
		}
		ahead = now().Add(1500 * time.Millisecond)
		p := r.Intn(n)
		req := requests.SigningBatchProposalStartRequest{BatchID: "stamped-ahead-" + rd[:6], ParticipantId: p, CreatedAt: ahead,
			SigningTasks: []requests.SigningTask{{MessageID: "ahead", File: "ahead", Payload: r.Bytes(12)}}}
		msg := world.SignMsg(w.Nodes[p], rd, EvSigningStart, mkReq(req), "")
		if _, err := ce.RunBatch(BatchSpec{Proposer: p, Hand: &msg}, policy); err != nil {
			c.Inconclusive("stamped-ahead batch: %v", err)
			return
		}
		c.Add("batches_stamped_ahead_of_the_consumers_clock", 1)
	}
	if kind == "two-rounds" && len(rounds) == 2 {
		// a participant (authenticated in round B) broadcasts "reconstructed signatures" on round B whose
		// payload names round A's batch and messages: round A's store must not notice
		a, b := rounds[0], rounds[1]
		for batch, msgs := range SigStore(w.Nodes[0], a) {
			var forged []map[string]interface{}
			for mid := range msgs {
				forged = append(forged, map[string]interface{}{"File": "f", "BatchID": batch, "MessageID": mid, "SrcPayload": []byte("other"), "Signature": r.Bytes(96), "Username": w.Nodes[1].Name, "DKGRoundID": a})
			}
			_ = w.Board.Send(world.SignMsg(w.Nodes[1], b, EvSigRecon, mkReq(forged), ""))
		}
		w.Run(policy, 2000)
	}
	// last: one more batch that t participants finish while the slowest one never answers (its operation
	// stays pending on its node only), after which anybody re-posts that batch's opening message: what the
	// nodes make of the repeated message may not depend on their local operation pools
	if kind != "two-rounds" {
		for _, rd := range rounds {
			ce := &Ceremony{W: w, N: n, T: t, Round: rd}
			if !ce.AllIn(StIdle) || t >= n {
				continue
			}
			slow := r.Intn(n)
			var signers []int
			for i := 0; i < n; i++ {
				if i != slow {
					signers = append(signers, i)
				}
			}
			prop, err := ce.RunBatch(BatchSpec{Proposer: signers[0], Signers: signers, NoLate: true, Data: map[string][]byte{"g": r.Bytes(9)}}, policy)
			if err != nil || prop == nil {
				c.Inconclusive("batch with a silent participant: %v", err)
				return
			}
			again := *prop
			_ = w.Board.Send(again)
			w.OpFilter = func(nd *world.Node, op *types.Operation) bool { return string(op.Type) != OpSigning }
			w.Run(policy, 2000)
			w.OpFilter = nil
			c.Add("finished_batches_whose_opening_message_was_re-posted", 1)
		}
	}
	// very last: a proposal which the round's state machine accepts but which the node cannot expand (a baked
	// range outside the validator list) - it is rejected AFTER the round's action ran - followed by an ordinary
	// proposal nobody answers: what the round makes of the second one may not depend on whether the node
	// process lived through the first one or was restarted in between
	for _, rd := range rounds {
		ce := &Ceremony{W: w, N: n, T: t, Round: rd}
		if !ce.AllIn(StIdle) {
			c.Add("rounds_not_idle_before_the_unexpandable_proposal", 1)
			continue
		}
		p := r.Intn(n)
		bad := requests.SigningBatchProposalStartRequest{BatchID: "unexpandable-" + rd[:6], ParticipantId: p, CreatedAt: now(),
			SigningTasks: []requests.SigningTask{{MessageID: "range", RangeStart: 1 << 30, RangeEnd: 1<<30 + 2}}}
		_ = w.Board.Send(world.SignMsg(w.Nodes[p], rd, EvSigningStart, mkReq(bad), ""))
		w.Run(policy, 2000)
		q := (p + 1) % n
		good := requests.SigningBatchProposalStartRequest{BatchID: "after-unexpandable-" + rd[:6], ParticipantId: q, CreatedAt: now(),
			SigningTasks: []requests.SigningTask{{MessageID: "after", File: "after", Payload: r.Bytes(12)}}}
		_ = w.Board.Send(world.SignMsg(w.Nodes[q], rd, EvSigningStart, mkReq(good), ""))
		w.OpFilter = func(nd *world.Node, op *types.Operation) bool { return string(op.Type) != OpSigning }
		w.Run(policy, 2000)
		w.OpFilter = nil
		c.Add("proposals_rejected_after_the_rounds_action_then_an_ordinary_one", 1)
		c.Note("%s: after unexpandable+ordinary proposal round %s is %v", kind, trunc(rd, 6), ce.States())
	}
	w.AfterStep = nil
	c.Add("same_prefix_agreement_checks", agreeChecks)
	if d := time.Until(ahead); !ahead.IsZero() && d > 0 {
		time.Sleep(d + 100*time.Millisecond) // delay injection only: the replays start after the stamped instant
	}
	judgeReplays(c, kind, seed, w, rounds, r)
}

func judgeReplays(c *Ctx, kind string, seed uint64, w *world.World, rounds []string, r *sched.Rng) {
	log := w.Board.All()
	wit := func(extra string) map[string]interface{} {
		return map[string]interface{}{"kind": kind, "case_seed": seed, "log_len": len(log), "comparison": extra}
	}
	for _, live := range w.Nodes {
		ref := viewOf(live, rounds, oracle.ProjOpts{})
		// (a) different splits of consumption into polls
		splits := []string{"one-per-poll", "all-in-one", "random", "random", "random", "random", "random", "restart-each-poll", "random+restarts", "random+restarts"}
		for si, sp := range splits {
			rn, rb, err := replayNode(live, log)
			if err != nil {
				c.Inconclusive("replay node: %v", err)
				return
			}
			for int(rn.Offset()) < len(log) {
				upto := len(log)
				switch sp {
				case "one-per-poll":
					upto = int(rn.Offset()) + 1
				case "random":
					upto = int(rn.Offset()) + 1 + r.Intn(len(log)-int(rn.Offset()))
				case "restart-each-poll", "random+restarts":
					upto = int(rn.Offset()) + 1
					if sp == "random+restarts" {
						upto = int(rn.Offset()) + 1 + r.Intn(len(log)-int(rn.Offset()))
					}
					// a restart of the node process between polls: same durable state, fresh services
					if sp == "restart-each-poll" || r.Intn(3) == 0 {
						if err := rn.WireHot(rn.Mem, rb); err != nil {
							c.Inconclusive("rewire: %v", err)
							return
						}
					}
				}
				if _, err := rn.PollStep(upto); err != nil {
					break
				}
			}
			c.Eval(1)
			c.Distinct(fmt.Sprintf("%s|replay|%s|%d|%s", kind, live.Name, si, sp))
			if d := diffViews(ref, viewOf(rn, rounds, oracle.ProjOpts{}), true); d != "" {
				c.Violate("C08/replay-differs-from-live-node", fmt.Sprintf("%s live vs replay (%s): %s", live.Name, sp, d), wit("replay:"+sp))
			}
			// (b) reset path on the replayed node, then catch up again
			if si == 0 {
				if _, err := rn.FSM.ResetFSMState(&dto.ResetStateDTO{NewStateDBDSN: "fresh"}); err == nil {
					for int(rn.Offset()) < len(log) {
						// the replaying node re-posts its own reconstruction broadcasts; only the recorded log counts
						if _, err := rn.PollStep(len(log)); err != nil {
							break
						}
					}
					c.Eval(1)
					c.Distinct(fmt.Sprintf("%s|reset|%s", kind, live.Name))
					if d := diffViews(ref, viewOf(rn, rounds, oracle.ProjOpts{}), true); d != "" {
						c.Violate("C08/state-after-reset-and-replay-differs", fmt.Sprintf("%s: %s", live.Name, d), wit("reset"))
					}
				}
			}
		}
		// (a') the repository's own Poll() loop (its recipient filter, its order of calls) over the recorded log
		if (int(seed)+live.Idx)%3 == 0 {
			if rn, _, err := replayNode(live, log); err == nil {
				reached, perr := rn.RealPollToEnd(len(log), 60*time.Second)
				c.Eval(1)
				c.Distinct(fmt.Sprintf("%s|real-poll-loop|%s", kind, live.Name))
				if !reached {
					c.Inconclusive("real Poll() over the recorded log did not reach the end: %v", perr)
				} else if d := diffViews(ref, viewOf(rn, rounds, oracle.ProjOpts{}), true); d != "" {
					c.Violate("C08/replay-differs-from-live-node", fmt.Sprintf("%s live vs replay (the node's real Poll loop): %s", live.Name, d), wit("replay:real-poll-loop"))
				}
				c.Add("replays_through_the_real_poll_loop", 1)
			}
		}
		// (d2) only what was addressed to this node (broadcasts and private messages carrying exactly its name)
		{
			var mine []storage.Message
			for _, m := range log {
				if m.RecipientAddr == "" || m.RecipientAddr == live.Name {
					mine = append(mine, m)
				}
			}
			if rn, _, err := replayNode(live, mine); err == nil {
				for int(rn.Offset()) < len(mine) {
					if _, err := rn.PollStep(0); err != nil {
						break
					}
				}
				c.Eval(1)
				c.Distinct(fmt.Sprintf("%s|addressed-only|%s", kind, live.Name))
				c.Add("private_messages_of_others_removed", len(log)-len(mine))
				if d := diffViews(ref, viewOf(rn, rounds, oracle.ProjOpts{}), false); d != "" {
					c.Violate("C08/messages-addressed-to-others-changed-a-round", fmt.Sprintf("%s: the full log vs the log without the private messages of other participants: %s", live.Name, d), wit("addressed-only"))
				}
			}
		}
		// (d) each round alone vs interleaved with the other rounds' traffic
		if len(rounds) > 1 || kind == "honest+junk" {
			for _, rd := range rounds {
				var only []storage.Message
				for _, m := range log {
					if m.DkgRoundID == rd {
						only = append(only, m)
					}
				}
				rn, _, err := replayNode(live, only)
				if err != nil {
					continue
				}
				for int(rn.Offset()) < len(only) {
					if _, err := rn.PollStep(0); err != nil {
						break
					}
				}
				c.Eval(1)
				c.Distinct(fmt.Sprintf("%s|alone|%s|%s", kind, live.Name, trunc(rd, 6)))
				solo := viewOf(rn, []string{rd}, oracle.ProjOpts{})
				full := viewOf(live, []string{rd}, oracle.ProjOpts{})
				if d := diffViews(full, solo, false); d != "" {
					c.Violate("C08/other-rounds-traffic-changed-a-round", fmt.Sprintf("%s round %s: interleaved vs alone: %s", live.Name, trunc(rd, 8), d), wit("alone"))
				}
			}
		}
	}
	judgeResetOnLevelDB(c, kind, seed, w, rounds, log)
	judgeFileBoard(c, kind, seed, w, rounds, log, r)
	c.Sample(map[string]interface{}{"kind": kind, "log_len": len(log), "rounds": len(rounds), "nodes": len(w.Nodes)})
}

// judgeFileBoard (e): the recorded log, with repeated lines added (the same line - same id - a second
// time, before or after its own place: a board file somebody appended to twice), is written to a real
// board file and consumed through storage/file_storage by fresh nodes under different poll splits.
// The replays must agree with each other.
func judgeFileBoard(c *Ctx, kind string, seed uint64, w *world.World, rounds []string, log []storage.Message, r *sched.Rng) {
	if len(log) < 4 {
		return
	}
	salted := append([]storage.Message{}, log...)
	dups := 0
	for k := 0; k < 6; k++ {
		i := r.Intn(len(salted))
		m := salted[i]
		if exempt(m.Event) {
			continue
		}
		var j int
		if k%2 == 0 {
			j = r.Intn(i + 1) // an early copy: arrives before the round is ready for it
		} else {
			j = i + 1 + r.Intn(len(salted)-i) // a late copy
		}
		salted = append(salted[:j], append([]storage.Message{m}, salted[j:]...)...)
		dups++
	}
	// unsigned rows: right behind a genuine, signed broadcast the same payload appears once more without any
	// signature (the key is absent from the line), addressed to another round of the log where there is one
	unsigned := 0
	for k := 0; k < 4; k++ {
		i := r.Intn(len(salted))
		m := salted[i]
		if exempt(m.Event) || m.RecipientAddr != "" || m.Signature == nil {
			continue
		}
		cp := m
		cp.ID = fmt.Sprintf("unsigned-copy-%d", k)
		cp.Signature = nil
		for _, rd := range rounds {
			if rd != m.DkgRoundID {
				cp.DkgRoundID = rd
			}
		}
		salted = append(salted[:i+1], append([]storage.Message{cp}, salted[i+1:]...)...)
		unsigned++
	}
	c.Add("unsigned_rows_behind_signed_ones", unsigned)
	fb, err := world.NewFileBoard(salted)
	if err != nil {
		c.Inconclusive("file board: %v", err)
		return
	}
	defer fb.Remove()
	wit := func(extra string) map[string]interface{} {
		return map[string]interface{}{"kind": kind, "case_seed": seed, "log_len": len(salted), "repeated_lines": dups, "comparison": extra, "board": "storage/file_storage"}
	}
	for _, live := range w.Nodes {
		var ref nodeView
		for si, sp := range []string{"one-per-poll", "all-in-one", "random", "random", "random"} {
			rn := &world.Node{Idx: live.Idx, Name: live.Name, KeyPair: live.KeyPair, Keys: live.Keys, ResultCache: map[string][]byte{}}
			rn.Mem = world.NewMemState(world.Topic)
			if err := rn.WireHot(rn.Mem, fb); err != nil {
				c.Inconclusive("replay node on file board: %v", err)
				return
			}
			guard := 0
			for int(rn.Offset()) < len(salted) && guard < 4*len(salted) {
				guard++
				upto := len(salted)
				switch sp {
				case "one-per-poll":
					upto = int(rn.Offset()) + 1
				case "random":
					upto = int(rn.Offset()) + 1 + r.Intn(len(salted)-int(rn.Offset()))
				}
				if _, err := rn.PollStep(upto); err != nil {
					break
				}
			}
			c.Eval(1)
			c.Add("file_board_replays", 1)
			c.Distinct(fmt.Sprintf("%s|file-board|%s|%d|%s", kind, live.Name, si, sp))
			v := viewOf(rn, rounds, oracle.ProjOpts{})
			if int(rn.Offset()) < len(salted) {
				c.Violate("C08/file-board-replay-does-not-advance", fmt.Sprintf("%s (%s) stays at offset %d of %d", live.Name, sp, rn.Offset(), len(salted)), wit("file-board:"+sp))
				continue
			}
			if si == 0 {
				ref = v
				continue
			}
			if d := diffViews(ref, v, true); d != "" {
				c.Violate("C08/file-board-replays-differ-by-poll-split", fmt.Sprintf("%s: one message per poll vs %s over the same board file (%d lines, %d of them repeated): %s", live.Name, sp, len(salted), dups, d), wit("file-board:"+sp))
			}
		}
	}
}

// judgeResetOnLevelDB (b'): one replay per world on the real LevelDB store: consume half of the log,
// reset the state through FSMService.ResetFSMState onto a new database directory (the real
// LevelDBState.Reset / NewStateFromOld), consume the whole log again, compare with the live node.
func judgeResetOnLevelDB(c *Ctx, kind string, seed uint64, w *world.World, rounds []string, log []storage.Message) {
	live := w.Nodes[int(seed)%len(w.Nodes)]
	dir, err := os.MkdirTemp(world.WorkRoot(), fmt.Sprintf("c08ldb%d-", os.Getpid()))
	if err != nil {
		c.Inconclusive("tmp: %v", err)
		return
	}
	defer os.RemoveAll(dir)
	ldb, err := state.NewLevelDBState(filepath.Join(dir, "first"), world.Topic)
	if err != nil {
		c.Inconclusive("leveldb: %v", err)
		return
	}
	b := world.NewMemBoard()
	for _, m := range log {
		b.Inject(m)
	}
	rn := &world.Node{Idx: live.Idx, Name: live.Name, KeyPair: live.KeyPair, Keys: live.Keys, ResultCache: map[string][]byte{}, LDB: ldb}
	defer rn.CloseHandles()
	if err := rn.WireHot(ldb, b); err != nil {
		c.Inconclusive("wire on leveldb: %v", err)
		return
	}
	for int(rn.Offset()) < len(log)/2 {
		if _, err := rn.PollStep(len(log) / 2); err != nil {
			break
		}
	}
	wit := map[string]interface{}{"kind": kind, "case_seed": seed, "log_len": len(log), "comparison": "reset on the real LevelDB store after half of the log"}
	if _, err := rn.FSM.ResetFSMState(&dto.ResetStateDTO{NewStateDBDSN: filepath.Join(dir, "second")}); err != nil {
		c.Violate("C08/state-reset-fails", err.Error(), wit)
		return
	}
	if off := rn.Offset(); off != 0 {
		c.Violate("C08/state-after-reset-and-replay-differs", fmt.Sprintf("offset after the reset is %d, not 0", off), wit)
		return
	}
	for int(rn.Offset()) < len(log) {
		if _, err := rn.PollStep(len(log)); err != nil {
			break
		}
	}
	c.Eval(1)
	c.Add("resets_on_the_real_leveldb_store", 1)
	c.Distinct(fmt.Sprintf("%s|reset-on-leveldb|%s", kind, live.Name))
	if d := diffViews(viewOf(live, rounds, oracle.ProjOpts{}), viewOf(rn, rounds, oracle.ProjOpts{}), true); d != "" {
		c.Violate("C08/state-after-reset-and-replay-differs", fmt.Sprintf("%s (LevelDB, reset after half of the log): %s", live.Name, d), wit)
	}
}
