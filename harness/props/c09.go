package props

import (
	"crypto/ed25519"
	"encoding/json"
	"fmt"
	"strings"

	"github.com/lidofinance/dc4bc/client/types"
	"github.com/lidofinance/dc4bc/fsm/types/requests"
	"github.com/lidofinance/dc4bc/storage"

	"verifharness/sched"
	"verifharness/world"
)

// C09: no state change without a valid signature by the claimed sender's registered key.
func init() { Register("C09", "exploration", checkC09) }

type mutant struct {
	Label string
	Msg   storage.Message
}

func flipBit(b []byte, i int) []byte {
	out := append([]byte{}, b...)
	if len(out) > 0 {
		out[i%len(out)] ^= 1 << uint(i%7)
	}
	return out
}

// authMutants derives forgeries of a genuine message: altered payload, altered/missing signature,
// unknown or different sender, signature by another key.
func authMutants(m storage.Message, w *world.World, r *sched.Rng) []mutant {
	var out []mutant
	add := func(l string, mm storage.Message) { out = append(out, mutant{l, mm}) }
	cp := func() storage.Message {
		c := m
		c.Data = append([]byte{}, m.Data...)
		c.Signature = append([]byte{}, m.Signature...)
		return c
	}
	// payload byte classes
	d := string(m.Data)
	classes := map[string]int{}
	if i := strings.IndexAny(d, "{}[]:,\""); i >= 0 {
		classes["json-structure"] = i
	}
	if i := strings.IndexAny(d, "0123456789"); i >= 0 {
		classes["digit"] = i
	}
	if i := strings.Index(d, `":"`); i >= 0 && i+6 < len(d) {
		classes["base64-body"] = i + 5
	}
	if len(d) > 0 {
		classes["last-byte"] = len(d) - 1
		classes["middle-byte"] = len(d) / 2
		classes["random-byte"] = r.Intn(len(d))
	}
	for _, cl := range []string{"json-structure", "digit", "base64-body", "last-byte", "middle-byte", "random-byte"} {
		if i, ok := classes[cl]; ok {
			c := cp()
			c.Data[i] ^= 1 << uint(r.Intn(8))
			add("payload-flip:"+cl, c)
		}
	}
	// one character of a base64 body replaced by another valid one (the JSON stays well formed): near the end
	// of the payload and, in long payloads, far beyond the first 64 KiB
	for _, pos := range []int{len(d) - 40, 70000, len(d) * 3 / 4} {
		if pos <= 0 || pos >= len(d) {
			continue
		}
		for i := pos; i < len(d) && i < pos+200; i++ {
			b := d[i]
			if (b >= 'a' && b <= 'z') || (b >= 'A' && b <= 'Z') {
				c := cp()
				if b == 'Q' {
					c.Data[i] = 'R'
				} else {
					c.Data[i] = 'Q'
				}
				add(fmt.Sprintf("payload-other-base64-char:at-%d%%", 100*i/len(d)), c)
				break
			}
		}
	}
	{
		c := cp()
		c.Data = append(c.Data, ' ')
		add("payload-append-space", c)
		c = cp()
		if len(c.Data) > 1 {
			c.Data = c.Data[:len(c.Data)-1]
			add("payload-truncate", c)
		}
	}
	// signature
	for _, pos := range []int{0, 31, 63} {
		c := cp()
		c.Signature = flipBit(c.Signature, pos)
		add(fmt.Sprintf("sig-flip@%d", pos), c)
	}
	c := cp()
	c.Signature = c.Signature[:len(c.Signature)-1]
	add("sig-truncate-1", c)
	c = cp()
	c.Signature = c.Signature[:len(c.Signature)/2]
	add("sig-half", c)
	c = cp()
	c.Signature = []byte{}
	add("sig-empty", c)
	c = cp()
	c.Signature = nil
	add("sig-nil", c)
	c = cp()
	c.Signature = append(c.Signature, 0)
	add("sig-append", c)
	c = cp()
	c.Signature = make([]byte, 64)
	add("sig-zero", c)
	// sender renamed
	for _, n := range w.Nodes {
		if n.Name != m.SenderAddr {
			c = cp()
			c.SenderAddr = n.Name
			add("sender-renamed-to-participant:"+n.Name, c)
		}
	}
	for _, s := range []string{"stranger", "", m.SenderAddr + " ", strings.ToUpper(m.SenderAddr)} {
		c = cp()
		c.SenderAddr = s
		add(fmt.Sprintf("sender-renamed-to-%q", s), c)
	}
	// re-signed with other keys
	for _, n := range w.Nodes {
		if n.Name != m.SenderAddr {
			c = cp()
			c.Signature = ed25519.Sign(n.KeyPair.Priv, c.Bytes())
			add("resigned-with-key-of:"+n.Name, c)
		}
	}
	_, fresh, _ := ed25519.GenerateKey(r)
	c = cp()
	c.Signature = ed25519.Sign(fresh, c.Bytes())
	add("resigned-with-fresh-key", c)
	c = cp()
	c.SenderAddr = "stranger"
	c.Signature = ed25519.Sign(fresh, c.Bytes())
	add("stranger-with-own-key", c)
	// addressed to a round this node has never heard of: no key is registered there for anybody, so
	// neither the genuine signature (it covers the payload only) nor any other can verify
	for _, rid := range []string{fmt.Sprintf("%064x", r.Uint64()), "", m.DkgRoundID + "0", m.DkgRoundID + " ", "round-that-does-not-exist"} {
		c = cp()
		c.DkgRoundID = rid
		add(fmt.Sprintf("readdressed-to-unknown-round:%q", trunc(rid, 12)), c)
	}
	c = cp()
	c.DkgRoundID = fmt.Sprintf("%064x", r.Uint64())
	c.SenderAddr = "stranger"
	c.Signature = ed25519.Sign(fresh, c.Bytes())
	add("readdressed-to-unknown-round:stranger-with-own-key", c)
	return out
}

// refWorldsC09 builds the reference runs whose every (message, node) pair is attacked.
type refWorld struct {
	Name string
	Ce   *Ceremony
	Rec  *Recorder
	Old  *Ceremony
}

func (rw *refWorld) Close() {
	rw.Ce.Close()
	if rw.Old != nil {
		rw.Old.Close()
	}
}

// refWorldLargeDocument (set by C09): the honest+signing reference world signs a third batch with a
// 100 KiB document.
var refWorldLargeDocument bool

func buildRefWorld(kind string, seed uint64, n, t int) (*refWorld, error) {
	w, err := world.NewWorld(world.Options{N: n, T: t, Seed: seed})
	if err != nil {
		return nil, err
	}
	ce := &Ceremony{W: w, N: n, T: t}
	rec := NewRecorder(w)
	rw := &refWorld{Name: kind, Ce: ce, Rec: rec}
	switch kind {
	case "honest+signing", "reinit":
	case "cancelled":
		w.ResultHook = func(nd *world.Node, req, res *types.Operation) *types.Operation {
			if string(req.Type) == OpDeals && nd.Idx == n-1 {
				// the machine reports an error instead of its deals
				r2 := *req
				r2.Event = "event_dkg_deal_confirm_canceled_by_error"
				bz, _ := json.Marshal(requests.DKGProposalConfirmationErrorRequest{ParticipantId: nd.Idx, Error: requests.NewFSMError(fmt.Errorf("operator-injected failure")), CreatedAt: req.CreatedAt})
				r2.ResultMsgs = []storage.Message{{Event: string(r2.Event), Data: bz, DkgRoundID: req.DKGIdentifier}}
				return &r2
			}
			return res
		}
	}
	ce.Round, err = w.StartDKG(0, t, now())
	if err != nil {
		w.Close()
		return nil, err
	}
	if _, q := w.Run(world.OneAtATimePolicy, 6000); !q {
		w.Close()
		return nil, fmt.Errorf("reference run %s not quiescent", kind)
	}
	if kind == "honest+signing" || kind == "reinit" {
		if !ce.AllIn(StIdle) {
			w.Close()
			return nil, fmt.Errorf("reference run %s: %v", kind, ce.States())
		}
		for b := 0; b < 3; b++ {
			spec := BatchSpec{Proposer: b % n, Data: map[string][]byte{fmt.Sprintf("file-%d", b): []byte(fmt.Sprintf("content %d", b))}}
			if b == 2 && !refWorldLargeDocument {
				break
			}
			if b == 2 {
				// a large document: proposal, answers and broadcasts of this batch are far longer than 64 KiB
				big := make([]byte, 100<<10)
				for i := range big {
					big[i] = byte(i*131 + i>>8)
				}
				spec.Data = map[string][]byte{"large-document": big}
			}
			if t < n {
				spec.Signers = []int{0, 1}
				if t > 2 {
					spec.Signers = nil
				}
			}
			if _, err := ce.RunBatch(spec, world.OneAtATimePolicy); err != nil {
				w.Close()
				return nil, err
			}
		}
	}
	rec.Stop()
	if kind == "reinit" {
		// a second world: same machines, fresh communication keys, round reinitialised from the dump
		w2, err := world.NewWorld(world.Options{N: n, T: t, Seed: seed, CommSeed: seed + 777})
		if err != nil {
			w.Close()
			return nil, err
		}
		ce2 := &Ceremony{W: w2, N: n, T: t, Round: ce.Round}
		keys := map[string][]byte{}
		for _, nd := range w2.Nodes {
			keys[nd.Name] = nd.KeyPair.Pub
		}
		msgs, _ := w.Board.GetMessages(0)
		re, err := types.GenerateReDKGMessage(msgs, keys)
		if err != nil {
			w.Close()
			w2.Close()
			return nil, err
		}
		bz, _ := json.Marshal(re)
		rec2 := NewRecorder(w2)
		m := world.SignMsg(w2.Nodes[0], re.DKGID, EvReinit, bz, "")
		_ = w2.Board.Send(m)
		if _, q := w2.Run(world.OneAtATimePolicy, 6000); !q || !ce2.AllIn(StIdle) {
			w.Close()
			w2.Close()
			return nil, fmt.Errorf("reinit reference run: quiescent=%v states=%v", q, ce2.States())
		}
		if _, err := ce2.RunBatch(BatchSpec{Proposer: 1, Data: map[string][]byte{"after-reinit": []byte("x")}}, world.OneAtATimePolicy); err != nil {
			w.Close()
			w2.Close()
			return nil, err
		}
		rec2.Stop()
		return &refWorld{Name: kind, Ce: ce2, Rec: rec2, Old: ce}, nil
	}
	return rw, nil
}

func exempt(ev string) bool { return ev == EvInit || ev == EvReinit }

// protectedDiff reports changes to anything that existed before: other rounds in the round map,
// existing operations, signature stores. New entries for `freshRound` are the reinit message's own
// (exempt) effect.
func protectedDiff(before, after map[string][]byte, freshRound string) []string {
	var out []string
	for _, k := range world.DiffMaps(before, after, world.Topic+"_offset") {
		switch k {
		case world.Topic + "_fsm_state":
			var a, b map[string][]byte
			_ = json.Unmarshal(before[k], &a)
			_ = json.Unmarshal(after[k], &b)
			for r, v := range a {
				if string(b[r]) != string(v) {
					out = append(out, "round:"+r[:8])
				}
			}
			for r := range b {
				if _, ok := a[r]; !ok && r != freshRound {
					out = append(out, "new-round:"+trunc(r, 8))
				}
			}
		case world.Topic + "_operations":
			var a, b map[string]*types.Operation
			_ = json.Unmarshal(before[k], &a)
			_ = json.Unmarshal(after[k], &b)
			for id, v := range a {
				w, ok := b[id]
				if !ok || v.Equal(w) != nil {
					out = append(out, "operation:"+id[:6])
				}
			}
			for id, v := range b {
				if _, ok := a[id]; !ok && v.DKGIdentifier != freshRound {
					out = append(out, "new-operation-for-existing-round:"+id[:6])
				}
			}
		default:
			if strings.HasSuffix(k, freshRound) {
				continue
			}
			out = append(out, k)
		}
	}
	return out
}

func checkC09(c *Ctx) {
	refWorldLargeDocument = true
	c09FlagWiring(c)
	c.Rule = "reference ceremonies (honest key generation + two signing batches; a key generation cancelled by an error report; a round reinitialised from a dump followed by signing) are run one message per poll with a snapshot after every step, so that every (genuine message, consuming node) pair is met in the exact state in which the node consumes it. Each pair is attacked with ~30 forgeries (payload bit flips per byte class, signature flips/truncation/empty/zero, sender renamed to each other participant or a stranger, re-signed with each other participant's key or a fresh key); every forgery is also presented wrapped inside an (unauthenticated) reinit_dkg message for a fresh round id. Oracle: ProcessMessage returns an error and the node's durable state (offset excluded) is byte-identical; for the wrapped family: every existing round, existing operation and signature store is unchanged. Plus rounds in which the key registered for a participant is unusable (10/16/31/33/64-byte key in the opening proposal, key left out of a reinit message): every message naming that participant, under any signature, must be refused without a trace. Stranger's opening proposals under identifiers that fold onto the existing round's must leave it unchanged. A stranger's own round (the participants' names registered with her key): signature broadcasts posted there that name a real round / participant must leave the real round untouched. The daemon's command lines (each flag alone, the documented combinations): message verification may be off only when --skip_comm_keys_verification was given (observer compiled into cmd/dc4bc_d through go test -overlay). distinct = distinct (world, event type, consuming-state name, forgery kind)"
	c.Assumptions = []string{"MemState substituted for LevelDB", "the opening proposal and the reinitialisation message themselves are exempt by the property"}
	kinds := []struct {
		kind string
		n, t int
	}{{"honest+signing", 3, 2}, {"cancelled", 2, 2}, {"reinit", 3, 2}}
	if c.Thorough() {
		kinds = append(kinds, struct {
			kind string
			n, t int
		}{"honest+signing", 2, 2}, struct {
			kind string
			n, t int
		}{"honest+signing", 4, 3}, struct {
			kind string
			n, t int
		}{"cancelled", 3, 2}, struct {
			kind string
			n, t int
		}{"reinit", 2, 2}, struct {
			kind string
			n, t int
		}{"honest+signing", 3, 3})
	}
	Parallel(len(kinds), 8, func(ki int) {
		k := kinds[ki]
		seed := c.Seed*911 + uint64(ki)
		rw, err := buildRefWorld(k.kind, seed, k.n, k.t)
		if err != nil {
			c.Inconclusive("reference world %s: %v", k.kind, err)
			return
		}
		defer rw.Close()
		attackWorldC09(c, rw, seed)
	})
	// rounds in which the key registered for a participant is not a usable key at all
	c09OddKeys(c, c.Seed*919)
	// a stranger's own round speaking about a real one
	c09StrangerRound(c, c.Seed*929)
}

func attackWorldC09(c *Ctx, rw *refWorld, seed uint64) {
	w := rw.Ce.W
	all := w.Board.All()
	r := sched.Derive(seed, 9)
	done := map[string]bool{}
	pairs, direct, wrapped := 0, 0, 0
	for _, m := range rw.Rec.Moments {
		for v, nd := range w.Nodes {
			g := NextFor(all, m, v, nd.Name)
			if g == nil || exempt(g.Event) {
				continue
			}
			pk := fmt.Sprintf("%d@%d", g.Offset, v)
			if done[pk] {
				continue
			}
			done[pk] = true
			pairs++
			stateName := "?"
			nd.Mem.Restore(m.Snaps[v])
			stateName = NodeState(nd, g.DkgRoundID)
			// sanity: the genuine message itself is consumed without an authentication error
			for _, mu := range authMutants(*g, w, r) {
				c.Eval(1)
				direct++
				err, diff, pan := applyAt(w, m, v, mu.Msg)
				wit := map[string]interface{}{"world": rw.Name, "genuine_offset": g.Offset, "event": g.Event, "node": nd.Name, "state": stateName, "forgery": mu.Label}
				kind := mu.Label
				if i := strings.Index(kind, ":"); i > 0 {
					kind = kind[:i]
				}
				c.Distinct(fmt.Sprintf("%s|%s|%s|%s", rw.Name, g.Event, stateName, kind))
				if pan != nil {
					c.Add("panics_seen_(judged_by_C18)", 1)
					continue
				}
				if err == nil {
					c.Violate("C09/forgery-accepted:"+kind, fmt.Sprintf("%s of a genuine %s was accepted by %s in %s", mu.Label, g.Event, nd.Name, stateName), wit)
					continue
				}
				if len(diff) > 0 {
					c.Violate("C09/rejected-forgery-changed-state:"+kind, fmt.Sprintf("%s of %s rejected by %s but %v changed", mu.Label, g.Event, nd.Name, diff), wit)
				}
			}
			// the same forgeries right after an unauthenticated reinitialisation message that fails / that
			// succeeds for an unrelated round id: verification must be back on
			tailRejected := `{"dkg_id":"` + strings.Repeat("c", 64) + `","threshold":2,"participants":[],"messages":[{"id":"x","dkg_round_id":"` + strings.Repeat("c", 64) + `","offset":0,"event":"event_dkg_commit_confirm_received","data":"e30=","signature":"AA==","sender":"nobody","recipient":""}]}`
			for ri, reData := range []string{`{"dkg_id":"","threshold":0}`, `{"dkg_id":"` + strings.Repeat("d", 64) + `","threshold":2,"participants":[],"messages":[]}`, tailRejected} {
				rid := ""
				if ri == 1 {
					rid = strings.Repeat("d", 64)
				}
				if ri == 2 {
					rid = strings.Repeat("c", 64) // the embedded message (last one replayed) is rejected
				}
				pre := storage.Message{ID: "pre", DkgRoundID: rid, Event: EvReinit, Data: []byte(reData), SenderAddr: "stranger", Signature: []byte("none")}
				for i, mu := range authMutants(*g, w, r) {
					if i%6 != (int(g.Offset)+2*ri)%6 {
						continue
					}
					c.Eval(1)
					nd.Mem.Restore(m.Snaps[v])
					var pan interface{}
					var err error
					var mid map[string][]byte
					func() {
						defer func() { pan = recover() }()
						_ = nd.Svc.ProcessMessage(pre)
						mid = nd.Mem.Snapshot()
						err = nd.Svc.ProcessMessage(mu.Msg)
					}()
					after := nd.Mem.Snapshot()
					w.Board.Truncate(len(all))
					kind := mu.Label
					if i := strings.Index(kind, ":"); i > 0 {
						kind = kind[:i]
					}
					c.Distinct(fmt.Sprintf("%s|after-reinit%d|%s|%s|%s", rw.Name, ri, g.Event, stateName, kind))
					if pan != nil || mid == nil {
						continue
					}
					wit := map[string]interface{}{"world": rw.Name, "genuine_offset": g.Offset, "event": g.Event, "node": nd.Name, "state": stateName, "forgery": mu.Label, "preceded_by": reData}
					if err == nil {
						c.Violate("C09/forgery-accepted-after-reinit-message:"+kind, fmt.Sprintf("%s of a genuine %s was accepted by %s right after an unauthenticated reinit_dkg message (%s)", mu.Label, g.Event, nd.Name, trunc(reData, 40)), wit)
					} else if diff := world.DiffMaps(mid, after, world.Topic+"_offset"); len(diff) > 0 {
						c.Violate("C09/rejected-forgery-changed-state:"+kind, fmt.Sprintf("%v changed", diff), wit)
					}
				}
			}
			// wrapped family: the forgery travels inside an unauthenticated reinit message
			ms := authMutants(*g, w, r)
			for i, mu := range ms {
				if c.Tier == "quick" && i%3 != int(g.Offset)%3 {
					continue
				}
				c.Eval(1)
				wrapped++
				fresh := fmt.Sprintf("%064x", uint64(g.Offset)*1000+uint64(i)+1)
				re := types.ReDKG{DKGID: fresh, Threshold: 2, Messages: []storage.Message{mu.Msg}}
				for _, p := range w.Nodes {
					re.Participants = append(re.Participants, types.Participant{Name: p.Name, NewCommPubKey: p.KeyPair.Pub, OldCommPubKey: p.KeyPair.Pub, DKGPubKey: fakeKey("dkg", p.Idx)})
				}
				bz, _ := json.Marshal(re)
				wrap := storage.Message{ID: "wrap", DkgRoundID: fresh, Event: EvReinit, Data: bz, SenderAddr: "stranger", Signature: []byte("none")}
				nd.Mem.Restore(m.Snaps[v])
				before := m.Snaps[v]
				var pan interface{}
				func() {
					defer func() { pan = recover() }()
					_ = nd.Svc.ProcessMessage(wrap)
				}()
				after := nd.Mem.Snapshot()
				w.Board.Truncate(len(all))
				kind := mu.Label
				if i := strings.Index(kind, ":"); i > 0 {
					kind = kind[:i]
				}
				c.Distinct(fmt.Sprintf("%s|wrapped|%s|%s|%s", rw.Name, g.Event, stateName, kind))
				if pan != nil {
					c.Add("panics_seen_(judged_by_C18)", 1)
					continue
				}
				if pd := protectedDiff(before, after, fresh); len(pd) > 0 {
					c.Violate("C09/forgery-inside-reinit-message-applied", fmt.Sprintf("%s of a genuine %s, embedded in a reinit_dkg message for a fresh round id, changed %v on %s (state %s)", mu.Label, g.Event, pd, nd.Name, stateName), map[string]interface{}{"world": rw.Name, "genuine_offset": g.Offset, "event": g.Event, "node": nd.Name, "state": stateName, "forgery": mu.Label})
				}
				// second channel: the envelope names the existing round while the payload names a fresh one
				if i == 0 {
					re2 := re
					re2.Messages = nil
					bz2, _ := json.Marshal(re2)
					wrap2 := storage.Message{ID: "wrap2", DkgRoundID: g.DkgRoundID, Event: EvReinit, Data: bz2, SenderAddr: "stranger", Signature: []byte("none")}
					nd.Mem.Restore(m.Snaps[v])
					func() {
						defer func() { _ = recover() }()
						_ = nd.Svc.ProcessMessage(wrap2)
					}()
					after2 := nd.Mem.Snapshot()
					w.Board.Truncate(len(all))
					c.Eval(1)
					if pd := protectedDiff(before, after2, fresh); len(pd) > 0 {
						c.Violate("C09/reinit-envelope-naming-existing-round-overwrites-it", fmt.Sprintf("an unauthenticated reinit_dkg message whose envelope names existing round %s and whose payload names a fresh id changed %v on %s", trunc(g.DkgRoundID, 8), pd, nd.Name), map[string]interface{}{"world": rw.Name, "node": nd.Name, "state": stateName})
					}
				}
				// third channel: a reinitialisation message aimed at the existing round itself (envelope and payload
				// name it), carrying a stranger's keys for every participant and a forged contribution: the node
				// already has that round, nothing of it may change
				if i <= 1 {
					re3 := types.ReDKG{DKGID: g.DkgRoundID, Threshold: 2, Messages: []storage.Message{mu.Msg}}
					if i == 1 {
						re3.Messages = nil
					}
					for _, p := range w.Nodes {
						re3.Participants = append(re3.Participants, types.Participant{Name: p.Name, NewCommPubKey: fakeKey("stranger", 0)[:32], OldCommPubKey: p.KeyPair.Pub, DKGPubKey: fakeKey("dkg", p.Idx)})
					}
					bz3, _ := json.Marshal(re3)
					wrap3 := storage.Message{ID: "wrap3", DkgRoundID: g.DkgRoundID, Event: EvReinit, Data: bz3, SenderAddr: "stranger", Signature: []byte("none")}
					nd.Mem.Restore(m.Snaps[v])
					func() {
						defer func() { _ = recover() }()
						_ = nd.Svc.ProcessMessage(wrap3)
					}()
					after3 := nd.Mem.Snapshot()
					w.Board.Truncate(len(all))
					c.Eval(1)
					c.Distinct(fmt.Sprintf("%s|reinit-of-existing-round|%s|%s|%d", rw.Name, g.Event, stateName, i))
					if pd := protectedDiff(before, after3, ""); len(pd) > 0 {
						c.Violate("C09/reinit-message-for-an-existing-round-changed-it", fmt.Sprintf("an unauthenticated reinit_dkg message for round %s, which %s already holds (in %s), changed %v", trunc(g.DkgRoundID, 8), nd.Name, stateName, pd), map[string]interface{}{"world": rw.Name, "node": nd.Name, "state": stateName, "embedded": mu.Label})
					}
				}
				// fourth channel: an (exempt) opening proposal carrying a stranger's keys, posted under an identifier
				// that a careless normalisation folds onto the existing round's (blanks, case, a prefix): it may
				// open a round of that name, the existing round stays as it is
				if i == 0 {
					var opener *storage.Message
					for k := range all {
						if all[k].Event == EvInit && all[k].DkgRoundID == g.DkgRoundID {
							opener = &all[k]
							break
						}
					}
					if opener != nil {
						for _, rid := range roundIDLookalikes(g.DkgRoundID) {
							msg := strangerProposal(*opener)
							msg.DkgRoundID = rid
							nd.Mem.Restore(m.Snaps[v])
							func() {
								defer func() { _ = recover() }()
								_ = nd.Svc.ProcessMessage(msg)
							}()
							after4 := nd.Mem.Snapshot()
							w.Board.Truncate(len(all))
							c.Eval(1)
							c.Distinct(fmt.Sprintf("%s|opening-proposal-under-lookalike-id|%s", rw.Name, stateName))
							if pd := protectedDiff(before, after4, rid); len(pd) > 0 {
								c.Violate("C09/opening-proposal-under-a-lookalike-id-changed-the-existing-round", fmt.Sprintf("an unauthenticated opening proposal with a stranger's keys posted under round id %q changed %v on %s (round %s was in %s)", rid, pd, nd.Name, trunc(g.DkgRoundID, 8), stateName), map[string]interface{}{"world": rw.Name, "node": nd.Name, "state": stateName, "round_id": rid})
							}
						}
					}
				}
				// the verification switch must be back off afterwards
				if chk, ok := nd.Svc.(interface{ GetSkipCommKeysVerification() bool }); ok && chk.GetSkipCommKeysVerification() {
					c.Violate("C09/verification-left-switched-off-after-reinit", nd.Name, nil)
				}
			}
		}
	}
	c.Add("genuine_message_node_pairs", pairs)
	c.Add("direct_forgeries", direct)
	c.Add("wrapped_forgeries", wrapped)
	c.Sample(map[string]interface{}{"world": rw.Name, "n": rw.Ce.N, "board_len": len(all), "moments": len(rw.Rec.Moments), "pairs": pairs})
}
