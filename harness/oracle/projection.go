package oracle

import (
	"crypto/sha256"
	"encoding/hex"
	"encoding/json"
	"strings"
)

// ProjOpts selects what a public projection drops.
type ProjOpts struct {
	DropDeals    bool // private deal ciphertexts + per-recipient deal-phase statuses
	DropStatuses bool
}

func isTimeKey(k string) bool {
	return k == "CreatedAt" || k == "UpdatedAt" || k == "ExpiresAt"
}

func strip(v interface{}, o ProjOpts) interface{} {
	switch t := v.(type) {
	case map[string]interface{}:
		out := map[string]interface{}{}
		for k, x := range t {
			if isTimeKey(k) {
				continue
			}
			if o.DropDeals && k == "DkgDeal" {
				continue
			}
			if o.DropStatuses && k == "Status" {
				continue
			}
			out[k] = strip(x, o)
		}
		return out
	case []interface{}:
		out := make([]interface{}, len(t))
		for i, x := range t {
			out[i] = strip(x, o)
		}
		return out
	}
	return v
}

// Project turns the JSON of an FSM dump into its canonical public, time-free form.
// encoding/json sorts map keys, so the result is canonical.
func Project(dumpJSON []byte, o ProjOpts) (string, error) {
	var v interface{}
	if err := json.Unmarshal(dumpJSON, &v); err != nil {
		return "", err
	}
	bz, err := json.Marshal(strip(v, o))
	if err != nil {
		return "", err
	}
	return string(bz), nil
}

// ProjectValue marshals any value and projects it.
func ProjectValue(v interface{}, o ProjOpts) string {
	bz, err := json.Marshal(v)
	if err != nil {
		return "ERR:" + err.Error()
	}
	s, err := Project(bz, o)
	if err != nil {
		return "ERR:" + err.Error()
	}
	return s
}

func Hash(s string) string {
	h := sha256.Sum256([]byte(s))
	return hex.EncodeToString(h[:8])
}

// FirstDiff gives a short description of where two canonical strings diverge (for witnesses).
func FirstDiff(a, b string) string {
	n := len(a)
	if len(b) < n {
		n = len(b)
	}
	i := 0
	for i < n && a[i] == b[i] {
		i++
	}
	lo := i - 60
	if lo < 0 {
		lo = 0
	}
	ha, hb := i+60, i+60
	if ha > len(a) {
		ha = len(a)
	}
	if hb > len(b) {
		hb = len(b)
	}
	return strings.Join([]string{"A: ..." + a[lo:ha], "B: ..." + b[lo:hb]}, " | ")
}

// HashN maps s to 0..n-1 (fixed, seed-independent sampling of cases).
func HashN(s string, n int) int {
	h := sha256.Sum256([]byte(s))
	return int(uint32(h[0])<<8|uint32(h[1])) % n
}
