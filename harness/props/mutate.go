package props

import (
	"encoding/base64"
	"encoding/json"
	"fmt"
	"sort"
	"strings"

	"verifharness/sched"
)

// Structure-aware JSON mutation: every mutant is a small, labelled edit of a genuine document.

type jsonMutant struct {
	Label string
	Data  []byte
}

type jpath []interface{} // string keys and int indices

func (p jpath) String() string {
	var s []string
	for _, e := range p {
		s = append(s, fmt.Sprint(e))
	}
	return strings.Join(s, ".")
}

func walk(v interface{}, p jpath, f func(p jpath, v interface{})) {
	f(p, v)
	switch t := v.(type) {
	case map[string]interface{}:
		keys := make([]string, 0, len(t))
		for k := range t {
			keys = append(keys, k)
		}
		sort.Strings(keys)
		for _, k := range keys {
			walk(t[k], append(append(jpath{}, p...), k), f)
		}
	case []interface{}:
		for i, x := range t {
			if i > 3 && i < len(t)-1 {
				continue // first few and the last element are enough
			}
			walk(x, append(append(jpath{}, p...), i), f)
		}
	}
}

func deepCopy(v interface{}) interface{} {
	bz, _ := json.Marshal(v)
	var out interface{}
	_ = json.Unmarshal(bz, &out)
	return out
}

// setAt returns a copy of root with the value at p replaced (del: removed).
func setAt(root interface{}, p jpath, nv interface{}, del bool) interface{} {
	c := deepCopy(root)
	if len(p) == 0 {
		return nv
	}
	cur := c
	for i := 0; i < len(p)-1; i++ {
		switch k := p[i].(type) {
		case string:
			cur = cur.(map[string]interface{})[k]
		case int:
			cur = cur.([]interface{})[k]
		}
	}
	switch k := p[len(p)-1].(type) {
	case string:
		m := cur.(map[string]interface{})
		if del {
			delete(m, k)
		} else {
			m[k] = nv
		}
	case int:
		a := cur.([]interface{})
		if del {
			// deleting from an array needs the parent; replace by null instead
			a[k] = nil
		} else {
			a[k] = nv
		}
	}
	return c
}

var hugeInts = []interface{}{-1, -2147483648, 2147483647, 4294967296, json.Number("9223372036854775807"), json.Number("-9223372036854775808"), json.Number("18446744073709551616"), 1e300, 0.5}

// mutateJSON derives structure-aware mutants of a JSON document. If the document does not parse,
// only byte-level mutants are produced.
func mutateJSON(doc []byte, r *sched.Rng, budget int) []jsonMutant {
	var out []jsonMutant
	add := func(l string, v interface{}) {
		bz, err := json.Marshal(v)
		if err == nil {
			out = append(out, jsonMutant{l, bz})
		}
	}
	raw := func(l string, b []byte) { out = append(out, jsonMutant{l, b}) }
	// byte level
	raw("empty", nil)
	raw("null", []byte("null"))
	raw("json-array", []byte("[]"))
	raw("json-object", []byte("{}"))
	raw("json-string", []byte(`"x"`))
	raw("json-number", []byte("7"))
	raw("array-of-nulls", []byte("[null,null]"))
	raw("deep-nesting", []byte(strings.Repeat("[", 2000)+strings.Repeat("]", 2000)))
	if len(doc) > 2 {
		raw("truncated", doc[:len(doc)/2])
		raw("trailing-garbage", append(append([]byte{}, doc...), []byte("}{")...))
	}
	var root interface{}
	dec := json.NewDecoder(strings.NewReader(string(doc)))
	dec.UseNumber()
	if err := dec.Decode(&root); err != nil {
		return out
	}
	type site struct {
		p jpath
		v interface{}
	}
	var sites []site
	walk(root, nil, func(p jpath, v interface{}) {
		if len(p) > 0 {
			sites = append(sites, site{append(jpath{}, p...), v})
		}
	})
	for _, s := range sites {
		ps := s.p.String()
		add("delete:"+ps, setAt(root, s.p, nil, true))
		add("null:"+ps, setAt(root, s.p, nil, false))
		switch t := s.v.(type) {
		case string:
			add("str->number:"+ps, setAt(root, s.p, 1, false))
			add("str->empty:"+ps, setAt(root, s.p, "", false))
			add("str->array:"+ps, setAt(root, s.p, []interface{}{t}, false))
			add("str->object:"+ps, setAt(root, s.p, map[string]interface{}{"x": t}, false))
			add("str->notbase64:"+ps, setAt(root, s.p, "!!!not base64!!!", false))
			if len(t) > 4 {
				add("str->truncated:"+ps, setAt(root, s.p, t[:len(t)/2], false))
			}
			if bz, err := base64.StdEncoding.DecodeString(t); err == nil && len(bz) > 0 {
				add("bytes->1byte:"+ps, setAt(root, s.p, base64.StdEncoding.EncodeToString(bz[:1]), false))
				add("bytes->zero:"+ps, setAt(root, s.p, base64.StdEncoding.EncodeToString(make([]byte, len(bz))), false))
				fl := append([]byte{}, bz...)
				fl[r.Intn(len(fl))] ^= 0x40
				add("bytes->bitflip:"+ps, setAt(root, s.p, base64.StdEncoding.EncodeToString(fl), false))
				add("bytes->truncated:"+ps, setAt(root, s.p, base64.StdEncoding.EncodeToString(bz[:len(bz)/2]), false))
				add("bytes->ff:"+ps, setAt(root, s.p, base64.StdEncoding.EncodeToString([]byte(strings.Repeat("\xff", len(bz)))), false))
				// nested JSON inside a byte field (commits, responses, source payloads)
				var inner interface{}
				if json.Unmarshal(bz, &inner) == nil {
					for _, im := range []string{"null", "[null]", "[]", "{}", `[{"x":null}]`, `["AA=="]`, `[null,null,null]`} {
						add("bytes->json("+im+"):"+ps, setAt(root, s.p, base64.StdEncoding.EncodeToString([]byte(im)), false))
					}
				}
			}
		case json.Number:
			for _, h := range hugeInts {
				add(fmt.Sprintf("int->%v:%s", h, ps), setAt(root, s.p, h, false))
			}
			add("int->string:"+ps, setAt(root, s.p, "1", false))
			add("int->array:"+ps, setAt(root, s.p, []interface{}{1}, false))
		case []interface{}:
			add("array->empty:"+ps, setAt(root, s.p, []interface{}{}, false))
			add("array->nulls:"+ps, setAt(root, s.p, []interface{}{nil, nil}, false))
			add("array->object:"+ps, setAt(root, s.p, map[string]interface{}{}, false))
			add("array->string:"+ps, setAt(root, s.p, "x", false))
			if len(t) > 0 {
				big := make([]interface{}, 0, 300)
				for i := 0; i < 300; i++ {
					big = append(big, t[0])
				}
				add("array->oversized:"+ps, setAt(root, s.p, big, false))
				add("array->duplicated-first:"+ps, setAt(root, s.p, append([]interface{}{t[0]}, t...), false))
			}
		case map[string]interface{}:
			add("object->empty:"+ps, setAt(root, s.p, map[string]interface{}{}, false))
			add("object->array:"+ps, setAt(root, s.p, []interface{}{}, false))
			add("object->string:"+ps, setAt(root, s.p, "x", false))
		case bool:
			add("bool->string:"+ps, setAt(root, s.p, "true", false))
		}
	}
	if budget > 0 && len(out) > budget {
		// deterministic thinning: keep the byte-level ones and an even sample of the rest
		keep := out[:10]
		rest := out[10:]
		step := float64(len(rest)) / float64(budget-10)
		for i := 0.0; int(i) < len(rest) && len(keep) < budget; i += step {
			keep = append(keep, rest[int(i)])
		}
		out = keep
	}
	return out
}

// mutateJSONDeep adds second-order mutants: a sample of first-order mutants is mutated again.
func mutateJSONDeep(doc []byte, r *sched.Rng, first, second int) []jsonMutant {
	out := mutateJSON(doc, r, first)
	if second <= 0 || len(out) == 0 {
		return out
	}
	n := len(out)
	for k := 0; k < 12; k++ {
		base := out[10+r.Intn(n-10)%n]
		if len(base.Data) == 0 {
			continue
		}
		for _, m2 := range mutateJSON(base.Data, r, second) {
			out = append(out, jsonMutant{base.Label + " + " + m2.Label, m2.Data})
		}
	}
	return out
}
