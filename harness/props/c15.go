package props

import (
	"bytes"
	"crypto/ed25519"
	"encoding/json"
	"fmt"
	"os"
	"path/filepath"
	"strings"
	"sync"
	"time"

	"github.com/lidofinance/dc4bc/client/api/dto"
	"github.com/lidofinance/dc4bc/client/types"
	"github.com/lidofinance/dc4bc/storage"

	"verifharness/sched"
	"verifharness/world"
)

// C15: only unaltered answers to operations the node issued reach the board, once.
func init() { Register("C15", "exploration", checkC15) }

type c15Sub struct {
	Label  string
	Op     *types.Operation
	Expect string // "accept" | "reject" | "either"
	// Omit: top-level keys left out of the uploaded JSON altogether (REST / CLI channels only): a file
	// written by something else than the repository's own marshaller
	Omit []string
}

// body is the uploaded file: the JSON of the operation, minus the omitted keys.
func (s c15Sub) body() []byte {
	bz, _ := json.Marshal(s.Op)
	if len(s.Omit) == 0 {
		return bz
	}
	var m map[string]json.RawMessage
	_ = json.Unmarshal(bz, &m)
	for _, k := range s.Omit {
		delete(m, k)
	}
	bz, _ = json.Marshal(m)
	return bz
}

func cloneOp(o *types.Operation) *types.Operation {
	c, _ := world.JSONRoundTrip(o)
	return c
}

// submitAndJudge submits one result to node v and checks board/pool deltas.
func submitAndJudge(c *Ctx, w *world.World, v *world.Node, sub c15Sub, wit map[string]interface{}) (accepted bool) {
	before := v.Mem.Snapshot()
	pendBefore := map[string]*types.Operation{}
	for _, o := range w.PendingOps(v) {
		pendBefore[o.ID] = o
	}
	boardBefore := w.Board.Len()
	isApprove := strings.HasPrefix(sub.Label, "approve-participation")
	var err error
	var pan interface{}
	func() {
		defer func() { pan = recover() }()
		switch {
		case v.CLI != nil && isApprove:
			err = v.CLI.Approve(sub.Op.ID)
		case v.CLI != nil:
			// the result file is handed to `dc4bc_cli read_operation_result`
			bz := sub.body()
			path := filepath.Join(v.CLI.Dir, fmt.Sprintf("submission_%d.json", v.CLI.Calls["read_operation_result"]))
			if werr := os.WriteFile(path, bz, 0o600); werr != nil {
				err = werr
				break
			}
			err = v.CLI.SubmitFile(path)
			c.Add("submissions_through_the_dc4bc_cli_binary", 1)
		case v.API != nil && isApprove:
			err = v.API.Approve(sub.Op.ID)
		case v.API != nil:
			// the operator uploads the file: POST /handleProcessedOperationJSON
			err = v.API.Submit(sub.body())
			c.Add("submissions_through_the_rest_api", 1)
		case isApprove:
			err = v.Svc.ApproveParticipation(&dto.OperationIdDTO{OperationID: sub.Op.ID})
		default:
			err = v.Svc.ProcessOperation(world.OpToDTO(sub.Op))
		}
	}()
	c.Eval(1)
	wit = map[string]interface{}{"case": wit, "submission": sub.Label, "operation_type": string(sub.Op.Type), "error": fmt.Sprint(err)}
	if pan != nil {
		c.Add("panics_seen_(judged_by_C18)", 1)
		return false
	}
	posted := w.Board.All()[boardBefore:]
	after := v.Mem.Snapshot()
	if err != nil {
		if sub.Expect == "accept" {
			c.Violate("C15/genuine-result-refused", fmt.Sprintf("%s: %v", sub.Label, err), wit)
		}
		if len(posted) > 0 {
			c.Violate("C15/rejected-submission-posted-messages", fmt.Sprintf("%s posted %d message(s) although it was refused", sub.Label, len(posted)), wit)
		}
		if diff := world.DiffMaps(before, after, world.Topic+"_offset"); len(diff) > 0 {
			c.Violate("C15/rejected-submission-changed-state", fmt.Sprintf("%s refused but %v changed", sub.Label, diff), wit)
		}
		return false
	}
	// accepted
	if sub.Expect == "reject" {
		c.Violate("C15/altered-or-unissued-result-accepted:"+strings.SplitN(sub.Label, ":", 2)[0], fmt.Sprintf("%s was accepted", sub.Label), wit)
	}
	stored, wasPending := pendBefore[sub.Op.ID]
	if !wasPending {
		c.Violate("C15/accepted-result-for-operation-not-pending", sub.Label, wit)
		return true
	}
	if !isApprove && (stored.Type != sub.Op.Type || !bytes.Equal(stored.Payload, sub.Op.Payload)) {
		c.Violate("C15/accepted-result-with-altered-request", sub.Label, wit)
	}
	if !isApprove && sub.Op.Event == "" {
		c.Violate("C15/request-only-operation-accepted", sub.Label, wit)
	}
	// board delta == ResultMsgs (approval: the node builds the single confirmation itself)
	want := sub.Op.ResultMsgs
	if sub.Op.Event == types.OperationProcessed {
		want = nil
	}
	if isApprove {
		if len(posted) != 1 || posted[0].Event != EvConfirm {
			c.Violate("C15/approval-posted-unexpected-messages", fmt.Sprint(len(posted)), wit)
		}
	} else if len(posted) != len(want) {
		c.Violate("C15/posted-messages-differ-from-result", fmt.Sprintf("%d posted, result carries %d", len(posted), len(want)), wit)
	} else {
		for i := range want {
			if !bytes.Equal(posted[i].Data, want[i].Data) || posted[i].Event != want[i].Event || posted[i].DkgRoundID != want[i].DkgRoundID || posted[i].RecipientAddr != want[i].RecipientAddr {
				c.Violate("C15/posted-messages-differ-from-result", fmt.Sprintf("message %d differs", i), wit)
			}
		}
	}
	for _, m := range posted {
		if m.SenderAddr != v.Name {
			c.Violate("C15/posted-message-not-attributed-to-the-node", m.SenderAddr, wit)
		}
		if !ed25519.Verify(v.KeyPair.Pub, m.Data, m.Signature) {
			c.Violate("C15/posted-message-signature-invalid", m.Event, wit)
		}
	}
	for _, o := range w.PendingOps(v) {
		if o.ID == sub.Op.ID {
			c.Violate("C15/operation-still-pending-after-accepted-result", sub.Label, wit)
		}
	}
	c.Add("accepted_submissions_judged", 1)
	return true
}

func semanticEqual(a, b *types.Operation) string {
	if a.ID != b.ID || a.Type != b.Type || a.DKGIdentifier != b.DKGIdentifier || a.To != b.To || a.Event != b.Event {
		return "scalar field"
	}
	if !bytes.Equal(a.Payload, b.Payload) && !(len(a.Payload) == 0 && len(b.Payload) == 0) {
		return "Payload"
	}
	if !bytes.Equal(a.ExtraData, b.ExtraData) && !(len(a.ExtraData) == 0 && len(b.ExtraData) == 0) {
		return "ExtraData"
	}
	if !a.CreatedAt.Equal(b.CreatedAt) {
		return "CreatedAt"
	}
	if len(a.ResultMsgs) != len(b.ResultMsgs) {
		return "ResultMsgs length"
	}
	for i := range a.ResultMsgs {
		x, y := a.ResultMsgs[i], b.ResultMsgs[i]
		if x.ID != y.ID || x.DkgRoundID != y.DkgRoundID || x.Offset != y.Offset || x.Event != y.Event || x.SenderAddr != y.SenderAddr || x.RecipientAddr != y.RecipientAddr ||
			!(bytes.Equal(x.Data, y.Data) || len(x.Data)+len(y.Data) == 0) || !(bytes.Equal(x.Signature, y.Signature) || len(x.Signature)+len(y.Signature) == 0) {
			return fmt.Sprintf("ResultMsgs[%d]", i)
		}
	}
	return ""
}

func checkC15(c *Ctx) {
	c.Rule = "ceremonies (key generation + signing, plus a reinitialisation) are driven with an operator that, before every genuine submission, first submits altered variants of the result (other/unknown/retired id, changed type, changed payload byte, request-only, result of another node's operation, result for another round), then the genuine one, then the genuine one again, and sometimes two pending results in reverse order. Every submission is judged on board delta, pool delta, attribution and ed25519 signature of what was posted, and byte-exact state equality when refused. File round trip: every operation and result goes through the real writers/readers (JSON file written by Machine.ProcessOperation, parsed back; the same operation processed twice into the same result file) and is compared field by field. Before each genuine submission the board refuses one message of the result: nothing may be posted, the operation stays pending. Approvals go through the approval path on every channel, also with the board unreachable at the first attempt. An operation that was exported and whose round a state reset (ignore list naming the opening message) then dropped: the late result must be refused. distinct = distinct (operation type, submission kind)"
	c.Assumptions = []string{"MemState", "ResultMsgs are not checkable by the node (they come from the machine); the property only demands that exactly those are posted"}
	worlds := c.Pick(48, 400)
	Parallel(worlds, 12, func(wi int) { runC15(c, wi, c.Seed*109+uint64(wi)) })
	c15RoundTrip(c)
	c15ConcurrentDuplicates(c)
	c15AfterReset(c)
}

// c15ConcurrentDuplicates: "cannot be answered again" also when the same result is submitted twice at the
// same time (a double POST, a retry overlapping a slow send): all interleavings with <= 2 pre-emptions of
// two identical submissions, at the granularity of State/Storage calls.
func c15ConcurrentDuplicates(c *Ctx) {
	for _, kind := range []string{"operation-result", "approve-participation"} {
		w, err := world.NewWorld(world.Options{N: 2, T: 2, Seed: c.Seed*149 + uint64(len(kind))})
		if err != nil {
			c.Inconclusive("world: %v", err)
			return
		}
		v := w.Nodes[1]
		if _, err := w.StartDKG(0, 2, now()); err != nil {
			w.Close()
			return
		}
		var call func() error
		var want int
		if kind == "approve-participation" {
			_, _ = v.PollStep(0)
			ops := w.PendingOps(v)
			if len(ops) != 1 {
				w.Close()
				continue
			}
			id := ops[0].ID
			call = func() error { return v.Svc.ApproveParticipation(&dto.OperationIdDTO{OperationID: id}) }
			want = 1
		} else {
			w.OpFilter = func(n *world.Node, op *types.Operation) bool { return !(n.Idx == 1 && string(op.Type) == OpCommits) }
			w.Run(world.EagerPolicy, 2000)
			w.OpFilter = nil
			var pend *types.Operation
			for _, o := range w.PendingOps(v) {
				if string(o.Type) == OpCommits {
					pend = o
				}
			}
			if pend == nil {
				w.Close()
				continue
			}
			res, err := w.ColdResult(v, pend, false)
			if err != nil {
				w.Close()
				continue
			}
			call = func() error { return v.Svc.ProcessOperation(world.OpToDTO(cloneOp(res))) }
			want = len(res.ResultMsgs)
		}
		snap := v.Mem.Snapshot()
		board := w.Board.Len()
		// count points of one call
		pts := 0
		v.State.SetGate(func(op, key string, val []byte) string { pts++; return "" })
		v.NB.SetGate(func(op, key string, val []byte) string { pts++; return "" })
		_ = call()
		v.State.SetGate(nil)
		v.NB.SetGate(nil)
		seen := map[string]bool{}
		try := func(plan []int) {
			v.Mem.Restore(snap)
			w.Board.Truncate(board)
			b := sched.NewBaton(0, plan)
			gate := func(op, key string, val []byte) string { b.Point(); return "" }
			v.State.SetGate(gate)
			v.NB.SetGate(gate)
			var errs [2]error
			var wg sync.WaitGroup
			for id := 0; id < 2; id++ {
				wg.Add(1)
				go func(id int) {
					defer wg.Done()
					b.Enter(id)
					defer b.Exit(id)
					defer func() {
						if r := recover(); r != nil {
							errs[id] = fmt.Errorf("PANIC %v", r)
						}
					}()
					errs[id] = call()
				}(id)
			}
			done := make(chan struct{})
			go func() { wg.Wait(); close(done) }()
			select {
			case <-done:
			case <-time.After(20 * time.Second):
				b.Stop()
				c.Inconclusive("concurrent duplicate submissions: schedule %v hung", plan)
				return
			}
			b.Stop()
			v.State.SetGate(nil)
			v.NB.SetGate(nil)
			c.Eval(1)
			if seen[string(b.Trace)] {
				return
			}
			seen[string(b.Trace)] = true
			c.Distinct("concurrent-duplicates|" + kind + "|" + string(b.Trace))
			posted := w.Board.Len() - board
			okCalls := 0
			for _, e := range errs {
				if e == nil {
					okCalls++
				}
			}
			if posted != want || okCalls != 1 {
				c.Violate("C15/operation-answered-twice-by-concurrent-submissions:"+kind, fmt.Sprintf("two identical %s submissions at the same time: %d call(s) accepted, %d message(s) posted (the result carries %d)", kind, okCalls, posted, want), map[string]interface{}{"kind": kind, "plan": plan, "grant_trace": string(b.Trace), "errors": fmt.Sprint(errs)})
			}
		}
		for s1 := 0; s1 <= pts; s1++ {
			try([]int{s1})
			for s2 := 1; s2 <= pts; s2 += 1 + pts/8 {
				try([]int{s1, s2})
			}
		}
		c.Add("concurrent_duplicate_interleavings", len(seen))
		w.Close()
	}
}

func runC15(c *Ctx, wi int, seed uint64) {
	n, t := 2+wi%2, 2
	// worlds 2,3 mod 4: the operator uses the REST API for everything it does
	// worlds 7 mod 8: through the dc4bc_cli binary (one child process per command) in front of the REST API
	w, err := world.NewWorld(world.Options{N: n, T: t, Seed: seed, ViaHTTP: wi%4 >= 2, ViaCLI: wi%8 == 7})
	if err != nil {
		c.Inconclusive("world: %v", err)
		return
	}
	defer w.Close()
	ce := &Ceremony{W: w, N: n, T: t}
	r := sched.Derive(seed, 15)
	wit := map[string]interface{}{"world": wi, "n": n, "case_seed": seed}
	mkOperator := func(w *world.World, retired map[int][]*types.Operation) func(nd *world.Node, op *types.Operation) {
		return func(nd *world.Node, op *types.Operation) {
			if string(op.Type) == OpConfirm {
				// approval path: a wrong id first
				bad := cloneOp(op)
				bad.ID = strings.Repeat("0", 32)
				submitAndJudge(c, w, nd, c15Sub{Label: "approve-participation:unknown-id", Op: bad, Expect: "reject"}, wit)
				c.Distinct("approve|unknown-id")
				// the board is unreachable at the first attempt: nothing posted, nothing changed, still pending
				nd.NB.FailSend = fmt.Errorf("board unreachable (injected)")
				submitAndJudge(c, w, nd, c15Sub{Label: "approve-participation:board-unreachable", Op: op, Expect: "reject"}, wit)
				nd.NB.FailSend = nil
				c.Distinct("approve|board-unreachable")
				if pend := w.PendingOps(nd); true {
					found := false
					for _, o := range pend {
						if o.ID == op.ID {
							found = true
							if o.Event != "" || len(o.ResultMsgs) != 0 {
								c.Violate("C15/pending-operation-altered-by-a-failed-approval", fmt.Sprintf("after a failed approval the node offers the invitation with event %q and %d result message(s): not the request it issued", o.Event, len(o.ResultMsgs)), wit)
							}
						}
					}
					if !found {
						c.Violate("C15/operation-lost-by-a-failed-approval", "the invitation is no longer pending after an approval that failed at the board", wit)
					}
				}
				submitAndJudge(c, w, nd, c15Sub{Label: "approve-participation", Op: op, Expect: "accept"}, wit)
				c.Distinct("approve|genuine")
				again := submitAndJudge(c, w, nd, c15Sub{Label: "approve-participation:again", Op: op, Expect: "reject"}, wit)
				_ = again
				c.Distinct("approve|again")
				return
			}
			res, err := w.ColdResult(nd, op, false)
			if err != nil {
				c.Inconclusive("machine: %v", err)
				return
			}
			ty := string(op.Type)
			var subs []c15Sub
			mut := func(label string, f func(o *types.Operation)) {
				o := cloneOp(res)
				f(o)
				subs = append(subs, c15Sub{Label: label, Op: o, Expect: "reject"})
			}
			mut("id:unknown", func(o *types.Operation) { o.ID = strings.Repeat("a", 32) })
			mut("id:empty", func(o *types.Operation) { o.ID = "" })
			// the pending operation's identifier in another spelling (an operator's client that upper-cases
			// hex, a pasted id with a blank): it is not the identifier the node issued
			mut("id:upper-cased", func(o *types.Operation) { o.ID = strings.ToUpper(o.ID) })
			mut("id:trailing-blank", func(o *types.Operation) { o.ID = o.ID + " " })
			mut("id:leading-blank", func(o *types.Operation) { o.ID = " " + o.ID })
			if len(retired[nd.Idx]) > 0 {
				old := retired[nd.Idx][r.Intn(len(retired[nd.Idx]))]
				subs = append(subs, c15Sub{Label: "id:retired-operation-resubmitted", Op: cloneOp(old), Expect: "reject"})
				mut("id:retired-id-with-this-result", func(o *types.Operation) { o.ID = old.ID })
			}
			mut("type:changed", func(o *types.Operation) { o.Type = types.OperationType(OpDeals + "x") })
			mut("type:other-step", func(o *types.Operation) {
				if ty == OpCommits {
					o.Type = types.OperationType(OpDeals)
				} else {
					o.Type = types.OperationType(OpCommits)
				}
			})
			mut("payload:byte-flipped", func(o *types.Operation) {
				if len(o.Payload) > 0 {
					o.Payload[r.Intn(len(o.Payload))] ^= 1
				}
			})
			mut("payload:truncated", func(o *types.Operation) {
				if len(o.Payload) > 0 {
					o.Payload = o.Payload[:len(o.Payload)-1]
				}
			})
			mut("payload:empty", func(o *types.Operation) { o.Payload = nil })
			mut("event:empty(request-only)", func(o *types.Operation) { o.Event = ""; o.ResultMsgs = nil })
			// a result produced for another node's operation
			other := w.Nodes[(nd.Idx+1)%n]
			for _, oo := range w.PendingOps(other) {
				if oo.ID != op.ID {
					// (built by hand: running the other machine here would disturb its ceremony)
					ores := cloneOp(oo)
					ores.Event = res.Event
					ores.ResultMsgs = []storage.Message{{Event: string(res.Event), Data: []byte(`{"ParticipantId":0}`), DkgRoundID: oo.DKGIdentifier}}
					subs = append(subs, c15Sub{Label: "foreign:result-of-another-nodes-operation", Op: ores, Expect: "reject"})
					break
				}
			}
			if nd.API != nil {
				// files that leave keys out altogether (right after submissions that carried them)
				for _, om := range [][]string{{"Event", "ResultMsgs"}, {"Event"}, {"Type"}, {"Payload"}, {"ID"}, {"DKGIdentifier"}, {"Event", "ResultMsgs", "To", "ExtraData", "CreatedAt"}} {
					subs = append(subs, c15Sub{Label: "keys-omitted:" + strings.Join(om, "+"), Op: cloneOp(res), Expect: "reject", Omit: om})
				}
			}
			for _, s := range subs {
				submitAndJudge(c, w, nd, s, wit)
				c.Distinct(ty + "|" + s.Label)
			}
			// the board refuses one message of the result (too large for it, or an outage that begins in the
			// middle of the result): the submission fails as a whole - nothing of the result is on the board, the
			// operation is still pending - and the genuine submission below must then post everything once
			if nm := len(res.ResultMsgs); nm > 0 {
				ks := []int{nm - 1}
				if nm > 2 {
					ks = append(ks, 1)
				}
				if nm > 1 && r.Intn(2) == 0 {
					ks = append(ks, 0)
				}
				for _, k := range ks {
					target := res.ResultMsgs[k]
					nd.NB.FailSendIf = func(msgs []storage.Message) error {
						for _, m := range msgs {
							if m.RecipientAddr == target.RecipientAddr && m.Event == target.Event && string(m.Data) == string(target.Data) {
								return fmt.Errorf("board: message refused (injected)")
							}
						}
						return nil
					}
					lbl := "board-refuses-one-message-of-the-result"
					if nm > 1 {
						lbl = fmt.Sprintf("board-refuses-message-%d-of-%d", k+1, nm)
						if nm > 3 {
							lbl = "board-refuses-a-later-message-of-many"
						}
					}
					submitAndJudge(c, w, nd, c15Sub{Label: lbl, Op: cloneOp(res), Expect: "reject"}, wit)
					nd.NB.FailSendIf = nil
					c.Distinct(ty + "|" + lbl)
					c.Add("submissions_with_the_board_refusing_one_message", 1)
				}
			}
			// unchecked fields may change (the node cannot know better); still exactly-once
			genuine := cloneOp(res)
			label := "genuine"
			if r.Intn(3) == 0 && len(genuine.ResultMsgs) > 0 {
				// the same result, but its messages arrive already attributed to and signed by another participant
				// (copied from somewhere): whatever the node posts must still be its own - sender and signature
				other := w.Nodes[(nd.Idx+1)%n]
				for i := range genuine.ResultMsgs {
					genuine.ResultMsgs[i].SenderAddr = other.Name
					genuine.ResultMsgs[i].Signature = ed25519.Sign(other.KeyPair.Priv, genuine.ResultMsgs[i].Data)
				}
				label = "genuine:messages-pre-signed-by-another-participant"
			} else if r.Intn(3) == 0 && len(genuine.ResultMsgs) > 0 {
				// fields of the returned operation the node does not bind (round field, recipient, creation time)
				// differ from what it issued: what is posted is still exactly the messages inside the result
				genuine.DKGIdentifier = strings.Repeat("b", 64)
				genuine.To = "somebody else"
				genuine.CreatedAt = genuine.CreatedAt.Add(-365 * 24 * time.Hour)
				label = "genuine:unbound-operation-fields-altered"
			}
			if submitAndJudge(c, w, nd, c15Sub{Label: label, Op: genuine, Expect: "accept"}, wit) {
				retired[nd.Idx] = append(retired[nd.Idx], genuine)
			}
			c.Distinct(ty + "|" + label)
			submitAndJudge(c, w, nd, c15Sub{Label: "genuine:second-identical-submission", Op: cloneOp(res), Expect: "reject"}, wit)
			c.Distinct(ty + "|again")
		}
	}
	retired := map[int][]*types.Operation{} // per node: accepted results (for re-submission later)
	operator := mkOperator(w, retired)
	driveWorld := func(w *world.World, operator func(nd *world.Node, op *types.Operation)) bool {
		for step := 0; step < 3000; step++ {
			acts := w.Enabled()
			if len(acts) == 0 {
				return true
			}
			a := acts[r.Intn(len(acts))]
			if a.Kind == "poll" {
				_ = w.Do(a, 0)
				continue
			}
			operator(w.Nodes[a.Node], a.Op)
		}
		return false
	}
	drive := func() bool {
		for step := 0; step < 3000; step++ {
			acts := w.Enabled()
			if len(acts) == 0 {
				return true
			}
			a := acts[r.Intn(len(acts))]
			if a.Kind == "poll" {
				_ = w.Do(a, 0)
				continue
			}
			operator(w.Nodes[a.Node], a.Op)
		}
		return false
	}
	ce.Round, err = w.StartDKG(0, t, now())
	if err != nil || !drive() || !ce.AllIn(StIdle) {
		c.Inconclusive("world %d: key generation did not finish: %v %v", wi, err, ce.States())
		return
	}
	for b := 0; b < 2; b++ {
		if err := w.ProposeSign(b%n, ce.Round, map[string][]byte{fmt.Sprintf("f%d", b): r.Bytes(12)}, nil); err != nil || !drive() {
			c.Inconclusive("world %d: signing did not finish", wi)
			return
		}
	}
	if wi == 0 {
		c.Sample(map[string]interface{}{"world": wi, "n": n, "board_len": w.Board.Len(), "retired_operations_node0": len(retired[0])})
	}
	// anyone may deliver a genuine proposal again (C10's open finding); the operations it re-derives are
	// the retired ones: their old results must still be refused, nothing may be posted
	for _, m := range BoardMsgs(w, ce.Round, EvSigningStart) {
		_ = w.Board.Send(m)
	}
	for _, nd := range w.Nodes {
		for int(nd.Offset()) < w.Board.Len() {
			if _, err := nd.PollStep(0); err != nil {
				break
			}
		}
	}
	for _, nd := range w.Nodes {
		for _, old := range retired[nd.Idx] {
			if string(old.Type) != OpSigning {
				continue
			}
			submitAndJudge(c, w, nd, c15Sub{Label: "id:retired-operation-resubmitted-after-proposal-replay", Op: cloneOp(old), Expect: "reject"}, wit)
			c.Distinct(string(old.Type) + "|retired-after-replay")
		}
	}
	// a reinitialisation of the round on fresh nodes: the finish request (operation_processed_successfully,
	// no board messages) goes through the same adversarial operator
	if wi%2 == 0 {
		var names []string
		for _, nd := range w.Nodes {
			names = append(names, nd.Name)
		}
		w2, err := world.NewWorld(world.Options{N: n, T: t, Seed: seed, CommSeed: seed + 31, Names: names})
		if err != nil {
			return
		}
		defer w2.Close()
		keys := map[string][]byte{}
		for _, nd := range w2.Nodes {
			keys[nd.Name] = nd.KeyPair.Pub
		}
		msgs, _ := w.Board.GetMessages(0)
		re, err := types.GenerateReDKGMessage(msgs, keys)
		if err != nil {
			return
		}
		bz, _ := json.Marshal(re)
		if err := w2.Nodes[0].Svc.ReInitDKG(&dto.ReInitDKGDTO{ID: re.DKGID, Payload: bz}); err != nil {
			return
		}
		ce2 := &Ceremony{W: w2, N: n, T: t, Round: ce.Round}
		if !driveWorld(w2, mkOperator(w2, map[int][]*types.Operation{})) || !ce2.AllIn(StIdle) {
			c.Inconclusive("world %d: reinitialisation under the adversarial operator did not finish: %v", wi, ce2.States())
			return
		}
		c.Add("reinit_worlds_driven", 1)
	}
}

// c15RoundTrip: operations and results through the real file writers/readers.
func c15RoundTrip(c *Ctx) {
	world.UseOpLog = false
	w, err := world.NewWorld(world.Options{N: 2, T: 2, Seed: c.Seed * 113})
	if err != nil {
		c.Inconclusive("round-trip world: %v", err)
		return
	}
	defer w.Close()
	ce := &Ceremony{W: w, N: 2, T: 2}
	type rec struct {
		node int
		op   types.Operation
	}
	var reqs []rec
	w.ResultHook = func(nd *world.Node, req, res *types.Operation) *types.Operation {
		reqs = append(reqs, rec{nd.Idx, *req})
		// in-memory JSON round trip of request and result
		for _, o := range []*types.Operation{req, res} {
			back, err := world.JSONRoundTrip(o)
			c.Eval(1)
			if err != nil {
				c.Violate("C15/operation-does-not-survive-json", err.Error(), nil)
			} else if d := semanticEqual(o, back); d != "" {
				c.Violate("C15/operation-changed-by-json-round-trip:"+d, string(o.Type), nil)
			}
			c.Distinct("roundtrip|" + string(o.Type) + "|" + string(o.Event))
		}
		return res
	}
	ce.Round, err = w.StartDKG(0, 2, now())
	if err != nil {
		return
	}
	w.Run(world.EagerPolicy, 3000)
	if !ce.AllIn(StIdle) {
		c.Inconclusive("round-trip world: %v", ce.States())
		return
	}
	_, _ = ce.RunBatch(BatchSpec{Proposer: 0, Data: map[string][]byte{"f": []byte("x")}}, world.EagerPolicy)
	w.ResultHook = nil
	// the result file written by the real Machine.ProcessOperation, parsed back by a real reader;
	// then the same operation processed again into the same file (operator retry). Twin machines
	// (same mnemonic, fresh database) are fed the recorded operations in order.
	twins := map[int]*world.Node{}
	defer func() {
		for _, tn := range twins {
			tn.CloseHandles()
		}
	}()
	for _, rc := range reqs {
		tn, ok := twins[rc.node]
		if !ok {
			dir := filepath.Join(w.Dir, fmt.Sprintf("twin_%d", rc.node), "db")
			_ = os.MkdirAll(filepath.Dir(dir), 0o755)
			tm, err := world.OpenCold(dir, w.Nodes[rc.node].Mnemonic, world.Password)
			if err != nil {
				c.Inconclusive("twin: %v", err)
				return
			}
			tn = &world.Node{Idx: rc.node, Cold: tm, ColdDir: dir}
			twins[rc.node] = tn
		}
		dir := filepath.Join(w.Dir, fmt.Sprintf("results_%d", rc.node))
		_ = os.MkdirAll(dir, 0o755)
		tn.Cold.SetResultFolder(dir)
		for attempt := 1; attempt <= 2; attempt++ {
			path, err := tn.Cold.ProcessOperation(rc.op, false)
			c.Eval(1)
			c.Distinct(fmt.Sprintf("file|%s|attempt%d", rc.op.Type, attempt))
			if err != nil {
				c.Note("ProcessOperation(%s) attempt %d: %v", rc.op.Type, attempt, err)
				continue
			}
			bz, _ := os.ReadFile(path)
			var back types.Operation
			if err := json.Unmarshal(bz, &back); err != nil {
				key := "C15/result-file-unparsable"
				if attempt == 2 {
					key = "C15/result-file-unparsable-after-reprocessing-the-same-operation"
				}
				c.Violate(key, fmt.Sprintf("%s, attempt %d: %v (file %d bytes)", rc.op.Type, attempt, err, len(bz)), map[string]interface{}{"operation_type": string(rc.op.Type), "attempt": attempt, "file_tail": trunc(tail(string(bz), 120), 120)})
				continue
			}
			if back.ID != rc.op.ID || back.Type != rc.op.Type || !bytes.Equal(back.Payload, rc.op.Payload) || back.Event == "" {
				c.Violate("C15/result-file-does-not-carry-the-request-back", string(rc.op.Type), nil)
			}
			c.Add("result_files_parsed", 1)
		}
	}
	var _ = storage.Message{}
}

// c15AfterReset: an operation the operator has already exported (looked up by id) whose round is then
// dropped by a state reset (refresh_state with an ignore list naming the round's opening message) is not
// pending any more: the replay does not create it again. The late result for it - the operator comes back
// from the machine after the reset - must be refused like any other result for an operation that is not
// in the pool.
func c15AfterReset(c *Ctx) {
	for rep := 0; rep < c.Pick(6, 24); rep++ {
		func() {
			seed := c.Seed*131 + uint64(rep)
			w, err := world.NewWorld(world.Options{N: 2, T: 2, Seed: seed})
			if err != nil {
				c.Inconclusive("after-reset world: %v", err)
				return
			}
			defer w.Close()
			v := w.Nodes[1]
			if _, err := w.StartDKG(0, 2, now()); err != nil {
				c.Inconclusive("after-reset world: %v", err)
				return
			}
			// drive the round until v's (rep%3+1)-th machine operation is pending
			skip := rep % 3
			var op *types.Operation
			for step := 0; step < 60 && op == nil; step++ {
				for _, nd := range w.Nodes {
					_, _ = nd.PollStep(0)
				}
				for _, nd := range w.Nodes {
					for _, o := range w.PendingOps(nd) {
						if nd == v && string(o.Type) != OpConfirm {
							if skip == 0 {
								op = o
								break
							}
							skip--
						}
						_ = w.HandleOp(nd, o)
					}
				}
			}
			if op == nil {
				c.Inconclusive("after-reset world: no machine operation became pending")
				return
			}
			wit := map[string]interface{}{"scenario": "result submitted after a state reset that dropped the round", "case_seed": seed, "operation_type": string(op.Type)}
			api := viaREST(v)
			// the operator exports the request (dc4bc_cli get_operation), once or twice
			for k := 0; k <= rep%2; k++ {
				if _, err := api.Operation(op.ID); err != nil {
					c.Inconclusive("after-reset world: lookup: %v", err)
					return
				}
			}
			res, err := w.ColdResult(v, op, false)
			if err != nil {
				c.Inconclusive("after-reset world: machine: %v", err)
				return
			}
			first := w.Board.All()[0]
			form := map[string]interface{}{"new_state_dbdsn": "fresh", "use_offset": rep%2 == 0, "messages": []string{"0"}}
			if rep%2 == 1 {
				form["messages"] = []string{first.ID}
			}
			if _, err := api.Raw("POST", "/resetState", nil, mkReq(form)); err != nil {
				c.Inconclusive("after-reset world: reset: %v", err)
				return
			}
			for k := 0; k < 4; k++ {
				_, _ = v.PollStep(0)
			}
			for _, o := range w.PendingOps(v) {
				if o.ID == op.ID {
					c.Note("after-reset world: the replay created the operation again (not judged)")
					return
				}
			}
			c.Add("results_submitted_after_a_reset_that_dropped_the_round", 1)
			c.Distinct(fmt.Sprintf("after-reset|%s|by-offset=%v|lookups=%d", op.Type, rep%2 == 0, rep%2+1))
			if api2 := v.API; api2 == nil {
				v.API = api // the same channel for the submission
				defer func() { v.API = nil }()
			}
			submitAndJudge(c, w, v, c15Sub{Label: "late-result-after-reset:" + string(op.Type), Op: res, Expect: "reject"}, wit)
		}()
	}
}
