package props

import (
	"bufio"
	"bytes"
	"crypto/ed25519"
	"encoding/json"
	"fmt"
	"net/url"
	"os"
	"os/exec"
	"path/filepath"
	"runtime/debug"
	"strings"
	"sync"
	"time"

	"github.com/lidofinance/dc4bc/client/types"
	"github.com/lidofinance/dc4bc/storage"

	"verifharness/oracle"
	"verifharness/sched"
	"verifharness/world"
)

// C18: no input can crash a node or the airgapped machine; rejected input is a no-op.
func init() {
	Register("C18", "exploration", checkC18)
	Workers["c18"] = c18Worker
}

type c18Finding struct {
	Key     string                 `json:"key"`
	What    string                 `json:"what"`
	Witness map[string]interface{} `json:"witness"`
}

type c18Report struct {
	Part     string       `json:"part"`
	Cases    int          `json:"cases"`
	Distinct []string     `json:"distinct"`
	Findings []c18Finding `json:"findings"`
	Notes    []string     `json:"notes"`
	Sample   interface{}  `json:"sample,omitempty"`
	Done     bool         `json:"done"`
}

// topRepoFrame extracts the innermost repository function from a panic stack (finding-key class).
func topRepoFrame(stack string) string {
	for _, l := range strings.Split(stack, "\n") {
		if strings.HasPrefix(l, "github.com/lidofinance/dc4bc/") || strings.HasPrefix(l, "github.com/corestario/kyber") {
			fn := l
			if i := strings.LastIndex(fn, "("); i > 0 {
				fn = fn[:i]
			}
			fn = strings.TrimPrefix(fn, "github.com/lidofinance/dc4bc/")
			return fn
		}
	}
	return "?"
}

type caseLog struct {
	f *os.File
	n int
}

func (l *caseLog) begin(label string) {
	l.n++
	if l.f != nil {
		fmt.Fprintf(l.f, "%d %s\n", l.n, label)
	}
}

func resign(m storage.Message, w *world.World) storage.Message {
	for _, n := range w.Nodes {
		if n.Name == m.SenderAddr {
			m.Signature = ed25519.Sign(n.KeyPair.Priv, m.Bytes())
		}
	}
	return m
}

// classifyDiff names what a rejected input changed.
func classifyDiff(before, after map[string][]byte, diff []string) string {
	if len(diff) == 1 && diff[0] == world.Topic+"_fsm_state" {
		var a, b map[string][]byte
		_ = json.Unmarshal(before[diff[0]], &a)
		_ = json.Unmarshal(after[diff[0]], &b)
		changedExisting := false
		for r, v := range a {
			if string(b[r]) != string(v) {
				changedExisting = true
			}
		}
		onlyIdle := true
		for r, v := range b {
			if _, ok := a[r]; !ok {
				var d struct{ State string }
				_ = json.Unmarshal(v, &d)
				if d.State != "__idle" {
					onlyIdle = false
				}
			}
		}
		if !changedExisting && onlyIdle {
			return "idle-entry-created-for-unknown-round"
		}
		if changedExisting {
			return "existing-round-changed"
		}
		return "new-round-entry"
	}
	var ks []string
	for _, k := range diff {
		ks = append(ks, hexRe.ReplaceAllString(strings.TrimPrefix(k, world.Topic+"_"), "<id>"))
	}
	return strings.Join(ks, "+")
}

// c18Messages attacks every (genuine message, consuming node) pair of a reference world.
func c18Messages(kind string, seed uint64, budget int, lg *caseLog) c18Report {
	rep := c18Report{Part: "messages:" + kind}
	n, t := 3, 2
	if kind == "cancelled" {
		n = 2
	}
	rw, err := buildRefWorld(kind, seed, n, t)
	if err != nil {
		rep.Notes = append(rep.Notes, "reference world: "+err.Error())
		return rep
	}
	defer rw.Close()
	w := rw.Ce.W
	all := w.Board.All()
	r := sched.Derive(seed, 18)
	distinct := map[string]bool{}
	seenFinding := map[string]bool{}
	report := func(key, what string, wit map[string]interface{}) {
		if !seenFinding[key] {
			seenFinding[key] = true
			rep.Findings = append(rep.Findings, c18Finding{key, what, wit})
		}
	}
	done := map[string]bool{}
	for _, m := range rw.Rec.Moments {
		for v, nd := range w.Nodes {
			g := NextFor(all, m, v, nd.Name)
			if g == nil {
				continue
			}
			pk := fmt.Sprintf("%d@%d", g.Offset, v)
			if done[pk] {
				continue
			}
			done[pk] = true
			nd.Mem.Restore(m.Snaps[v])
			stateName := NodeState(nd, g.DkgRoundID)
			var muts []mutant
			second := 0
			if budget > 1000 {
				second = 40 // thorough: second-order mutants
			}
			for _, jm := range mutateJSONDeep(g.Data, r, budget, second) {
				mm := *g
				mm.Data = jm.Data
				muts = append(muts, mutant{"data:" + jm.Label, resign(mm, w)})
			}
			// signing proposals: hostile baked ranges (two fields must cooperate, so they are crafted, not derived)
			if g.Event == EvSigningStart {
				for _, mm := range hostileRangeProposals(*g, w) {
					muts = append(muts, mm)
				}
			}
			// envelope
			for _, ev := range []string{"", "bogus_event", strings.Repeat("e", 5000), "__idle", "event_dkg_init_process", "event_signing_init", "event_signing_restart"} {
				mm := *g
				mm.Event = ev
				muts = append(muts, mutant{"event:" + trunc(ev, 20), mm})
			}
			// every protocol event name, in every state, with the genuine payload and with a well-formed
			// payload of that event's own type (a valid message that merely arrives at the wrong time)
			for _, ev := range allEvents {
				if ev == g.Event {
					continue
				}
				mm := *g
				mm.Event = ev
				muts = append(muts, mutant{"event-name:" + ev, mm})
				if canon := canonicalPayload(ev, w, g); canon != nil {
					mc := *g
					mc.Event = ev
					mc.Data = canon
					muts = append(muts, mutant{"event-name+own-payload:" + ev, resign(mc, w)})
				}
			}
			for _, rid := range []string{"", "x", "abcd", strings.Repeat("f", 64), strings.Repeat("r", 3000), " "} {
				mm := *g
				mm.DkgRoundID = rid
				muts = append(muts, mutant{"round:" + trunc(rid, 8), mm})
			}
			{
				mm := *g
				mm.Offset = 1<<63 + 5
				mm.RecipientAddr = "nobody"
				muts = append(muts, mutant{"envelope:offset+recipient", mm})
			}
			// unauthenticated openers carrying the mutated payload
			if g.Event == EvInit {
				for _, rid := range []string{g.DkgRoundID, strings.Repeat("a", 64)} {
					for _, jm := range mutateJSON(g.Data, r, budget) {
						mm := storage.Message{ID: "x", DkgRoundID: rid, Event: EvInit, Data: jm.Data, SenderAddr: "anyone", Signature: []byte{1}}
						muts = append(muts, mutant{"opener:" + jm.Label, mm})
					}
				}
			}
			// genuine messages the node has already consumed, delivered again unchanged
			off := offsetOf(m.Snaps[v])
			for j := 0; j < off && j < len(all); j++ {
				pm := all[j]
				if pm.RecipientAddr != "" && pm.RecipientAddr != nd.Name {
					continue
				}
				if j >= off-3 || pm.Event == EvInit || pm.Event == EvSigningStart || pm.Event == EvReinit {
					muts = append(muts, mutant{"replay-consumed:" + pm.Event, pm})
				}
			}
			for _, mu := range muts {
				lg.begin(fmt.Sprintf("%s off=%d node=%s %s", kind, g.Offset, nd.Name, mu.Label))
				rep.Cases++
				nd.Mem.Restore(m.Snaps[v])
				before := m.Snaps[v]
				var pan interface{}
				var stack string
				var err error
				func() {
					defer func() {
						if x := recover(); x != nil {
							pan = x
							stack = string(debug.Stack())
						}
					}()
					err = nd.Svc.ProcessMessage(mu.Msg)
				}()
				after := nd.Mem.Snapshot()
				w.Board.Truncate(len(all))
				cls := mu.Label
				if i := strings.Index(cls, ":"); i > 0 {
					if j := strings.Index(cls[i+1:], ":"); j > 0 {
						cls = cls[:i+1+j]
					}
				}
				distinct[fmt.Sprintf("%s|%s|%s|%s", kind, g.Event, stateName, cls)] = true
				wit := map[string]interface{}{"world": kind, "genuine_offset": g.Offset, "event": g.Event, "node": nd.Name, "state": stateName, "mutation": mu.Label, "data": trunc(string(mu.Msg.Data), 400), "msg_event": trunc(mu.Msg.Event, 40), "msg_round": trunc(mu.Msg.DkgRoundID, 70)}
				if pan != nil {
					wit["stack"] = trunc(stack, 1800)
					report("C18/panic-in-ProcessMessage:"+topRepoFrame(stack), fmt.Sprintf("ProcessMessage panicked on %s of a %s: %v", mu.Label, g.Event, pan), wit)
					continue
				}
				// an ACCEPTED mutant may have stored data that only hurts later: the genuine messages that follow in
				// the reference log are delivered on top of it, and the rounds are listed
				if err == nil && (strings.HasPrefix(mu.Label, "data:") || strings.HasPrefix(mu.Label, "opener:")) && len(world.DiffMaps(before, after, world.Topic+"_offset")) > 0 {
					rep.Cases++
					lg.begin(fmt.Sprintf("%s off=%d node=%s %s then the following genuine messages", kind, g.Offset, nd.Name, mu.Label))
					var pan3 interface{}
					var stack3, at string
					func() {
						defer func() {
							if x := recover(); x != nil {
								pan3 = x
								stack3 = string(debug.Stack())
							}
						}()
						fed := 0
						for j := int(g.Offset) + 1; j < len(all) && fed < 10; j++ {
							fm := all[j]
							if fm.RecipientAddr != "" && fm.RecipientAddr != nd.Name {
								continue
							}
							fed++
							at = fmt.Sprintf("genuine message %d (%s)", fm.Offset, fm.Event)
							_ = nd.Svc.ProcessMessage(fm)
						}
						at = "listing the rounds"
						_, _ = nd.FSM.GetFSMList()
						if a := apiFor(nd); a != nil {
							at = "GET /getFSMDump"
							_, _ = a.FSMDump(g.DkgRoundID)
							at = "GET /getOperations"
							_, _ = a.Operations()
						}
					}()
					w.Board.Truncate(len(all))
					distinct[fmt.Sprintf("%s|accepted-then-continue|%s|%s", kind, g.Event, cls)] = true
					if pan3 != nil {
						w3 := map[string]interface{}{"world": kind, "node": nd.Name, "accepted_mutant": mu.Label, "mutant_data": trunc(string(mu.Msg.Data), 400), "panicked_at": at, "stack": trunc(stack3, 1800)}
						report("C18/panic-after-accepted-mutant:"+topRepoFrame(stack3), fmt.Sprintf("%s of a %s was accepted by %s; afterwards %s panicked: %v", mu.Label, g.Event, nd.Name, at, pan3), w3)
					}
				}
				// two-message histories: a hostile opening proposal that was ACCEPTED registers whatever it
				// carries (names, keys); the next message naming one of its participants meets that data
				if err == nil && strings.HasPrefix(mu.Label, "opener:") {
					for _, p := range w.Nodes {
						for fi, follow := range []storage.Message{
							world.SignMsg(p, mu.Msg.DkgRoundID, EvConfirm, mkReq(map[string]interface{}{"ParticipantId": p.Idx, "CreatedAt": now()}), ""),
							{DkgRoundID: mu.Msg.DkgRoundID, Event: EvDecline, Data: mkReq(map[string]interface{}{"ParticipantId": p.Idx, "CreatedAt": now()}), SenderAddr: p.Name, Signature: []byte("junk")},
						} {
							lg.begin(fmt.Sprintf("%s off=%d node=%s %s then message %d from %s", kind, g.Offset, nd.Name, mu.Label, fi, p.Name))
							rep.Cases++
							var pan2 interface{}
							var stack2 string
							func() {
								defer func() {
									if x := recover(); x != nil {
										pan2 = x
										stack2 = string(debug.Stack())
									}
								}()
								_ = nd.Svc.ProcessMessage(follow)
							}()
							w.Board.Truncate(len(all))
							if pan2 != nil {
								w2 := map[string]interface{}{"world": kind, "node": nd.Name, "first_message": "unauthenticated opening proposal, " + mu.Label, "first_data": trunc(string(mu.Msg.Data), 400), "second_message": follow.Event + " from " + p.Name, "stack": trunc(stack2, 1800)}
								report("C18/panic-in-ProcessMessage:"+topRepoFrame(stack2), fmt.Sprintf("after the accepted opening proposal %s, a %s naming %s made ProcessMessage panic: %v", mu.Label, follow.Event, p.Name, pan2), w2)
							}
							distinct[fmt.Sprintf("%s|two-step|%s", kind, cls)] = true
						}
					}
				}
				if err != nil {
					if diff := world.DiffMaps(before, after, world.Topic+"_offset"); len(diff) > 0 {
						cls := classifyDiff(before, after, diff)
						if strings.Contains(err.Error(), "already exists") && strings.HasPrefix(mu.Label, "replay-consumed:") {
							cls = "replayed-proposal-whose-operation-is-still-pending"
						}
						report("C18/rejected-message-changed-state:"+cls, fmt.Sprintf("ProcessMessage rejected %s of a %s (%v) but %v changed", mu.Label, g.Event, trunc(err.Error(), 120), diff), wit)
					}
				}
			}
		}
	}
	for k := range distinct {
		rep.Distinct = append(rep.Distinct, k)
	}
	rep.Sample = map[string]interface{}{"world": kind, "pairs": len(done), "cases": rep.Cases}
	rep.Done = true
	return rep
}

func c18Worker(args []string) int {
	// args: part kind seed budget progressfile
	if len(args) < 5 {
		return 2
	}
	var seed uint64
	var budget int
	fmt.Sscan(args[2], &seed)
	fmt.Sscan(args[3], &budget)
	f, _ := os.OpenFile(args[4], os.O_CREATE|os.O_WRONLY|os.O_TRUNC, 0o644)
	lg := &caseLog{f: f}
	var rep c18Report
	switch args[0] {
	case "messages":
		rep = c18Messages(args[1], seed, budget, lg)
	case "machine":
		rep = c18Machine(seed, budget, lg)
	case "api":
		rep = c18API(seed, budget, lg)
	}
	bz, _ := json.Marshal(rep)
	fmt.Fprintln(Out, "REPORT "+string(bz))
	return 0
}

// c18ExploreForPanics: part (D). The C05 exploration (every event of the public alphabet x every participant
// id incl. uninvited ones x payload variants, in every reachable state of a round) run with one oracle
// only: no event may end in a panic. It runs on an ordinary node and on a node started with the daemon's
// --skip_comm_keys_verification flag, where nothing in front of the round's state machine filters
// messages by sender (the same code path the replay of a reinit message's embedded log takes).
func c18ExploreForPanics(c *Ctx) {
	for _, unverified := range []bool{false, true} {
		unverified := unverified
		hooks := dkgHooks{onTransition: func(ex *explorer, s *exState, ev *exEvent, res *exResult, mon monC05) (monC05, bool) {
			c.Eval(1)
			if res.Err != nil && strings.HasPrefix(res.Err.Error(), "PANIC") {
				where := res.Err.Error()
				if i := strings.Index(where, "\n"); i > 0 {
					where = where[:i]
				}
				c.Violate("C18/panic-in-ProcessMessage:explored:"+ev.Kind, fmt.Sprintf("%s in %s (sender verification off: %v): %s", ev.Label, res.Before, unverified, trunc(where, 200)), map[string]interface{}{"part": "explored alphabet", "path": s.Path(), "event": ev.Label, "state": res.Before, "sender_verification_off": unverified})
				return mon, false
			}
			c.Distinct(fmt.Sprintf("explored|%v|%s|%s", unverified, res.Before, ev.Kind))
			return mon, res.Accepted && res.Err == nil
		}}
		if unverified {
			hooks.setup = func(ex *explorer) {
				if sk, ok := ex.Node.Svc.(interface{ SetSkipCommKeysVerification(bool) }); ok {
					sk.SetSkipCommKeysVerification(true)
				}
			}
		}
		st, tr, _ := exploreDKG(c, 2, 2, hooks, 20000)
		c.Add("explored_states_for_panics", st)
		c.Add("explored_transitions_for_panics", tr)
	}
}

func checkC18(c *Ctx) {
	defer c18ExploreForPanics(c)
	c.Rule = "structure-aware mutation (field deletion, null, type confusion, negative/huge integers, empty/oversized/duplicated arrays, invalid/truncated/bit-flipped byte strings, hostile nested JSON inside byte fields, unknown events, short/unknown/huge round ids) of (A) every genuine board message, re-signed with the sender's real key and applied to every consuming node in the exact state in which it consumes the genuine one, plus unauthenticated openers; (B) every genuine operation fed to a replay-built clone of the airgapped machine at that step; (C) the JSON bodies of the local HTTP API served by the real router. Each part runs in a child process that logs the case before executing it; panics are caught with recover(), process death is attributed to the last logged case. Oracles: no panic / no process death; error => byte-identical durable state (node store minus offset; machine database). (D) the C05 exploration of the public alphabet (every event x participant ids incl. uninvited x variants in every reachable state, n=2) with the no-panic oracle, on an ordinary node and on one started with --skip_comm_keys_verification. Machine calls run in a goroutine of their own: parked on a mutex with an unchanged stack for 60 samples = the call never returns (violation). distinct = distinct (part, event or operation type or endpoint, state, mutation class)"
	c.Assumptions = []string{"MemState for the node store in part A and C", "machine clones are built by copying the database and replaying its operation log", "Go native fuzzing was used during development only (not seedable)"}
	exe, _ := os.Executable()
	type job struct{ part, kind string }
	jobs := []job{{"messages", "honest+signing"}, {"messages", "cancelled"}, {"messages", "reinit"}, {"machine", "-"}, {"api", "-"}}
	budget := c.Pick(200, 100000)
	dir, _ := os.MkdirTemp(world.WorkRoot(), "c18-")
	defer os.RemoveAll(dir)
	var mu sync.Mutex
	Parallel(len(jobs), 8, func(i int) {
		jb := jobs[i]
		prog := filepath.Join(dir, fmt.Sprintf("progress-%d", i))
		cmd := exec.Command(exe, "worker", "c18", jb.part, jb.kind, fmt.Sprint(c.Seed*7+uint64(i)), fmt.Sprint(budget), prog)
		var outb bytes.Buffer
		cmd.Stdout = &outb
		var errb bytes.Buffer
		cmd.Stderr = &errb
		done := make(chan error, 1)
		if err := cmd.Start(); err != nil {
			c.Inconclusive("child %v: %v", jb, err)
			return
		}
		go func() { done <- cmd.Wait() }()
		var werr error
		select {
		case werr = <-done:
		case <-time.After(20 * time.Minute):
			_ = cmd.Process.Kill()
			c.Inconclusive("child %v: watchdog expired", jb)
			return
		}
		var rep c18Report
		sc := bufio.NewScanner(&outb)
		sc.Buffer(make([]byte, 1<<20), 1<<28)
		for sc.Scan() {
			if strings.HasPrefix(sc.Text(), "REPORT ") {
				_ = json.Unmarshal([]byte(sc.Text()[7:]), &rep)
			}
		}
		mu.Lock()
		defer mu.Unlock()
		if !rep.Done {
			// the child died: attribute to the last logged case
			last := ""
			if bz, err := os.ReadFile(prog); err == nil {
				lines := strings.Split(strings.TrimSpace(string(bz)), "\n")
				last = lines[len(lines)-1]
			}
			if len(rep.Notes) > 0 && rep.Cases == 0 {
				c.Inconclusive("child %v: %v", jb, rep.Notes)
				return
			}
			c.Violate("C18/process-terminating-fault:"+jb.part, fmt.Sprintf("the %s worker process died (%v) while executing case: %s", jb.part, werr, trunc(last, 200)), map[string]interface{}{"last_case": last, "stderr_tail": trunc(tail(errb.String(), 3000), 3000)})
			return
		}
		c.Eval(rep.Cases)
		for _, d := range rep.Distinct {
			c.Distinct(d)
		}
		for _, f := range rep.Findings {
			c.Violate(f.Key, f.What, f.Witness)
		}
		for _, nte := range rep.Notes {
			c.Note("%s: %s", rep.Part, nte)
		}
		c.Add("cases:"+rep.Part, rep.Cases)
		if rep.Sample != nil {
			c.Sample(rep.Sample)
		}
	})
	c18ResetOnLevelDB(c)
}

// c18ResetOnLevelDB (part C on the real store): POST /resetState with database paths that cannot be
// opened, against a node on LevelDB after a completed key generation. A refused request must leave the
// node as it was: the same offset, operations, rounds and signatures are served afterwards and the next
// board message is applied.
func c18ResetOnLevelDB(c *Ctx) {
	ce, err := NewCeremonyWith(world.Options{N: 2, T: 2, Seed: c.Seed*173 + 1, UseLevelDB: true, ViaHTTP: true}, world.EagerPolicy)
	if err != nil || !ce.AllIn(StIdle) {
		c.Inconclusive("world for the reset part: %v", err)
		return
	}
	defer ce.Close()
	w, nd := ce.W, ce.W.Nodes[1]
	if _, err := ce.RunBatch(BatchSpec{Proposer: 0, Data: map[string][]byte{"f": []byte("x")}}, world.EagerPolicy); err != nil {
		c.Inconclusive("batch before the reset part: %v", err)
		return
	}
	view := func() (string, error) {
		var parts []string
		off, err := nd.API.Offset()
		if err != nil {
			return "", fmt.Errorf("/getOffset: %w", err)
		}
		parts = append(parts, fmt.Sprint("offset=", off))
		ops, err := nd.API.Operations()
		if err != nil {
			return "", fmt.Errorf("/getOperations: %w", err)
		}
		parts = append(parts, fmt.Sprint("ops=", len(ops)))
		lst, err := nd.API.FSMList()
		if err != nil {
			return "", fmt.Errorf("/getFSMList: %w", err)
		}
		parts = append(parts, "rounds="+canonDump(string(lst)))
		sg, err := nd.API.Raw("GET", "/getSignatures", url.Values{"dkgID": {ce.Round}}, nil)
		if err != nil {
			return "", fmt.Errorf("/getSignatures: %w", err)
		}
		parts = append(parts, "sigs="+oracle.Hash(canonDump(string(sg))))
		return strings.Join(parts, " "), nil
	}
	blocker := filepath.Join(w.Dir, "a-regular-file")
	_ = os.WriteFile(blocker, []byte("x"), 0o600)
	dsns := []string{"/dev/null/x", filepath.Join(blocker, "below-a-file"), "/proc/version/db", "bad\x00path", filepath.Join(w.Dir, strings.Repeat("a", 300)), "/proc/1/does-not-exist/x"}
	for _, dsn := range dsns {
		before, err := view()
		if err != nil {
			c.Inconclusive("reset part: node unreadable before the request: %v", err)
			return
		}
		_, rerr := nd.API.Raw("POST", "/resetState", nil, mkReq(map[string]interface{}{"new_state_dbdsn": dsn}))
		c.Eval(1)
		c.Distinct(fmt.Sprintf("api|/resetState|leveldb|%q", trunc(dsn, 24)))
		c.Add("cases:reset-on-leveldb", 1)
		wit := map[string]interface{}{"endpoint": "/resetState", "new_state_dbdsn": trunc(dsn, 80), "answer": fmt.Sprint(rerr)}
		if rerr == nil {
			c.Note("reset to %q was accepted (not judged)", trunc(dsn, 40))
			return // the node now runs on another store; nothing further to compare
		}
		var after string
		if hung, stk := runOrHang(func() { after, err = view() }); hung {
			wit["stack"] = trunc(stk, 1500)
			c.Violate("C18/refused-request-left-the-node-unusable:/resetState", fmt.Sprintf("after the refused reset to %q the node's API never answers again: the request is parked on a mutex for good", trunc(dsn, 40)), wit)
			return
		}
		if err != nil {
			c.Violate("C18/refused-request-left-the-node-unusable:/resetState", fmt.Sprintf("after the refused reset to %q the node answers: %v", trunc(dsn, 40), err), wit)
			return
		}
		if after != before {
			c.Violate("C18/rejected-request-changed-state:/resetState", fmt.Sprintf("before: %s; after: %s", before, after), wit)
		}
	}
	// the node still applies the next board message
	if err := w.ProposeSign(0, ce.Round, map[string][]byte{"after": []byte("reset attempts")}, nil); err != nil {
		c.Inconclusive("proposal after the reset attempts: %v", err)
		return
	}
	if _, err := nd.PollStep(0); err != nil {
		c.Violate("C18/refused-request-left-the-node-unusable:/resetState", fmt.Sprintf("poll after the refused resets: %v", err), nil)
	} else if st := NodeState(nd, ce.Round); st != StAwaitPartials {
		c.Violate("C18/refused-request-left-the-node-unusable:/resetState", fmt.Sprintf("the next proposal was not applied (state %s)", st), nil)
	}
}

func tail(s string, n int) string {
	if len(s) > n {
		return s[len(s)-n:]
	}
	return s
}

var _ = types.Operation{}

var hostileRanges = [][2]int{{1 << 40, 1 << 62}, {-5, 3}, {-1 << 62, 1 << 62}, {18600, 1 << 40}, {18631, 18640}, {5, 2}, {1<<62 - 1, 1 << 62}, {-3, -1}, {18632, 18632}, {0, 0}}

// hostileRangeProposals rewrites a genuine signing proposal into ones carrying hostile baked ranges,
// re-signed with the proposer's key.
func hostileRangeProposals(g storage.Message, w *world.World) []mutant {
	var out []mutant
	var req map[string]interface{}
	if json.Unmarshal(g.Data, &req) != nil {
		return nil
	}
	for _, rg := range hostileRanges {
		for _, shape := range []string{"range-only", "payload-then-range"} {
			tasks := []interface{}{map[string]interface{}{"MessageID": "r", "RangeStart": rg[0], "RangeEnd": rg[1]}}
			if shape == "payload-then-range" {
				tasks = append([]interface{}{map[string]interface{}{"MessageID": "p", "Payload": []byte("x")}}, tasks...)
			}
			req["SigningTasks"] = tasks
			req["BatchID"] = fmt.Sprintf("hostile-%d-%d-%s", rg[0], rg[1], shape)
			mm := g
			mm.Data, _ = json.Marshal(req)
			out = append(out, mutant{fmt.Sprintf("data:hostile-range:%s[%d,%d)", shape, rg[0], rg[1]), resign(mm, w)})
		}
	}
	return out
}

// canonicalPayload is a well-formed payload of ev's request type, naming the genuine sender as participant.
func canonicalPayload(ev string, w *world.World, g *storage.Message) []byte {
	p := 0
	for _, nd := range w.Nodes {
		if nd.Name == g.SenderAddr {
			p = nd.Idx
		}
	}
	t := now()
	switch ev {
	case EvConfirm, EvDecline:
		return mkReq(map[string]interface{}{"ParticipantId": p, "CreatedAt": t})
	case EvCommitErr, EvDealErr, EvResponseErr, EvMasterKeyErr, EvPartialErr, "signature_reconstruction_failed":
		return mkReq(map[string]interface{}{"ParticipantId": p, "BatchID": "b", "Error": "machine failed", "CreatedAt": t})
	case EvCommit:
		return mkReq(map[string]interface{}{"ParticipantId": p, "Commit": []byte("[]"), "CreatedAt": t})
	case EvDeal:
		return mkReq(map[string]interface{}{"ParticipantId": p, "Deal": []byte("deal"), "CreatedAt": t})
	case EvResponse:
		return mkReq(map[string]interface{}{"ParticipantId": p, "Response": []byte("[]"), "CreatedAt": t})
	case EvMasterKey:
		return mkReq(map[string]interface{}{"ParticipantId": p, "MasterKey": []byte("key"), "CreatedAt": t})
	case EvSigningStart:
		return mkReq(map[string]interface{}{"BatchID": "b", "ParticipantId": p, "CreatedAt": t, "SigningTasks": []map[string]interface{}{{"MessageID": "m", "File": "f", "Payload": []byte("x")}}})
	case EvPartialSign:
		return mkReq(map[string]interface{}{"BatchID": "b", "ParticipantId": p, "CreatedAt": t, "PartialSigns": []map[string]interface{}{{"MessageID": "m", "Sign": []byte("s")}}})
	case EvSigRecon:
		return mkReq([]map[string]interface{}{{"File": "f", "BatchID": "b", "MessageID": "m", "SrcPayload": []byte("x"), "Signature": []byte("s"), "Username": g.SenderAddr, "DKGRoundID": g.DkgRoundID}})
	}
	return nil
}
