package world

import (
	"bufio"
	"encoding/json"
	"fmt"
	"os"
	"path/filepath"

	"github.com/lidofinance/dc4bc/storage"
	"github.com/lidofinance/dc4bc/storage/file_storage"
)

// FileBoard is the repository's real file board (storage/file_storage) over a log file the harness
// wrote line by line, so that recorded IDs (including repeated ones) and offsets are kept as they are.
type FileBoard struct {
	storage.Storage
	Dir  string
	path string
}

// NewFileBoard writes log (Offset renumbered to the line position) and opens it with NewFileStorage.
func NewFileBoard(log []storage.Message) (*FileBoard, error) {
	if err := os.MkdirAll(WorkRoot(), 0o755); err != nil {
		return nil, err
	}
	d, err := os.MkdirTemp(WorkRoot(), fmt.Sprintf("fb%d-", os.Getpid()))
	if err != nil {
		return nil, err
	}
	path := filepath.Join(d, "board.log")
	f, err := os.Create(path)
	if err != nil {
		return nil, err
	}
	bw := bufio.NewWriter(f)
	for i, m := range log {
		m.Offset = uint64(i)
		bz, err := json.Marshal(m)
		if err != nil {
			f.Close()
			return nil, err
		}
		if m.Signature == nil {
			// a row written by somebody who never signed it: the key is not there at all
			var row map[string]json.RawMessage
			if json.Unmarshal(bz, &row) == nil {
				delete(row, "signature")
				if b2, err := json.Marshal(row); err == nil {
					bz = b2
				}
			}
		}
		bw.Write(bz)
		bw.WriteByte('\n')
	}
	if err := bw.Flush(); err != nil {
		f.Close()
		return nil, err
	}
	f.Close()
	st, err := file_storage.NewFileStorage(path, filepath.Join(d, "board.lock"))
	if err != nil {
		return nil, err
	}
	return &FileBoard{Storage: st, Dir: d, path: path}, nil
}

func (b *FileBoard) All() []storage.Message {
	f, err := os.Open(b.path)
	if err != nil {
		return nil
	}
	defer f.Close()
	sc := bufio.NewScanner(f)
	sc.Buffer(make([]byte, 0, 64*1024), 16*1024*1024)
	var out []storage.Message
	for sc.Scan() {
		var m storage.Message
		if json.Unmarshal(sc.Bytes(), &m) == nil {
			out = append(out, m)
		}
	}
	return out
}

func (b *FileBoard) Len() int { return len(b.All()) }

// Remove closes the board and deletes its directory.
func (b *FileBoard) Remove() {
	_ = b.Storage.Close()
	_ = os.RemoveAll(b.Dir)
}
