package props

import (
	"bufio"
	"bytes"
	"encoding/json"
	"fmt"
	"os"
	"os/exec"
	"os/signal"
	"path/filepath"
	"sort"
	"strconv"
	"strings"
	"sync"
	"syscall"
	"time"
	"unsafe"

	"github.com/anishathalye/porcupine"

	"github.com/lidofinance/dc4bc/storage"
	"github.com/lidofinance/dc4bc/storage/file_storage"

	"verifharness/oracle"
	"verifharness/sched"
	"verifharness/world"
)

// C16: the file bulletin board is an append-only, gap-free, totally ordered log.
func init() {
	Register("C16", "exploration", checkC16)
	Workers["fswriter"] = fsWriterWorker
	Workers["fswriter-limit"] = fsLimitedWriterWorker
	Workers["c16race"] = c16RaceWorker
}

// c16RaceWorker (run inside the -race build): writers and readers with separate handles in one
// process, all size classes; the race detector watches the repository's board code.
func c16RaceWorker(args []string) int {
	if len(args) < 2 {
		return 2
	}
	var seed uint64
	fmt.Sscan(args[1], &seed)
	path := filepath.Join(args[0], "board")
	lock := filepath.Join(args[0], "lock")
	var wg sync.WaitGroup
	for wi := 0; wi < 8; wi++ {
		wg.Add(1)
		go func(wi int) {
			defer wg.Done()
			st, err := openBoard(path, lock)
			if err != nil {
				return
			}
			defer st.Close()
			r := sched.Derive(seed, uint64(wi))
			for k := 0; k < 12; k++ {
				class := []string{"empty", "10B", "4KiB", "64KiB+1", "10B"}[r.Intn(5)]
				_ = fsAppend(st, wi, fmt.Sprintf("r%d-%d", wi, k), dataForClass(class, r))
				if k%3 == 0 {
					_ = fsRead(st, wi, r.Intn(k+1))
					_ = st.IgnoreMessages([]string{fmt.Sprint(r.Intn(5))}, true)
					st.UnignoreMessages()
				}
			}
		}(wi)
	}
	wg.Wait()
	fmt.Fprintln(Out, "c16race done")
	return 0
}

func monoNow() int64 {
	var ts syscall.Timespec
	syscall.Syscall(syscall.SYS_CLOCK_GETTIME, 1 /* CLOCK_MONOTONIC */, uintptr(unsafe.Pointer(&ts)), 0)
	return ts.Sec*1e9 + ts.Nsec
}

type fsOp struct {
	Client int    `json:"client"`
	Kind   string `json:"kind"` // append | read
	Tag    string `json:"tag,omitempty"`
	Arg    int    `json:"arg"` // read offset
	Call   int64  `json:"call"`
	Ret    int64  `json:"ret"`
	Off    int    `json:"off"`             // assigned offset (append)
	ID     string `json:"id,omitempty"`    // assigned id
	Tags   string `json:"tags,omitempty"`  // read result: tags joined by ','
	DataH  string `json:"datah,omitempty"` // append: hash of the payload written
	Datas  string `json:"datas,omitempty"` // read result: payload hashes joined
	Offs   string `json:"offs,omitempty"`  // read result: offsets joined
	Err    string `json:"err,omitempty"`
}

func tagOf(m storage.Message) string { return m.SenderAddr }

// sizeClasses in bytes of Data; the last ones are chosen so that the JSON line is just below /
// at the reader's 1 MiB line limit.
func dataForClass(class string, r *sched.Rng) []byte {
	switch class {
	case "empty":
		return nil
	case "10B":
		return r.Bytes(10)
	case "4KiB":
		return r.Bytes(4096)
	case "64KiB-1":
		return r.Bytes(48*1024 - 200) // JSON line just below 64 KiB
	case "64KiB+1":
		return r.Bytes(48*1024 + 200) // JSON line just above 64 KiB
	case "200KiB":
		return r.Bytes(200 * 1024)
	case "1MiB-":
		return r.Bytes(785000) // base64 line ~ 1,046,900 bytes < 1 MiB
	}
	return r.Bytes(100)
}

func fsAppend(st storage.Storage, client int, tag string, data []byte) fsOp {
	op := fsOp{Client: client, Kind: "append", Tag: tag}
	msgs := []storage.Message{{Event: "e", Data: data, SenderAddr: tag, DkgRoundID: "r"}}
	if h := oracle.HashN(tag, 4); h == 0 {
		// the caller fills in an identifier of its own, in a spelling of its own (upper case as printed by
		// uuidgen on some systems, braces, a urn prefix, no dashes, padding): whatever identifier the entry
		// ends up with on the board is the one that ignore lists by id name later
		u := oracle.Hash("id|"+tag) + oracle.Hash("id2|"+tag)
		canon := u[0:8] + "-" + u[8:12] + "-4" + u[13:16] + "-a" + u[17:20] + "-" + u[20:32]
		msgs[0].ID = []string{strings.ToUpper(canon), "{" + canon + "}", "urn:uuid:" + canon, strings.ReplaceAll(canon, "-", ""), " " + canon + " "}[oracle.HashN("sp|"+tag, 5)]
	}
	op.Call = monoNow()
	err := st.Send(msgs...)
	op.Ret = monoNow()
	if err != nil {
		op.Err = err.Error()
	}
	op.Off = int(msgs[0].Offset)
	op.ID = msgs[0].ID
	op.DataH = oracle.Hash(string(data))
	return op
}

func fsRead(st storage.Storage, client, from int) fsOp {
	op := fsOp{Client: client, Kind: "read", Arg: from}
	op.Call = monoNow()
	msgs, err := st.GetMessages(uint64(from))
	op.Ret = monoNow()
	if err != nil {
		op.Err = err.Error()
		return op
	}
	var tags, offs, datas []string
	for _, m := range msgs {
		tags = append(tags, tagOf(m))
		offs = append(offs, strconv.FormatUint(m.Offset, 10))
		datas = append(datas, oracle.Hash(string(m.Data)))
	}
	op.Tags = strings.Join(tags, ",")
	op.Offs = strings.Join(offs, ",")
	op.Datas = strings.Join(datas, ",")
	return op
}

func fsWriterWorker(args []string) int {
	// args: path lock client count class seed
	if len(args) < 6 {
		return 2
	}
	client, _ := strconv.Atoi(args[2])
	count, _ := strconv.Atoi(args[3])
	seed, _ := strconv.ParseUint(args[5], 10, 64)
	st, err := openBoard(args[0], args[1])
	if err != nil {
		fmt.Fprintln(Out, `{"err":"open"}`)
		return 2
	}
	r := sched.Derive(seed, uint64(client))
	enc := json.NewEncoder(Out)
	for i := 0; i < count; i++ {
		class := args[4]
		if class == "mixed" {
			class = []string{"empty", "10B", "4KiB", "64KiB+1", "10B"}[r.Intn(5)]
		}
		op := fsAppend(st, client, fmt.Sprintf("p%d-%d", client, i), dataForClass(class, r))
		_ = enc.Encode(op)
		if i%3 == 2 {
			rd := fsRead(st, client, r.Intn(i+1))
			_ = enc.Encode(rd)
		}
	}
	return 0
}

// ---- porcupine model of the log ----

type logIn struct {
	Append bool
	Tag    string
	From   int
}
type logOut struct {
	Off  int
	Tags string
}

var logModel = porcupine.Model{
	Init: func() interface{} { return "" },
	Step: func(state, input, output interface{}) (bool, interface{}) {
		st := state.(string)
		in := input.(logIn)
		out := output.(logOut)
		var tags []string
		if st != "" {
			tags = strings.Split(st, ",")
		}
		if in.Append {
			if out.Off != len(tags) {
				return false, state
			}
			if st == "" {
				return true, in.Tag
			}
			return true, st + "," + in.Tag
		}
		want := ""
		if in.From < len(tags) {
			want = strings.Join(tags[in.From:], ",")
		}
		return out.Tags == want, state
	},
	Equal: func(a, b interface{}) bool { return a.(string) == b.(string) },
	DescribeOperation: func(input, output interface{}) string {
		in := input.(logIn)
		out := output.(logOut)
		if in.Append {
			return fmt.Sprintf("append(%s)->%d", in.Tag, out.Off)
		}
		return fmt.Sprintf("read(%d)->[%s]", in.From, trunc(out.Tags, 60))
	},
}

func checkLinearizable(ops []fsOp) (porcupine.CheckResult, int) {
	var pops []porcupine.Operation
	for _, o := range ops {
		if o.Err != "" {
			continue
		}
		in := logIn{Append: o.Kind == "append", Tag: o.Tag, From: o.Arg}
		out := logOut{Off: o.Off, Tags: o.Tags}
		pops = append(pops, porcupine.Operation{ClientId: o.Client, Input: in, Call: o.Call, Output: out, Return: o.Ret})
	}
	res := porcupine.CheckOperationsTimeout(logModel, pops, 60*time.Second)
	return res, len(pops)
}

// structural check after quiescence, through a fresh handle and the raw file.
func judgeLogStructure(c *Ctx, path, lock string, ops []fsOp, wit map[string]interface{}) {
	sent := map[string]fsOp{}
	for _, o := range ops {
		if o.Kind == "append" {
			if o.Err != "" {
				c.Violate("C16/append-failed", o.Err, wit)
				continue
			}
			sent[o.Tag] = o
		}
	}
	fresh, err := openBoard(path, lock)
	if err != nil {
		c.Inconclusive("fresh handle: %v", err)
		return
	}
	defer fresh.Close()
	all, err := fresh.GetMessages(0)
	if err != nil {
		c.Violate("C16/log-unreadable-after-quiescence", err.Error(), wit)
		return
	}
	seen := map[string]int{}
	for pos, m := range all {
		seen[tagOf(m)]++
		if int(m.Offset) != pos {
			c.Violate("C16/offset-differs-from-position", fmt.Sprintf("entry at position %d carries offset %d", pos, m.Offset), wit)
			break
		}
		if s, ok := sent[tagOf(m)]; ok && s.DataH != oracle.Hash(string(m.Data)) {
			c.Violate("C16/entry-content-differs-from-what-was-written", fmt.Sprintf("entry %d (%s): payload read back (%d bytes) is not the payload written", pos, tagOf(m), len(m.Data)), wit)
		}
		if s, ok := sent[tagOf(m)]; ok && (s.Off != pos || s.ID != m.ID) {
			c.Violate("C16/writer-told-different-offset-or-id", fmt.Sprintf("writer of %s was told offset %d id %s, log has position %d id %s", tagOf(m), s.Off, s.ID, pos, m.ID), wit)
		}
	}
	for tag := range sent {
		if seen[tag] != 1 {
			c.Violate("C16/message-not-exactly-once", fmt.Sprintf("%s appears %d times among %d entries (sent %d)", tag, seen[tag], len(all), len(sent)), wit)
			break
		}
	}
	if len(all) != len(sent) {
		c.Violate("C16/entry-count-differs-from-sends", fmt.Sprintf("%d entries, %d successful sends", len(all), len(sent)), wit)
	}
	// raw file: one JSON line per message
	raw, _ := os.ReadFile(path)
	lines := bytes.Split(bytes.TrimSuffix(raw, []byte("\n")), []byte("\n"))
	if len(raw) == 0 {
		lines = nil
	}
	if len(lines) != len(sent) {
		c.Violate("C16/raw-line-count", fmt.Sprintf("%d lines for %d sends", len(lines), len(sent)), wit)
	}
	// every recorded read is a contiguous run of the final log starting at its offset
	var finalTags []string
	for _, m := range all {
		finalTags = append(finalTags, tagOf(m))
	}
	for _, o := range ops {
		if o.Kind != "read" || o.Err != "" {
			continue
		}
		got := []string{}
		if o.Tags != "" {
			got = strings.Split(o.Tags, ",")
		}
		okp := o.Arg+len(got) <= len(finalTags)
		for i := 0; okp && i < len(got); i++ {
			if finalTags[o.Arg+i] != got[i] {
				okp = false
			}
		}
		if okp && o.Datas != "" {
			for i, h := range strings.Split(o.Datas, ",") {
				if sd, ok := sent[got[i]]; ok && sd.DataH != h {
					c.Violate("C16/read-returned-different-content", fmt.Sprintf("read(%d) by client %d: entry %s came back with a payload that was not written for it", o.Arg, o.Client, got[i]), wit)
					break
				}
			}
		}
		if !okp {
			c.Violate("C16/earlier-read-not-a-prefix-of-final-log", fmt.Sprintf("read(%d) by client %d returned %d entries that are not positions %d.. of the final log", o.Arg, o.Client, len(got), o.Arg), wit)
			break
		}
	}
	// suffix reads and ignore lists on a fresh handle
	r := sched.Derive(uint64(len(all)), 16)
	for k := 0; k < 8 && len(all) > 0; k++ {
		from := uint64(r.Intn(len(all) + 1))
		if k >= 5 {
			// read offsets beyond the end of the log, up to the largest one: nothing is "from there onward"
			from = []uint64{uint64(len(all)) + 1, uint64(len(all)) + 1000, 1 << 31, 1 << 32, 1<<63 - 1, 1 << 63, 1<<63 + 3, 1<<64 - 1}[(int(r.Intn(8))+k)%8]
		}
		h, _ := openBoard(path, lock)
		ign := map[int]bool{}
		// the ignore lists are built the way an operator builds them: by one or several calls, each by
		// message id or by offset, with repeats and with offsets beyond the end of the log
		calls := 0
		if k > 0 {
			calls = 1 + r.Intn(4)
		}
		if k == 1 {
			calls = 2
		}
		var shape []string
		for ci := 0; ci < calls; ci++ {
			byOff := r.Intn(2) == 0
			if k == 1 {
				byOff = ci == 1 // the plain case: one call by id, then one by offset
			}
			var list []string
			for e, ne := 0, r.Intn(4); e < ne || (k == 1 && e < 1); e++ {
				p := r.Intn(len(all))
				if byOff && r.Intn(6) == 0 {
					list = append(list, strconv.Itoa(len(all)+r.Intn(5)))
					continue
				}
				if !byOff && r.Intn(3) == 0 {
					// an id that no entry carries and that reads like a position on the board (the operator
					// forgot use_offset, or pasted ids of another board): an id list drops entries by id only
					list = append(list, strconv.Itoa(p))
					c.Add("ignore_lists_by_id_naming_a_position", 1)
					continue
				}
				ign[p] = true
				if byOff && r.Intn(4) == 0 {
					list = append(list, fmt.Sprintf("%03d", p)) // an offset typed with leading zeros
					continue
				}
				if byOff {
					list = append(list, strconv.Itoa(p))
				} else {
					list = append(list, all[p].ID)
				}
			}
			if err := h.IgnoreMessages(list, byOff); err != nil {
				c.Violate("C16/ignore-call-fails", fmt.Sprintf("IgnoreMessages(%v, %v): %v", list, byOff, err), wit)
			}
			shape = append(shape, fmt.Sprintf("%v:%d", byOff, len(list)))
		}
		c.Distinct("ignore-calls|" + strings.Join(shape, ","))
		got, err := h.GetMessages(from)
		h.Close()
		if err != nil {
			c.Violate("C16/suffix-read-fails", err.Error(), wit)
			continue
		}
		var want []string
		for p := from; p < uint64(len(all)); p++ {
			if !ign[int(p)] {
				want = append(want, all[p].ID)
			}
		}
		var gotIDs []string
		for _, m := range got {
			gotIDs = append(gotIDs, m.ID)
			if sd, ok := sent[tagOf(m)]; ok && sd.DataH != oracle.Hash(string(m.Data)) {
				c.Violate("C16/read-returned-different-content", fmt.Sprintf("GetMessages(%d): entry %s has a payload that was not written for it", from, tagOf(m)), wit)
			}
		}
		if strings.Join(want, ",") != strings.Join(gotIDs, ",") {
			c.Violate("C16/suffix-read-differs", fmt.Sprintf("GetMessages(%d) with ignore %v: %d entries, expected %d", from, ign, len(got), len(want)), wit)
		}
		c.Add("suffix_reads_checked", 1)
	}
	// last: an entry written by somebody else's tool, carrying only some of the fields (the board is a plain
	// file; nothing makes writers use this library). What a reader gets for it may not depend on where the
	// read started: read together with the entry before it, or alone, it is the same entry.
	if len(all) > 0 {
		bare := fmt.Sprintf(`{"id":"bare-%d","event":"bare","data":"YmFyZQ=="}`, len(all))
		if f, err := os.OpenFile(path, os.O_APPEND|os.O_WRONLY, 0o600); err == nil {
			_, _ = f.WriteString(bare + "\n")
			f.Close()
			h, _ := openBoard(path, lock)
			together, err1 := h.GetMessages(uint64(len(all) - 1))
			alone, err2 := h.GetMessages(uint64(len(all)))
			h.Close()
			c.Eval(1)
			c.Distinct("bare-entry-behind-a-full-one")
			if err1 != nil || err2 != nil || len(together) != 2 || len(alone) != 1 {
				c.Violate("C16/suffix-read-fails", fmt.Sprintf("after a foreign writer appended an entry with few fields: %v %v (%d and %d entries)", err1, err2, len(together), len(alone)), wit)
			} else {
				a, b := together[1], alone[0]
				a.Offset, b.Offset = 0, 0
				ja, _ := json.Marshal(a)
				jb, _ := json.Marshal(b)
				if string(ja) != string(jb) {
					c.Violate("C16/entry-depends-on-where-the-read-started", fmt.Sprintf("the entry at position %d read together with its predecessor is %s, read alone it is %s", len(all), trunc(string(ja), 200), trunc(string(jb), 200)), wit)
				}
			}
		}
	}
}

func checkC16(c *Ctx) {
	c.Rule = "many short concurrent histories on the real FileStorage: W in {1,2,4,8,16} writer goroutines with separate handles plus readers, and W separate OS processes (verifd worker fswriter, CLOCK_MONOTONIC timestamps; some relying on the default lock file, each with a TMPDIR of its own); message sizes empty, 10 B, 4 KiB, JSON line just below/above 64 KiB, 200 KiB, line just below 1 MiB; after quiescence a structural check through a fresh handle and the raw file (exactly-once, offset == position, earlier reads are runs of the final log, suffix reads, ignore lists by id and offset) and a porcupine linearizability check of the recorded history against the sequential log model. Ignore lists are built by 1-4 IgnoreMessages calls mixing ids and offsets (ids as they stand on the board; a quarter of the appends come with a caller-chosen identifier in a non-canonical UUID spelling). Read offsets beyond the end of the log, up to 2^64-1, must yield nothing. A writer process whose board file cannot grow beyond a limit: every acknowledged append stands in the file. distinct = distinct observed interleavings (order of appends/reads by call time) over the (mode, writers, size class) configurations"
	c.Assumptions = []string{"porcupine v1.3.0 as linearizability checker (60 s cap => inconclusive)", "timestamps from CLOCK_MONOTONIC, shared by all processes of the machine"}
	type cfg struct {
		mode    string
		writers int
		class   string
		perW    int
		rep     int
	}
	var cfgs []cfg
	reps := c.Pick(12, 100)
	for rep := 0; rep < reps; rep++ {
		for _, wn := range []int{1, 2, 4, 8, 16} {
			for _, cl := range []string{"mixed", "10B"} {
				cfgs = append(cfgs, cfg{"goroutines", wn, cl, 48 / wn, rep})
			}
		}
		for _, cl := range []string{"empty", "4KiB", "64KiB-1", "64KiB+1", "200KiB", "1MiB-"} {
			cfgs = append(cfgs, cfg{"goroutines", 2, cl, 4, rep})
		}
		for _, wn := range []int{2, 4, 8} {
			cfgs = append(cfgs, cfg{"processes", wn, "mixed", 8, rep})
		}
		cfgs = append(cfgs, cfg{"processes", 3, "64KiB+1", 3, rep})
		if rep%4 == 0 {
			// writer processes that rely on the board's default lock file, each started with a TMPDIR of its own
			// (separate users, containers, systemd PrivateTmp-less units with TMPDIR set): still one board, one lock
			cfgs = append(cfgs, cfg{"processes-default-lock", 4, "10B", 40, rep})
		}
	}
	root := world.WorkRoot()
	_ = os.MkdirAll(root, 0o755)
	base, err := os.MkdirTemp(root, fmt.Sprintf("c16-%d-", os.Getpid()))
	if err != nil {
		c.Inconclusive("tmp: %v", err)
		return
	}
	defer os.RemoveAll(base)
	Parallel(len(cfgs), 6, func(i int) {
		cf := cfgs[i]
		path := filepath.Join(base, fmt.Sprintf("board-%d", i))
		lock := filepath.Join(base, fmt.Sprintf("lock-%d", i))
		if cf.mode == "processes-default-lock" {
			lock = ""
		}
		seed := c.Seed*1009 + uint64(i)
		wit := map[string]interface{}{"mode": cf.mode, "writers": cf.writers, "size_class": cf.class, "per_writer": cf.perW, "case_seed": seed}
		var ops []fsOp
		var mu sync.Mutex
		if cf.mode == "goroutines" {
			var wg sync.WaitGroup
			for wi := 0; wi < cf.writers; wi++ {
				wg.Add(1)
				go func(wi int) {
					defer wg.Done()
					st, err := openBoard(path, lock)
					if err != nil {
						return
					}
					defer st.Close()
					r := sched.Derive(seed, uint64(wi))
					for k := 0; k < cf.perW; k++ {
						class := cf.class
						if class == "mixed" {
							class = []string{"empty", "10B", "4KiB", "64KiB+1", "10B", "10B"}[r.Intn(6)]
						}
						op := fsAppend(st, wi, fmt.Sprintf("g%d-%d", wi, k), dataForClass(class, r))
						mu.Lock()
						ops = append(ops, op)
						mu.Unlock()
						if r.Intn(3) == 0 {
							rd := fsRead(st, wi, r.Intn(k+2))
							mu.Lock()
							ops = append(ops, rd)
							mu.Unlock()
						}
					}
				}(wi)
			}
			// an independent reader
			wg.Add(1)
			go func() {
				defer wg.Done()
				st, err := openBoard(path, lock)
				if err != nil {
					return
				}
				defer st.Close()
				r := sched.Derive(seed, 999)
				for k := 0; k < 6; k++ {
					rd := fsRead(st, 1000, r.Intn(4))
					mu.Lock()
					ops = append(ops, rd)
					mu.Unlock()
				}
			}()
			wg.Wait()
		} else {
			exe, _ := os.Executable()
			var wg sync.WaitGroup
			for wi := 0; wi < cf.writers; wi++ {
				wg.Add(1)
				go func(wi int) {
					defer wg.Done()
					cmd := exec.Command(exe, "worker", "fswriter", path, lock, strconv.Itoa(wi), strconv.Itoa(cf.perW), cf.class, strconv.FormatUint(seed, 10))
					cmd.WaitDelay = 10 * time.Second // a child that has exited never keeps this process waiting on its pipes
					if lock == "" {
						tmp := filepath.Join(base, fmt.Sprintf("tmp-%d-%d", i, wi))
						_ = os.MkdirAll(tmp, 0o755)
						cmd.Env = append(os.Environ(), "TMPDIR="+tmp)
					}
					out, err := cmd.Output()
					if err != nil {
						c.Inconclusive("writer process: %v", err)
						return
					}
					sc := bufio.NewScanner(bytes.NewReader(out))
					sc.Buffer(make([]byte, 1<<20), 1<<26)
					for sc.Scan() {
						var op fsOp
						if json.Unmarshal(sc.Bytes(), &op) == nil && op.Kind != "" {
							mu.Lock()
							ops = append(ops, op)
							mu.Unlock()
						}
					}
				}(wi)
			}
			wg.Wait()
		}
		sort.Slice(ops, func(a, b int) bool { return ops[a].Call < ops[b].Call })
		c.Eval(1)
		c.Add("operations_recorded", len(ops))
		if len(ops) == 0 {
			c.Inconclusive("no operations recorded for %v", wit)
			return
		}
		judgeLogStructure(c, path, lock, ops, wit)
		res, nops := checkLinearizable(ops)
		switch res {
		case porcupine.Illegal:
			var sample []string
			for i, o := range ops {
				if i < 40 {
					sample = append(sample, fmt.Sprintf("c%d %s %s@%d off=%d [%s]", o.Client, o.Kind, o.Tag, o.Arg, o.Off, trunc(o.Tags, 40)))
				}
			}
			wit["history_head"] = sample
			c.Violate("C16/history-not-linearizable", fmt.Sprintf("porcupine: no linearization of %d operations against the sequential log model", nops), wit)
		case porcupine.Unknown:
			c.Inconclusive("porcupine timed out on %d operations (%v)", nops, wit)
		default:
			c.Add("histories_linearizable", 1)
		}
		// distinct = distinct observed interleavings (order of operations by call time, per client and kind)
		var sig strings.Builder
		for _, o := range ops {
			fmt.Fprintf(&sig, "%d%c", o.Client, o.Kind[0])
		}
		c.Distinct(fmt.Sprintf("%s|w%d|%s|%s", cf.mode, cf.writers, cf.class, oracleHash(sig.String())))
		c.Add("configurations:"+fmt.Sprintf("%s|w%d|%s", cf.mode, cf.writers, cf.class), 1)
		if cf.rep == 0 && (cf.writers == 4 || cf.class == "1MiB-") {
			c.Sample(map[string]interface{}{"config": wit, "operations": len(ops), "linearizable": res == porcupine.Ok})
		}
		_ = os.Remove(path)
	})
	c16ExactLines(c, base)
	c16FullBoard(c, base)
	if c.Thorough() {
		if bin := os.Getenv("VERIF_RACE_BIN"); bin != "" {
			rdir := filepath.Join(base, "race")
			_ = os.MkdirAll(rdir, 0o755)
			okRuns := 0
			for i := 0; i < 3; i++ {
				cmd := exec.Command(bin, "worker", "c16race", rdir, fmt.Sprint(c.Seed*3+uint64(i)))
				cmd.Env = append(os.Environ(), "GORACE=halt_on_error=0 log_path="+filepath.Join(rdir, "race"))
				err := cmd.Run()
				if ee, ok := err.(*exec.ExitError); err == nil || (ok && ee.ExitCode() == 66) {
					okRuns++
				}
				_ = os.Remove(filepath.Join(rdir, "board"))
			}
			reports, total := parseRaceLogs(rdir)
			c.Set("race_runs_completed", okRuns)
			c.Set("race_reports_total", total)
			for key, sample := range reports {
				c.Violate("C16/data-race:"+key, "the Go race detector reports unsynchronised accesses in repository code: "+key, map[string]interface{}{"report": sample})
			}
		} else {
			c.Note("race variant skipped: VERIF_RACE_BIN not set")
		}
	}
}

func oracleHash(s string) string { return oracle.Hash(s) }

// c16ExactLines: one writer; the k-th entry's JSON line is tuned (payload size + recipient padding) to an
// exact length around the buffer sizes readers and counters use (multiples of 4 KiB / 64 KiB, the 1 MiB
// limit), each followed by small entries; then the structural check.
func c16ExactLines(c *Ctx, base string) {
	targets := []int{4096, 65535, 65536, 65537, 2 * 65536, 2*65536 - 1, 3 * 65536, 7*65536 + 1, 8 * 65536, 15 * 65536, 1<<20 - 2}
	if c.Thorough() {
		for k := 4; k <= 14; k++ {
			targets = append(targets, k*65536)
		}
	}
	Parallel(len(targets), 6, func(i int) {
		target := targets[i]
		path := filepath.Join(base, fmt.Sprintf("exact-%d", i))
		lock := filepath.Join(base, fmt.Sprintf("exact-lock-%d", i))
		wit := map[string]interface{}{"family": "exact line length", "line_bytes": target}
		st, err := openBoard(path, lock)
		if err != nil {
			c.Inconclusive("exact lines: %v", err)
			return
		}
		defer st.Close()
		var ops []fsOp
		ops = append(ops, fsAppend(st, 0, "pre-0", []byte("x")), fsAppend(st, 0, "pre-1", nil))
		// the line of entry 2: predict its JSON with a placeholder id of uuid length, then tune
		mk := func(dataLen, pad int) storage.Message {
			return storage.Message{ID: strings.Repeat("0", 36), Offset: 2, Event: "e", Data: bytes.Repeat([]byte{0xA5}, dataLen), SenderAddr: "exact", DkgRoundID: "r", RecipientAddr: strings.Repeat("p", pad)}
		}
		lineLen := func(m storage.Message) int { bz, _ := json.Marshal(m); return len(bz) }
		dataLen := 0
		if over := target - lineLen(mk(0, 0)); over > 8 {
			dataLen = (over - 8) / 4 * 3
		}
		for lineLen(mk(dataLen+3, 0)) <= target {
			dataLen += 3
		}
		pad := target - lineLen(mk(dataLen, 0))
		if pad < 0 || lineLen(mk(dataLen, pad)) != target {
			c.Inconclusive("cannot tune a line of %d bytes", target)
			return
		}
		tuned := mk(dataLen, pad)
		op := fsOp{Client: 0, Kind: "append", Tag: "exact"}
		msgs := []storage.Message{{Event: "e", Data: tuned.Data, SenderAddr: "exact", DkgRoundID: "r", RecipientAddr: tuned.RecipientAddr}}
		op.Call = monoNow()
		if err := st.Send(msgs...); err != nil {
			op.Err = err.Error()
		}
		op.Ret = monoNow()
		op.Off, op.ID, op.DataH = int(msgs[0].Offset), msgs[0].ID, oracle.Hash(string(tuned.Data))
		ops = append(ops, op)
		for k := 0; k < 3; k++ {
			ops = append(ops, fsAppend(st, 0, fmt.Sprintf("post-%d", k), []byte{byte(k)}))
		}
		raw, _ := os.ReadFile(path)
		lines := bytes.Split(bytes.TrimSuffix(raw, []byte("\n")), []byte("\n"))
		if len(lines) < 3 || len(lines[2]) != target {
			got := -1
			if len(lines) >= 3 {
				got = len(lines[2])
			}
			c.Note("exact-length family: wanted a line of %d bytes, the file has %d (measurement skipped)", target, got)
			return
		}
		c.Eval(1)
		c.Add("entries_with_an_exactly_tuned_line_length", 1)
		c.Distinct(fmt.Sprintf("exact-line|%d", target))
		judgeLogStructure(c, path, lock, ops, wit)
		_ = os.Remove(path)
	})
}

// fsLimitedWriterWorker: a writer process whose board file cannot grow beyond a limit (RLIMIT_FSIZE, the
// signal ignored: the write call returns an error, as on a full disk or an exhausted quota).
// args: path lock limit count seed
func fsLimitedWriterWorker(args []string) int {
	if len(args) < 5 {
		return 2
	}
	limit, _ := strconv.ParseUint(args[2], 10, 64)
	count, _ := strconv.Atoi(args[3])
	seed, _ := strconv.ParseUint(args[4], 10, 64)
	signal.Ignore(syscall.SIGXFSZ)
	if err := syscall.Setrlimit(syscall.RLIMIT_FSIZE, &syscall.Rlimit{Cur: limit, Max: limit}); err != nil {
		fmt.Fprintln(Out, `{"err":"rlimit"}`)
		return 2
	}
	st, err := file_storage.NewFileStorage(args[0], args[1])
	if err != nil {
		fmt.Fprintln(Out, `{"err":"open"}`)
		return 2
	}
	r := sched.Derive(seed, 77)
	enc := json.NewEncoder(Out)
	for i := 0; i < count; i++ {
		class := []string{"10B", "10B", "empty", "4KiB"}[r.Intn(4)]
		op := fsAppend(st, 0, fmt.Sprintf("lim-%d", i), dataForClass(class, r))
		_ = enc.Encode(op)
	}
	return 0
}

// c16FullBoard: appends to a board file that cannot grow any further. "Exactly once" includes the converse of
// an acknowledgement: an append that reported success stands in the file (as a complete line); the append
// that did not fit reported an error. (What a reader makes of the torn tail is not judged here.)
func c16FullBoard(c *Ctx, base string) {
	exe, _ := os.Executable()
	for rep := 0; rep < c.Pick(4, 16); rep++ {
		seed := c.Seed*311 + uint64(rep)
		r := sched.Derive(seed, 16)
		dir := filepath.Join(base, fmt.Sprintf("full%d", rep))
		_ = os.MkdirAll(dir, 0o755)
		path, lock := filepath.Join(dir, "board"), filepath.Join(dir, "lock")
		limit := 1500 + r.Intn(9000)
		wit := map[string]interface{}{"family": "board file that cannot grow beyond a limit (RLIMIT_FSIZE in the writer process)", "limit_bytes": limit, "case_seed": seed}
		cmd := exec.Command(exe, "worker", "fswriter-limit", path, lock, strconv.Itoa(limit), "60", strconv.FormatUint(seed, 10))
		cmd.WaitDelay = 10 * time.Second
		out, err := cmd.Output()
		if err != nil {
			c.Inconclusive("limited writer process: %v", err)
			continue
		}
		var ops []fsOp
		sc := bufio.NewScanner(bytes.NewReader(out))
		sc.Buffer(make([]byte, 1<<20), 1<<26)
		for sc.Scan() {
			var op fsOp
			if json.Unmarshal(sc.Bytes(), &op) == nil && op.Kind != "" {
				ops = append(ops, op)
			}
		}
		raw, _ := os.ReadFile(path)
		inFile := map[string]int{}
		for _, line := range bytes.Split(raw, []byte("\n")) {
			var m storage.Message
			if len(line) > 0 && json.Unmarshal(line, &m) == nil {
				inFile[m.SenderAddr]++
			}
		}
		acked, refused := 0, 0
		for _, op := range ops {
			if op.Err != "" {
				refused++
				continue
			}
			acked++
			if inFile[op.Tag] != 1 {
				c.Violate("C16/acknowledged-append-not-in-the-log", fmt.Sprintf("append %s reported success (offset %d) but stands %d times as a complete line in the board file (%d bytes, limit %d)", op.Tag, op.Off, inFile[op.Tag], len(raw), limit), wit)
				break
			}
		}
		c.Eval(1)
		c.Add("appends_acknowledged_on_a_board_that_filled_up", acked)
		c.Add("appends_refused_on_a_board_that_filled_up", refused)
		c.Distinct(fmt.Sprintf("full-board|acked=%d", acked))
		if refused == 0 {
			c.Inconclusive("full-board: the limit of %d bytes was never reached (%d appends)", limit, acked)
		}
	}
}

// openBoard opens the board file with the given lock file, or with the library's default lock ("").
func openBoard(path, lock string) (storage.Storage, error) {
	if lock == "" {
		return file_storage.NewFileStorage(path)
	}
	return file_storage.NewFileStorage(path, lock)
}
