#!/bin/bash
# usage: tools/confirm_seed.sh <worktree> <seed-name> '<demo command, run inside the worktree>' <check ids...>
# Confirms a seeded change delivered by a sub-agent in its scratch worktree and, if everything holds,
# stores it under /verif/seeded/<seed-name>/.
#  1. SEED/patch.diff applies to a clean HEAD and the tree builds
#  2. the stable suite (everything but the slow ./client flow tests) passes with the change
#  3. the demonstration FAILS with the change and PASSES without it
#  4. runs the given checks (quick) against the changed tree and records which ones fire
set -u
export GOFLAGS=-mod=mod GOPROXY=off GOSUMDB=off GOTOOLCHAIN=local
WT="$1"; NAME="$2"; DEMO="$3"; shift 3
cd "$WT" || exit 2
LOG=/root/scratch/confirm_$NAME.log; : > "$LOG"
say() { echo "$@" | tee -a "$LOG"; }
# clean tree, then apply the patch as delivered
# (never `git stash`: the stash is shared by all worktrees of the repository)
git reset -q 2>/dev/null
git checkout -q -- . 2>/dev/null
git clean -fdq -- . ':!SEED' 2>/dev/null
if ! git apply --check SEED/patch.diff 2>>"$LOG"; then say "FAIL: patch does not apply to HEAD"; exit 1; fi
# demo without the change
DEMO_CLEAN_RC=0
( eval "$DEMO" ) >>"$LOG" 2>&1 || DEMO_CLEAN_RC=$?
git apply SEED/patch.diff
if ! go build ./... >>"$LOG" 2>&1; then say "FAIL: does not build"; exit 1; fi
DEMO_SEED_RC=0
( eval "$DEMO" ) >>"$LOG" 2>&1 || DEMO_SEED_RC=$?
# remove demo files the command copied into package dirs (not `git clean`: the patch may add new files)
find . -name 'zz_*_test.go' -not -path './SEED/*' -delete 2>/dev/null
SUITE_RC=1
for try in 1 2 3 4; do
  # the airgapped tests use a fixed /tmp path shared with the sub-agents' own runs: retry on a lock clash
  if go test -vet=off -count=1 $(go list ./... | grep -v 'dc4bc/client$' | grep -v SEED) >"$LOG.suite" 2>&1; then SUITE_RC=0; break; fi
  grep -q "resource temporarily unavailable" "$LOG.suite" || break
  sleep 20
done
cat "$LOG.suite" >>"$LOG"; rm -f "$LOG.suite"
say "demo without change rc=$DEMO_CLEAN_RC (want 0); with change rc=$DEMO_SEED_RC (want !=0); stable suite with change rc=$SUITE_RC (want 0)"
FIRED=""
for id in "$@"; do
  out=$(cd "${VERIF_CHECK_ROOT:-/verif}" && VERIF_REPO="$WT" ./check "$id" quick 2>&1); rc=$?
  nv=$(echo "$out" | grep -c '^VIOLATION')
  say "check $id rc=$rc violations=$nv"
  echo "$out" | grep 'key=' | cut -c1-240 | head -4 | tee -a "$LOG"
  [ "$rc" = 1 ] && FIRED="$FIRED $id"
done
say "fired:$FIRED"
if [ "$DEMO_CLEAN_RC" = 0 ] && [ "$DEMO_SEED_RC" != 0 ] && [ "$SUITE_RC" = 0 ]; then
  D=/verif/seeded/$NAME; mkdir -p "$D/demo"
  cp SEED/patch.diff "$D/patch.diff"; cp -r SEED/demo/. "$D/demo/"; cp SEED/meta.json "$D/agent_meta.json"
  say "CONFIRMED -> $D"
else
  say "NOT CONFIRMED"
fi
