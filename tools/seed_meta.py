#!/usr/bin/env python3
"""Builds seeded/<name>/meta.json from the sub-agent's meta and the confirmation log, and seeded/README.md."""
import json,os,re,glob
rows=[]
for d in sorted(glob.glob('/verif/seeded/*/')):
    name=os.path.basename(d.rstrip('/'))
    am=os.path.join(d,'agent_meta.json')
    if not os.path.exists(am): continue
    a=json.load(open(am))
    meta_path=os.path.join(d,'meta.json')
    old=json.load(open(meta_path)) if os.path.exists(meta_path) else {}
    log='/root/scratch/confirm_%s.log'%name
    fired=old.get('checks_that_fire',[]); tried=old.get('checks_tried',[]); conf=old.get('confirmation','')
    if os.path.exists(log):
        t=open(log).read()
        m=re.findall(r'^check (C\d+) rc=(\d+)',t,re.M)
        tried=sorted(set([x for x,_ in m])|set(tried))
        fired=sorted(set([x for x,rc in m if rc=='1'])|set(fired))
        mm=re.search(r'demo without change rc=(\d+).*with change rc=(\d+).*suite with change rc=(\d+)',t)
        if mm: conf='confirmed in the scratch worktree: patch applies to HEAD and builds; demonstration exits %s without the change and %s with it; stable suite (all packages but the slow ./client flow tests) exits %s with the change'%mm.groups()
    meta={"property":name.split('-')[0],"name":name,
      "breaks":a.get('summary',''),
      "needs_to_manifest":a.get('what_it_needs_to_manifest',''),
      "files_changed":a.get('files_changed',[]),
      "how_to_run_demo":a.get('how_to_run_demo',''),
      "what_i_ran":"tools/confirm_seed.sh <worktree> %s '<demo command>' <checks>: %s; then each listed check's quick command against the changed tree (VERIF_REPO=<worktree> ./check <id> quick)"%(name,conf),
      "confirmation":conf,
      "checks_tried":tried,"checks_that_fire":fired,
      "client_flow_tests":old.get('client_flow_tests','not run for this change (see README)')}
    json.dump(meta,open(meta_path,'w'),indent=1)
    rows.append(meta)
with open('/verif/seeded/README.md','w') as f:
    f.write("# Seeded changes\n\nEach directory holds a change to lidofinance/dc4bc written by a fresh sub-agent that was given only the text of one property and its own scratch worktree (nothing from /verif): `patch.diff`, the agent's demonstration (`demo/`), the agent's own description (`agent_meta.json`) and `meta.json` (what it breaks, what it needs to manifest, what was run to confirm it, which checks fire). None of these changes is committed to /repo. To re-run: `tools/try_seed.sh seeded/<name>/patch.diff quick <ids...>` (applies to /repo, runs, restores).\n\n| seeded change | breaks | needs | checks that fire (quick) | tried, silent |\n|---|---|---|---|---|\n")
    for m in rows:
        silent=[x for x in m['checks_tried'] if x not in m['checks_that_fire']]
        f.write("| %s | %s | %s | %s | %s |\n"%(m['name'],m['breaks'][:160].replace('|','/').replace('\n',' '),m['needs_to_manifest'][:140].replace('|','/').replace('\n',' '),' '.join(m['checks_that_fire']) or '**none**',' '.join(silent)))
print(len(rows),'seeds')
