#!/usr/bin/env python3
"""Regenerates /verif/MANIFEST.json from the table below (single source for check metadata)."""
import json
props=[json.loads(l)['id'] for l in open('/verif/properties.jsonl')]
C={}
def add(pid,cat,text,note,tech,ref=None):
    C[pid]=dict(cat=cat,text=text,note=note,tech=tech,ref=ref or f"DESIGN.md section 3/{pid}")
add('C01','exploration',"Real ceremonies (real nodes, real airgapped machines) for every (n,t) up to n=5 (7 in thorough) under seeded random schedules and signer subsets, incl. a batch whose t-th answer was damaged; half of the ceremonies are driven through the REST API and one in six through the dc4bc_cli binary (child processes; export_signatures dumps judged); every signature value found in broadcasts, stores and exports is judged by the independent prysm/blst verifier against the harness-expanded payload and compared byte-for-byte per payload. Sampling of an infinite space: held on the executions produced.","prysm/blst as verifier; in-memory board; scrypt cost lowered","runtime monitoring: independent BLS verification of every observed signature over randomized full ceremonies")
add('C02','exploration',"Full key generations for all (n,t), n<=5, under random schedules plus the deviating-announcement history family (different polynomial / no polynomial / different key, first/middle/last); judged by group arithmetic on public values, machine keyrings and prysm.","kyber group arithmetic for public values; machines' keyrings read with the harness-known password","runtime monitoring: invariant oracle over machine keyrings, hot-node dumps and announcements at quiescence")
add('C03','exploration',"API-built and hand-built mixed proposals (explicit payloads incl. zero bytes, >64 KiB and hostile bytes, identifiers with Unicode whitespace / control characters, baked ranges incl. boundaries and empty ranges); each partial signature is verified under the participant's share public key over an independent expansion of the proposal; stores, broadcasts and exports compared with that expansion.","independent expansion = pinned list + independent SSZ; prysm for partial signatures","runtime monitoring: differential check of signed/stored/exported bytes against an independent expansion")
add('C05','exploration',"Breadth-first exploration of the real ProcessMessage over the full public event alphabet x participant ids x payload variants to a fixpoint of the abstract state space, exhaustive within the bound n<=3 (quick) / n<=4 (thorough), all t; five history monitors decide every transition (M5: a timely failure report by an awaited participant is not refused).","MemState for LevelDB; one node's point of view; harness-signed traffic","runtime monitoring: history monitors over an exhaustive bounded exploration of the real node")
add('C06','exploration',"Exhaustive exploration (n<=3 quick, n<=4 thorough, 2-3 batches) of the signing protocol on a node with a real finished key generation and real partial signatures (plus answers without any share, wrong shares, error reports); a per-batch contribution counter decides reconstruction/cancellation instants; thorough adds random walks for n=5..7.","MemState for LevelDB; node 0's point of view","runtime monitoring: counter monitor over exhaustive bounded exploration + random walks")
add('C09','exploration',"Every (genuine message, consuming node) pair of three kinds of reference ceremonies is attacked, in the exact consuming state, with ~35 forgeries (incl. re-addressed to unknown round ids) directly, after reinit traffic, wrapped inside an unauthenticated reinit message for a fresh round and inside one aimed at the existing round; oracle = error returned and byte-identical durable state.","MemState for LevelDB; opening proposal and reinit message exempt by the property","runtime monitoring: differential durable-state oracle over systematic message forgeries")
add('C10','exploration',"Two concurrent rounds; for every (genuine message, consuming node) pair: impersonation by every other participant (same payload and the phase's failure event), the other round's counterpart re-posted under this round, the message re-posted under every other event name (also in every later state of the round), and genuine messages / forged opening proposals under lookalike round ids. Open known findings: cross-round / confirm->decline replays (signature covers payload bytes only).","MemState for LevelDB","runtime monitoring: per-participant projection oracle over systematic impersonation and replay")
add('C17','exploration',"All 18,632 baked positions are enumerated exhaustively on every run and compared with an independent SSZ implementation and an independent reader of the pinned list; random/boundary validator indices sampled; out-of-range positions tried, also as windows offered through POST /proposeSignBakedMessages and dc4bc_cli sign_baked (bounds +-2^32, 2^62, negative).","pinned copy of the published list; Go's SHA-256","runtime monitoring: exhaustive differential testing against an independent SSZ reference")
add('C19','exploration',"state_machines driven directly: for every reachable state and event, live continuation vs dump+restore compared (acceptance, state, response, dump); plus restore + round listing over every state the C05/C06 node-level explorations reach, incl. what GET /getFSMDump and /getFSMList serve. Exhaustive within n<=3 (quick) / n<=4 (thorough).","hand-over states excluded from the live comparison (the node always restores there)","runtime monitoring: paired (live vs restored) differential execution over exhaustive bounded exploration")
import os
extra='/verif/tools/manifest_extra.json'
if os.path.exists(extra):
    for pid,d in json.load(open(extra)).items():
        add(pid,d['cat'],d['text'],d['note'],d['tech'])
pending={}
if os.path.exists('/verif/tools/not_applicable.json'):
    pending=json.load(open('/verif/tools/not_applicable.json'))
m={"version":1,
 "setup_cmd":"cd /verif && ./check SMOKE quick",
 "hooks":{"guard":"verif","enable":"go build -tags verif (passed by /verif/check to every build); no hook code was needed in /repo: all observation and fault injection goes through the State/Storage interfaces","baseline_off_cmd":"cd /repo && GOFLAGS=-mod=mod GOPROXY=off go test -vet=off -count=1 -timeout 25m ./...","source_commits":[],"add_only":True},
 "engines":[{"name":"verifd","path":"/verif/harness","serves_properties":props,"kind_free_text":"Go harness: the real node service / FSMs / airgapped machine / file board under recording, gating and fault-injecting decorators; monitors and oracles in harness/props and harness/oracle"}],
 "checks":[], "not_applicable":[],
 "notes":"Every check rebuilds verifd from /repo's working tree (./check). Known findings: /verif/known_findings.json."}
for p in props:
    if p in C:
        d=C[p]
        m["checks"].append({"property_id":p,"quick_cmd":f"./check {p} quick","thorough_cmd":f"./check {p} thorough","evidence_file":f"/verif/evidence/{p}.json","replay_cmd_template":"cat {path}","engine":"verifd","level_claimed":{"category":d['cat'],"text":d['text'],"design_ref":d['ref']},"level_note":d['note'],"technique":d['tech']})
    else:
        m["not_applicable"].append({"property_id":p,"reason":pending.get(p,"check not yet built in this session (a runtime-monitoring check is planned, see DESIGN.md section 3)")})
json.dump(m,open('/verif/MANIFEST.json','w'),indent=1)
print(len(m['checks']),'checks',len(m['not_applicable']),'not claimed')
