#!/usr/bin/env python3
"""Regenerates the seeded-changes table of DESIGN.md (between the SEED-TABLE markers) from
seeded/*/meta.json and tools/strengthening.json (name -> which check first missed it and how it was
strengthened)."""
import json,glob,os,re
notes=json.load(open('/verif/tools/strengthening.json'))
rows=[]
for d in sorted(glob.glob('/verif/seeded/*/meta.json')):
    m=json.load(open(d))
    needs=m['needs_to_manifest'][:170].replace('|','/').replace('\n',' ')
    rows.append("| %s | %s | %s | %s |"%(m['name'],needs,' '.join(m['checks_that_fire']) or '**none**',notes.get(m['name'],'')))
tab="| seeded change | what it needs to manifest | caught by (quick) | first missed by -> strengthening |\n|---|---|---|---|\n"+"\n".join(rows)+"\n"
p='/verif/DESIGN.md'
s=open(p).read()
a='<!-- SEED-TABLE-BEGIN -->\n'; b='<!-- SEED-TABLE-END -->\n'
if a in s:
    s=s[:s.index(a)+len(a)]+tab+s[s.index(b):]
else:
    i=s.index('| seeded change | what it needs to manifest')
    j=s.index('\n\n',i)+1
    s=s[:i]+a+tab+b+s[j:]
open(p,'w').write(s)
print(len(rows),'rows')
