package props

import (
	"fmt"
	"sync"
	"time"

	"verifharness/world"
)

// c13CleanStop: "clean stop/start at every message boundary" with the repository's own Poll() loop. The
// victim (state on real LevelDB) falls behind while the others go on, so that its next tick fetches a batch
// of several messages; its real Poll() is started, and the stop is requested (context cancelled, as the
// daemon does on SIGTERM) right after the k-th message of that batch was acknowledged. When Poll() has
// returned the node is restarted on its state directory through the start-up sequence and the ceremony is
// driven to its end: every node signing-ready, nothing lost, nothing applied twice.
func c13CleanStop(c *Ctx) {
	type cs struct{ n, victim, lagAt, stopAfter int }
	var cases []cs
	for _, n := range []int{2, 3} {
		for v := 0; v < n; v++ {
			for _, lagAt := range []int{0, 4} {
				for _, k := range []int{1, 2} {
					cases = append(cases, cs{n, v, lagAt, k})
				}
			}
		}
	}
	if !c.Thorough() {
		var few []cs
		for i, x := range cases {
			if (i+int(c.Seed))%4 == 0 {
				few = append(few, x)
			}
		}
		cases = few
	}
	Parallel(len(cases), 6, func(i int) {
		k := cases[i]
		seed := c.Seed*241 + uint64(i)
		wit := map[string]interface{}{"family": "clean stop requested inside a batch of the real Poll loop", "n": k.n, "victim": k.victim, "victim_lags_from_board_length": k.lagAt, "stop_after_acknowledged_messages": k.stopAfter, "case_seed": seed}
		w, err := world.NewWorld(world.Options{N: k.n, T: 2, Seed: seed, UseLevelDB: true})
		if err != nil {
			c.Inconclusive("clean stop: world: %v", err)
			return
		}
		defer w.Close()
		ce := &Ceremony{W: w, N: k.n, T: 2}
		v := w.Nodes[k.victim]
		if ce.Round, err = w.StartDKG((k.victim+1)%k.n, 2, now()); err != nil {
			c.Inconclusive("clean stop: start: %v", err)
			return
		}
		// everybody but the victim goes on until nothing moves without the victim
		others := func(w2 *world.World, acts []world.Action) (*world.Action, int) {
			var en []world.Action
			for _, a := range acts {
				if a.Node == k.victim && (w.Board.Len() >= k.lagAt) {
					continue
				}
				en = append(en, a)
			}
			if len(en) == 0 {
				return nil, 0
			}
			return world.EagerPolicy(w2, en)
		}
		w.Run(others, 4000)
		backlog := 0
		for _, m := range w.Board.All()[int(v.Offset()):] {
			if m.RecipientAddr == "" || m.RecipientAddr == v.Name {
				backlog++
			}
		}
		wit["backlog_addressed_to_the_victim"] = backlog
		if backlog < k.stopAfter+1 {
			c.Add("clean_stop_cases_without_a_batch_to_stop_in", 1)
			return
		}
		// the victim's real Poll(): stop requested right after the k-th acknowledgement
		var mu sync.Mutex
		acks := 0
		v.State.SetGate(func(op, key string, _ []byte) string {
			if op == "saveoffset" {
				mu.Lock()
				acks++
				if acks == k.stopAfter && v.Cancel != nil {
					v.Cancel()
				}
				mu.Unlock()
			}
			return ""
		})
		done := make(chan error, 1)
		go func() { done <- v.Svc.Poll() }()
		select {
		case <-done:
		case <-time.After(60 * time.Second):
			c.Inconclusive("clean stop: Poll() did not return after the stop was requested")
			return
		}
		v.State.SetGate(nil)
		c.Eval(1)
		c.Distinct(fmt.Sprintf("clean-stop|n%d|v%d|lag%d|after%d", k.n, k.victim, k.lagAt, k.stopAfter))
		c.Add("clean_stops_inside_a_batch", 1)
		offsetAtStop := int(v.Offset())
		if err := v.CrashRestart(w.Board, w.Dir); err != nil {
			c.Violate("C13/restart-fails", fmt.Sprintf("after a clean stop: %v", err), wit)
			return
		}
		if got := int(v.Offset()); got != offsetAtStop {
			c.Violate("C13/offset-after-restart-differs", fmt.Sprintf("saved %d, after restart %d (clean stop)", offsetAtStop, got), wit)
			return
		}
		wit["offset_at_stop"] = offsetAtStop
		_, q := w.Run(world.EagerPolicy, 8000)
		if !q || !ce.AllIn(StIdle) {
			c.Violate("C13/ceremony-does-not-reach-reference-outcome:clean-stop-inside-a-batch", fmt.Sprintf("after a clean stop requested inside a batch (offset %d at the stop) and a restart the key generation ends %v", offsetAtStop, ce.States()), wit)
			return
		}
		for _, nd := range w.Nodes {
			if int(nd.Offset()) != w.Board.Len() {
				c.Violate("C13/ceremony-does-not-reach-reference-outcome:clean-stop-inside-a-batch", fmt.Sprintf("%s ends at offset %d of %d", nd.Name, nd.Offset(), w.Board.Len()), wit)
			}
		}
	})
}
