package sched

import (
	"bytes"
	"runtime"
	"strconv"
	"sync"
	"time"
)

// Goid returns the current goroutine's id (parsed from runtime.Stack).
func Goid() int64 {
	b := make([]byte, 64)
	b = b[:runtime.Stack(b, false)]
	b = bytes.TrimPrefix(b, []byte("goroutine "))
	i := bytes.IndexByte(b, ' ')
	if i < 0 {
		return -1
	}
	n, _ := strconv.ParseInt(string(b[:i]), 10, 64)
	return n
}

// Baton is a controlled scheduler for two activities (0 and 1) running in goroutines of their own.
// Every instrumented call first asks for the baton (Point); the controller grants it according to
// a plan: run activity `First`, and pre-empt the running activity after Plan[0] of its points,
// then the other after Plan[1] of its points, ... When the plan is used up (or an activity ends)
// the running activity runs to completion, then the other.
//
// If the baton holder blocks inside the system under test (a real mutex held by the parked
// activity) a watchdog hands the baton back; this affects scheduling only, never a verdict.
type Baton struct {
	mu      sync.Mutex
	cond    *sync.Cond
	role    map[int64]int
	running int // who holds the baton
	done    [2]bool
	waiting [2]bool // parked at a point / at entry, waiting for the baton
	plan    []int
	segLeft int
	// Trace records the grant order: sequence of activity ids, one per granted point.
	Trace []byte
	// Points counts granted points per activity.
	Points [2]int
	// Preemptions actually performed according to the plan.
	Preemptions int
	// ForcedSwitches: hand-overs because the holder was blocked on a lock of the system under test.
	ForcedSwitches int
	progress       int64
	stop           chan struct{}
}

func NewBaton(first int, plan []int) *Baton {
	b := &Baton{role: map[int64]int{}, running: first, plan: append([]int{}, plan...), stop: make(chan struct{})}
	b.cond = sync.NewCond(&b.mu)
	b.nextSegment()
	go b.watchdog()
	return b
}

func (b *Baton) watchdog() {
	last := int64(-1)
	idle := 0
	for {
		select {
		case <-b.stop:
			return
		case <-time.After(time.Millisecond):
		}
		b.mu.Lock()
		if b.done[0] && b.done[1] {
			b.mu.Unlock()
			return
		}
		if b.progress == last {
			idle++
		} else {
			idle = 0
			last = b.progress
		}
		other := 1 - b.running
		if idle >= 4 && b.waiting[other] && !b.done[other] && !b.waiting[b.running] && !b.done[b.running] {
			b.ForcedSwitches++
			b.running = other
			b.progress++
			idle = 0
			b.cond.Broadcast()
		}
		b.mu.Unlock()
	}
}

// Stop ends the watchdog.
func (b *Baton) Stop() {
	b.mu.Lock()
	defer b.mu.Unlock()
	select {
	case <-b.stop:
	default:
		close(b.stop)
	}
}

func (b *Baton) nextSegment() {
	if len(b.plan) > 0 {
		b.segLeft = b.plan[0]
		b.plan = b.plan[1:]
	} else {
		b.segLeft = -1 // run to completion
	}
}

func (b *Baton) waitTurn(id int) {
	b.waiting[id] = true
	for b.running != id {
		b.cond.Wait()
	}
	b.waiting[id] = false
	b.progress++
}

// Enter registers the calling goroutine as activity id and waits for its first turn.
func (b *Baton) Enter(id int) {
	b.mu.Lock()
	b.role[Goid()] = id
	b.cond.Broadcast()
	b.waitTurn(id)
	b.mu.Unlock()
}

// Exit marks the activity finished and hands the baton over.
func (b *Baton) Exit(id int) {
	b.mu.Lock()
	b.done[id] = true
	b.progress++
	if b.running == id {
		b.running = 1 - id
	}
	b.cond.Broadcast()
	b.mu.Unlock()
}

// Point is a scheduling point of the calling goroutine. Goroutines that are not one of the two
// activities pass through.
func (b *Baton) Point() {
	b.mu.Lock()
	id, ok := b.role[Goid()]
	if !ok {
		b.mu.Unlock()
		return
	}
	b.waitTurn(id)
	// pre-empt before this point if the segment is used up and the other can still run
	if b.segLeft == 0 && !b.done[1-id] {
		b.Preemptions++
		b.running = 1 - id
		b.nextSegment()
		b.cond.Broadcast()
		b.waitTurn(id)
	} else if b.segLeft == 0 {
		b.nextSegment()
	}
	if b.segLeft > 0 {
		b.segLeft--
	}
	b.Trace = append(b.Trace, byte('0'+id))
	b.Points[id]++
	b.progress++
	b.mu.Unlock()
}
