package props

import (
	"os"
	"sync"
	"testing"

	"github.com/lidofinance/dc4bc/storage"

	"verifharness/world"
)

// Exploratory coverage-guided fuzzing of the message decoders behind ProcessMessage (not a registered
// check: Go's fuzzer is not seedable). Any crash it finds is turned into a deterministic mutant class
// of C18. Run: go test -tags verif -run '^$' -fuzz FuzzMessageData -fuzztime 2000000x ./props
var (
	fzOnce sync.Once
	fzRW   *refWorld
	fzAll  []storage.Message
	fzErr  error
)

func fzInit() {
	fzOnce.Do(func() {
		_ = os.Setenv("VERIF_WORK", "/verif/work/fuzz")
		world.RaiseFDLimit()
		fzRW, fzErr = buildRefWorld("honest+signing", 7, 3, 2)
		if fzErr == nil {
			fzAll = fzRW.Ce.W.Board.All()
		}
	})
}

func FuzzMessageData(f *testing.F) {
	fzInit()
	if fzErr != nil {
		f.Skip(fzErr)
	}
	for i, m := range fzAll {
		f.Add(uint16(i), uint8(i), m.Data)
	}
	f.Fuzz(func(t *testing.T, moment uint16, ev uint8, data []byte) {
		w := fzRW.Ce.W
		ms := fzRW.Rec.Moments
		m := ms[int(moment)%len(ms)]
		v := int(ev>>4) % len(w.Nodes)
		event := allEvents[int(ev&15)%len(allEvents)]
		sender := w.Nodes[(v+1)%len(w.Nodes)]
		msg := world.SignMsg(sender, fzRW.Ce.Round, event, data, "")
		msg.ID = "fuzz"
		_, _, pan := applyAt(w, m, v, msg)
		if pan != nil {
			t.Fatalf("ProcessMessage panicked on event %s at moment %d (%s): %v", event, m.Step, m.Desc, pan)
		}
	})
}
