// Package oracle holds the independent judges: prysm/blst BLS verification, public projections
// of FSM dumps, and the SSZ reference.
package oracle

import (
	"fmt"

	"github.com/corestario/kyber"
	"github.com/corestario/kyber/pairing/bls12381"
	"github.com/corestario/kyber/share"
	prysmBLS "github.com/prysmaticlabs/prysm/v3/crypto/bls"
)

// VerifyG2 judges a 96-byte signature over msg under a 48-byte compressed G1 public key with
// prysm's blst backend (independent of kyber).
func VerifyG2(pk48, msg, sig96 []byte) (bool, error) {
	pk, err := prysmBLS.PublicKeyFromBytes(pk48)
	if err != nil {
		return false, fmt.Errorf("pubkey: %w", err)
	}
	sig, err := prysmBLS.SignatureFromBytes(sig96)
	if err != nil {
		return false, fmt.Errorf("signature: %w", err)
	}
	return sig.Verify(pk, msg), nil
}

// NewSuite returns a fresh plain (unseeded) kyber suite; the pairing engine inside a suite is not
// goroutine-safe, so oracles never share one.
func NewSuite() *bls12381.Suite { return bls12381.NewBLS12381Suite(nil).(*bls12381.Suite) }

func PointBytes(p kyber.Point) []byte {
	b, err := p.MarshalBinary()
	if err != nil {
		panic(err)
	}
	return b
}

// CommitsBytes returns the marshalled commitments of a public polynomial.
func CommitsBytes(p *share.PubPoly) [][]byte {
	_, cs := p.Info()
	out := make([][]byte, len(cs))
	for i, c := range cs {
		out[i] = PointBytes(c)
	}
	return out
}
