package props

import (
	"bytes"
	"fmt"
	"path/filepath"
	"time"

	"github.com/lidofinance/dc4bc/airgapped"
	"github.com/lidofinance/dc4bc/client/types"

	"verifharness/oracle"
	"verifharness/sched"
	"verifharness/world"
)

// C04, real-process part: "stored only encrypted under the operator's password" is a statement about what
// the operator's machine - the cmd/airgapped binary, password typed at its prompt - leaves on disk. One
// participant's machine is that binary on a pseudo-terminal (password entered and confirmed at the prompt,
// set_seed, the operations of a whole ceremony through read_operation, exit; in a second run the binary is
// restarted in the middle, so that the password is entered a second time on an existing database). Its
// database files are then opened in-process under wrong passwords (nil, empty, runs of zero bytes,
// near-misses: must fail) and the operator's (must work).
func init() {
	ChildParts["c04proc"] = c04RealBinary
}

func c04RealBinary(c *Ctx, progress func(string)) {
	if world.AirgappedBin() == "" {
		c.Note("real-binary part skipped: no dc4bc_airgapped binary")
		return
	}
	airgapped.N = 1 << 16 // the shipped scrypt cost
	c04SetSeedAfterExpiry(c, progress)
	n, t, victim := 2, 2, 1
	for ri, restartBefore := range []string{"", OpResponses} {
		seed := c.Seed*227 + uint64(ri)
		progress(fmt.Sprintf("ceremony with the real airgapped binary (restart before %q)", restartBefore))
		wit := map[string]interface{}{"family": "real cmd/airgapped process; database judged from outside", "n": n, "t": t, "victim": victim, "restarted_before": restartBefore, "case_seed": seed}
		w, err := world.NewWorld(world.Options{N: n, T: t, Seed: seed})
		if err != nil {
			c.Inconclusive("world: %v", err)
			return
		}
		func() {
			defer w.Close()
			nd := w.Nodes[victim]
			pm := world.NewProcMachine(filepath.Join(w.Dir, fmt.Sprintf("c04proc_%d", ri)), world.Password)
			defer pm.Kill()
			if err := pm.Start(); err != nil {
				c.Inconclusive("real-binary part: start: %v", err)
				return
			}
			if err := pm.SetSeed(nd.Mnemonic); err != nil {
				c.Inconclusive("real-binary part: set_seed: %v", err)
				return
			}
			pub, err := pm.PubKey()
			if err != nil {
				c.Inconclusive("real-binary part: show_dkg_pubkey: %v", err)
				return
			}
			if want := oracle.PointBytes(nd.Cold.GetPubKey()); !bytes.Equal(pub, want) {
				c.Inconclusive("real-binary part: the binary derives another long-term key than the in-process machine (C12's subject)")
				return
			}
			nd.Proc, nd.ColdPub = pm, pub
			ce := &Ceremony{W: w, N: n, T: t}
			done := false
			if restartBefore != "" {
				w.ColdHook = func(x *world.Node, op *types.Operation) (*types.Operation, error) {
					if x.Idx != victim || string(op.Type) != restartBefore || done {
						return nil, nil
					}
					done = true
					pm.Exit()
					if err := pm.Start(); err != nil {
						return nil, fmt.Errorf("restart of the binary: %w", err)
					}
					if _, err := pm.Replay(ce.Round); err != nil {
						return nil, fmt.Errorf("replay_operations_log: %w", err)
					}
					return nil, nil
				}
			}
			if ce.Round, err = w.StartDKG(0, t, now()); err != nil {
				c.Inconclusive("real-binary part: start of the round: %v", err)
				return
			}
			_, q := w.Run(world.EagerPolicy, 6000)
			c.Eval(1)
			c.Distinct(fmt.Sprintf("real-binary|restart-before-%q", restartBefore))
			if !q || !ce.AllIn(StIdle) {
				c.Inconclusive("real-binary part: the ceremony does not finish: %v", ce.States())
				return
			}
			if ri == 1 {
				// two more rounds, each completed in a process life of its own (the operator switches the machine
				// off between ceremonies): every life seals a keyring
				w.ColdHook = nil
				for extra := 0; extra < 2; extra++ {
					pm.Exit()
					if err := pm.Start(); err != nil {
						c.Inconclusive("real-binary part: restart between rounds: %v", err)
						return
					}
					ce2 := &Ceremony{W: w, N: n, T: t}
					if ce2.Round, err = w.StartDKG(0, t, now().Add(time.Duration(extra+1)*time.Second)); err != nil {
						c.Inconclusive("real-binary part: start of round %d: %v", extra+2, err)
						return
					}
					if _, q := w.Run(world.EagerPolicy, 6000); !q || !ce2.AllIn(StIdle) {
						c.Inconclusive("real-binary part: round %d does not finish: %v", extra+2, ce2.States())
						return
					}
					c.Add("rounds_completed_in_a_process_life_of_their_own", 1)
				}
				wit["rounds_on_this_database"] = 3
			}
			pm.Exit()
			judgeSecretsIn(c, w.Dir, pm.DBPath, "the cmd/airgapped binary's database", sched.Derive(seed, 405), wit)
			c.Add("ceremonies_with_the_real_airgapped_binary", 1)
		}()
	}
}

// c04SetSeedAfterExpiry: the real binary with a short password lifetime. The operator enters the password,
// lets it expire (the machine drops its keys from memory) and then runs set_seed, answering every question
// the machine asks; then exit. The database must hold the new long-term key under the operator's password
// and under nothing else (judged from outside like every other database of this check).
func c04SetSeedAfterExpiry(c *Ctx, progress func(string)) {
	for ri, expiry := range []string{"1s", "1500ms"} {
		seed := c.Seed*229 + uint64(ri)
		progress("set_seed on the real airgapped binary after the password expired")
		wit := map[string]interface{}{"family": "real cmd/airgapped process; set_seed after the password expired", "password_expiration": expiry, "case_seed": seed}
		w, err := world.NewWorld(world.Options{N: 2, T: 2, Seed: seed})
		if err != nil {
			c.Inconclusive("world: %v", err)
			return
		}
		func() {
			defer w.Close()
			pm := world.NewProcMachine(filepath.Join(w.Dir, fmt.Sprintf("c04expired_%d", ri)), world.Password)
			pm.Expiry = expiry
			defer pm.Kill()
			if err := pm.Start(); err != nil {
				c.Inconclusive("expired-password part: start: %v", err)
				return
			}
			if ri == 1 {
				// a seed was already set while the password was valid
				if _, err := pm.SetSeedByPrompt(w.Nodes[0].Mnemonic); err != nil {
					c.Inconclusive("expired-password part: first set_seed: %v", err)
					return
				}
			}
			time.Sleep(3 * time.Second) // lets the expiry timer fire; nothing is decided on this duration
			asked, err := pm.SetSeedByPrompt(w.Nodes[1].Mnemonic)
			if err != nil {
				c.Inconclusive("expired-password part: set_seed: %v", err)
				return
			}
			if asked {
				c.Add("set_seed_commands_that_asked_for_the_expired_password_first", 1)
			}
			wit["machine_asked_for_the_password_before_set_seed"] = asked
			pm.Exit()
			c.Eval(1)
			c.Distinct(fmt.Sprintf("real-binary|set_seed-after-expiry|%s|asked=%v", expiry, asked))
			judgeSecretsIn(c, w.Dir, pm.DBPath, "the cmd/airgapped binary's database after set_seed on an expired password", sched.Derive(seed, 406), wit)
			c.Add("set_seed_after_password_expiry_on_the_real_binary", 1)
		}()
	}
}
