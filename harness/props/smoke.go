package props

import (
	"fmt"
	"time"

	"verifharness/world"
)

func init() {
	Register("SMOKE", "exploration", func(c *Ctx) {
		t0 := time.Now()
		w, err := world.NewWorld(world.Options{N: 3, T: 2, Seed: c.Seed})
		if err != nil {
			panic(err)
		}
		defer w.Close()
		round, err := w.StartDKG(0, 2, time.Now().UTC())
		if err != nil {
			panic(err)
		}
		steps, q := w.Run(world.EagerPolicy, 500)
		fmt.Fprintf(Out, "dkg: steps=%d quiescent=%v board=%d in %v\n", steps, q, w.Board.Len(), time.Since(t0))
		for _, n := range w.Nodes {
			inst, err := n.FSM.GetFSMInstance(round, false)
			if err != nil {
				panic(err)
			}
			st, _ := inst.State()
			fmt.Fprintf(Out, "%s state=%s\n", n.Name, st)
		}
		t0 = time.Now()
		if err := w.ProposeSign(0, round, map[string][]byte{"f1": []byte("hello"), "f2": []byte("world")}, nil); err != nil {
			panic(err)
		}
		steps, q = w.Run(world.EagerPolicy, 500)
		fmt.Fprintf(Out, "sign: steps=%d quiescent=%v board=%d in %v\n", steps, q, w.Board.Len(), time.Since(t0))
		c.Eval(1)
		c.Distinct("a")
		c.Distinct("b")
	})
}
