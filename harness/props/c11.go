package props

import (
	"encoding/json"
	"fmt"
	"strings"
	"sync"
	"time"

	"github.com/corestario/kyber"
	"github.com/corestario/kyber/encrypt/ecies"
	dkgPedersen "github.com/corestario/kyber/share/dkg/pedersen"
	"github.com/corestario/kyber/sign/schnorr"
	"lukechampine.com/frand"

	"github.com/lidofinance/dc4bc/client/types"
	"github.com/lidofinance/dc4bc/fsm/types/requests"
	"github.com/lidofinance/dc4bc/storage"

	"verifharness/oracle"
	"verifharness/world"
)

// C11: a dealer whose private deal contradicts its public commitments is caught.
func init() { Register("C11", "exploration", checkC11) }

var c11Kinds = []string{"deal-bitflip", "deal-truncated", "deal-10-bytes", "deal-1-byte", "deal-9-bytes", "deal-to-wrong-key", "deal-from-other-polynomial", "deal-share-off-polynomial", "commitments-shortened", "commitments-lengthened", "commitments-constant-term-replaced", "commitments-second-term-replaced", "commitments-top-term-replaced", "response-turned-into-complaint", "response-turned-into-signed-complaint"}

func checkC11(c *Ctx) {
	c.Rule = "full key generations in which the operator driver rewrites one dealer's result between its machine and its node: deal ciphertext bit-flipped / truncated / cut to 10 bytes, deal re-encrypted to another participant's key, a self-consistent deal from a second kyber dealer with the dealer's long-term key but fresh coefficients, broadcast commitment list shortened / lengthened / one term (constant, second, top) replaced by another valid point, a response turned into a complaint; every (dealer, victim) pair, all (n,t) with n<=3 (quick) / n<=4 (thorough), random delivery. Oracle at quiescence: the victim's machine answered the responses step with the error event, no node is signing-ready and every node is in a cancelled state, no machine stores a keyring for the round; on any signing-ready round the C02 invariant must hold. A third of the runs: the victim's operations are stamped two minutes ahead of the other nodes' clocks. Every call into a machine runs under the hang observation (a machine that never answers is a violation). Honest control runs must reach signing-ready. distinct = distinct (n,t,kind,dealer,victim)"
	c.Assumptions = []string{"the victim's long-term key is re-derived from its mnemonic (validated against GetPubKey) to re-encrypt deals", "kyber's own dealer is used to build the contradicting deal"}
	type job struct {
		n, t, D, V int
		kind       string
	}
	var jobs []job
	for _, nt := range ntCases(c.Pick(4, 5)) {
		for _, k := range c11Kinds {
			for D := 0; D < nt.N; D++ {
				for V := 0; V < nt.N; V++ {
					if V == D {
						continue
					}
					if (strings.HasPrefix(k, "commitments-") || k == "response-turned-into-complaint" || k == "response-turned-into-signed-complaint") && V != (D+1)%nt.N {
						continue // these deviations are broadcast: one run per dealer
					}
					jobs = append(jobs, job{nt.N, nt.T, D, V, k})
				}
			}
		}
		jobs = append(jobs, job{nt.N, nt.T, -1, -1, "honest-control"})
	}
	Parallel(len(jobs), 16, func(i int) {
		jb := jobs[i]
		runC11(c, jb.n, jb.t, jb.D, jb.V, jb.kind, c.Seed*97+uint64(i))
	})
}

func runC11(c *Ctx, n, t, D, V int, kind string, seed uint64) {
	wit := map[string]interface{}{"n": n, "t": t, "dealer": D, "victim": V, "kind": kind, "case_seed": seed}
	w, err := world.NewWorld(world.Options{N: n, T: t, Seed: seed, OddNames: seed%4 == 1})
	if err != nil {
		c.Inconclusive("world: %v", err)
		return
	}
	ce := &Ceremony{W: w, N: n, T: t}
	defer ce.Close()
	if seed%2 == 0 && V >= 0 && V < n {
		// the board is unreachable when the victim's node posts its first error report; the operator submits
		// the same result file again (the driver retries a refused submission): the report must still get out
		outage := false
		w.Nodes[V].NB.FailSendIf = func(msgs []storage.Message) error {
			for _, m := range msgs {
				if !outage && strings.HasSuffix(m.Event, "_canceled_by_error") {
					outage = true
					c.Add("error_reports_first_posted_during_a_board_outage", 1)
					return fmt.Errorf("board unreachable (injected)")
				}
			}
			return nil
		}
		wit["board_outage_at_the_victims_first_error_report"] = true
	}
	var mu sync.Mutex
	resultEvents := map[string]string{} // "<node>/<optype>" -> result event
	applied := false
	accused := -1
	suite := oracle.NewSuite()
	pubKeys := make([]kyber.Point, n)
	for i, nd := range w.Nodes {
		pubKeys[i] = nd.Cold.GetPubKey()
	}
	w.ResultHook = func(nd *world.Node, req, res *types.Operation) *types.Operation {
		mu.Lock()
		resultEvents[fmt.Sprintf("%d/%s", nd.Idx, req.Type)] = string(res.Event)
		mu.Unlock()
		// the victim's operator reads the same responses operation a second time on the running machine
		// (a second scan of the same file): the verdict on the deal must not change
		if nd.Idx == V && string(req.Type) == OpResponses && len(kind) > 4 && kind[:4] == "deal" && string(res.Event) == EvResponseErr {
			if res2, err := w.ColdResult(nd, req, false); err == nil {
				mu.Lock()
				resultEvents["second-reading"] = string(res2.Event)
				mu.Unlock()
			}
		}
		if nd.Idx != D {
			return res
		}
		switch {
		case string(req.Type) == OpDeals && len(kind) > 4 && kind[:4] == "deal":
			for i := range res.ResultMsgs {
				m := &res.ResultMsgs[i]
				if m.RecipientAddr != w.Nodes[V].Name {
					continue
				}
				var r requests.DKGProposalDealConfirmationRequest
				if json.Unmarshal(m.Data, &r) != nil {
					continue
				}
				switch kind {
				case "deal-bitflip":
					r.Deal[len(r.Deal)/2] ^= 0x10
				case "deal-truncated":
					r.Deal = r.Deal[:len(r.Deal)/2]
				case "deal-10-bytes":
					r.Deal = r.Deal[:10]
				case "deal-1-byte":
					r.Deal = r.Deal[:1]
				case "deal-9-bytes":
					r.Deal = r.Deal[:9]
				case "deal-to-wrong-key":
					skV := oracle.LongTermKey(oracle.SeedFromMnemonic(w.Nodes[V].Mnemonic))
					if !suite.Point().Mul(skV, nil).Equal(pubKeys[V]) {
						c.Inconclusive("victim key re-derivation does not validate")
						return res
					}
					plain, err := ecies.Decrypt(suite, skV, r.Deal, suite.Hash)
					if err != nil {
						c.Inconclusive("cannot open the genuine deal: %v", err)
						return res
					}
					other := (V + 1) % n
					if other == D {
						other = (other + 1) % n
					}
					if other == V { // n == 2: encrypt to the dealer's own key
						other = D
					}
					r.Deal, _ = ecies.Encrypt(suite, pubKeys[other], plain, suite.Hash)
				case "deal-from-other-polynomial":
					skD := oracle.LongTermKey(oracle.SeedFromMnemonic(w.Nodes[D].Mnemonic))
					gen, err := dkgPedersen.NewDistKeyGenerator(suite, skD, pubKeys, t, frand.NewCustom(oracle.SeedFromMnemonic(fmt.Sprintf("other-polynomial-%d", seed)), 32, 20))
					if err != nil {
						c.Inconclusive("second dealer: %v", err)
						return res
					}
					deals, err := gen.Deals()
					if err != nil || deals[V] == nil {
						c.Inconclusive("second dealer deals: %v", err)
						return res
					}
					bz, _ := json.Marshal(deals[V])
					r.Deal, _ = ecies.Encrypt(suite, pubKeys[V], bz, suite.Hash)
				}
				m.Data, _ = json.Marshal(r)
				applied = true
			}
		case string(req.Type) == OpCommits && strings.HasPrefix(kind, "commitments-"):
			var r requests.DKGProposalCommitConfirmationRequest
			if len(res.ResultMsgs) == 1 && json.Unmarshal(res.ResultMsgs[0].Data, &r) == nil {
				var cs [][]byte
				if json.Unmarshal(r.Commit, &cs) == nil && len(cs) > 0 {
					switch kind {
					case "commitments-shortened":
						cs = cs[:len(cs)-1]
					case "commitments-lengthened":
						cs = append(cs, cs[0])
					case "commitments-constant-term-replaced":
						// one term of the broadcast list replaced by another valid point: same length,
						// every element decodes, only the comparison term by term can tell
						cs[0] = cs[len(cs)-1]
					case "commitments-second-term-replaced":
						cs[1%len(cs)] = cs[0]
					case "commitments-top-term-replaced":
						cs[len(cs)-1] = cs[0]
					}
					r.Commit, _ = json.Marshal(cs)
					res.ResultMsgs[0].Data, _ = json.Marshal(r)
					applied = true
				}
			}
		case string(req.Type) == OpResponses && kind == "response-turned-into-signed-complaint":
			// a well-formed complaint: the deviating participant re-signs its response about another dealer
			// with its own long-term key after flipping the verdict
			var r requests.DKGProposalResponseConfirmationRequest
			if len(res.ResultMsgs) == 1 && json.Unmarshal(res.ResultMsgs[0].Data, &r) == nil {
				var rs []*dkgPedersen.Response
				if json.Unmarshal(r.Response, &rs) == nil && len(rs) > 0 && rs[0] != nil && rs[0].Response != nil {
					skD := oracle.LongTermKey(oracle.SeedFromMnemonic(w.Nodes[D].Mnemonic))
					accused = int(rs[0].Index)
					rs[0].Response.Status = false
					if sig, err := schnorr.Sign(suite, skD, rs[0].Response.Hash(suite)); err == nil {
						rs[0].Response.Signature = sig
						r.Response, _ = json.Marshal(rs)
						res.ResultMsgs[0].Data, _ = json.Marshal(r)
						applied = true
					}
				}
			}
		case string(req.Type) == OpResponses && kind == "response-turned-into-complaint":
			var r requests.DKGProposalResponseConfirmationRequest
			if len(res.ResultMsgs) == 1 && json.Unmarshal(res.ResultMsgs[0].Data, &r) == nil {
				var rs []map[string]interface{}
				if json.Unmarshal(r.Response, &rs) == nil && len(rs) > 0 {
					if inner, ok := rs[0]["Response"].(map[string]interface{}); ok {
						inner["Status"] = false
						r.Response, _ = json.Marshal(rs)
						res.ResultMsgs[0].Data, _ = json.Marshal(r)
						applied = true
					}
				}
			}
		}
		return res
	}
	if kind == "deal-share-off-polynomial" {
		// the deal carries exactly the commitments the dealer broadcast, but the share inside is not on that
		// polynomial: only kyber's own verification of the share can notice
		w.ColdHook = func(nd *world.Node, op *types.Operation) (*types.Operation, error) {
			if nd.Idx == D && string(op.Type) == OpDeals && !applied {
				if err := world.TamperDealerShare(nd.Cold, op.DKGIdentifier, V); err != nil {
					c.Inconclusive("cannot tamper with the dealer's share: %v", err)
				} else {
					applied = true
				}
			}
			return nil, nil
		}
	}
	if seed%3 == 1 && V >= 0 && V < n {
		// the victim's hot node runs with a clock two minutes ahead of the others (a fast clock, another
		// time zone setting): every operation its machine reads - and so the error report it builds - carries
		// a time the other nodes have not reached yet. What a node does with a report may not depend on its
		// own wall clock.
		prev := w.ColdHook
		w.ColdHook = func(nd *world.Node, op *types.Operation) (*types.Operation, error) {
			if nd.Idx == V {
				op.CreatedAt = op.CreatedAt.Add(2 * time.Minute)
			}
			if prev != nil {
				return prev(nd, op)
			}
			return nil, nil
		}
		wit["victims_operations_stamped_two_minutes_ahead"] = true
		c.Add("runs_with_the_victims_clock_ahead", 1)
	}
	if V >= 0 && V < n {
		// the victim's machine must ANSWER the operation that carries the bad deal (with its error report): a
		// call that never returns is observed (goroutine parked on a mutex for good) and reported
		prev := w.ColdHook
		hangs := map[int]bool{}
		w.ColdHook = func(nd *world.Node, op *types.Operation) (*types.Operation, error) {
			if prev != nil {
				if r, err := prev(nd, op); r != nil || err != nil {
					return r, err
				}
			}
			if hangs[nd.Idx] {
				return nil, fmt.Errorf("the machine of %s does not answer", nd.Name)
			}
			var r *types.Operation
			var err error
			hung, stk := runOrHang(func() { r, err = w.ColdResult(nd, op, world.UseOpLog) })
			if hung {
				hangs[nd.Idx] = true
				hw := map[string]interface{}{"case": wit, "stack": trunc(stk, 1500)}
				c.Violate("C11/machine-never-answers", fmt.Sprintf("after %s by dealer %d the machine of participant %d never returns from its %s operation (parked on a mutex for good): no error report can be produced", kind, D, nd.Idx, op.Type), hw)
				return nil, fmt.Errorf("the machine of %s does not answer", nd.Name)
			}
			return r, err
		}
	}
	ce.Round, err = w.StartDKG(0, t, now())
	if err != nil {
		c.Inconclusive("start: %v", err)
		return
	}
	_, q := w.Run(world.RandomPolicy, 6000)
	c.Eval(1)
	c.Distinct(fmt.Sprintf("n%d t%d %s D%d V%d", n, t, kind, D, V))
	if !q {
		c.Inconclusive("no quiescence for %v", wit)
		return
	}
	states := ce.States()
	wit["states"] = states
	if kind == "honest-control" {
		if !ce.AllIn(StIdle) {
			c.Violate("C11/honest-control-not-signing-ready", fmt.Sprint(states), wit)
		}
		c.Add("honest_controls", 1)
		return
	}
	if !applied {
		c.Inconclusive("deviation %s never applied (%v)", kind, wit)
		return
	}
	ready := 0
	for _, s := range states {
		if s == StIdle {
			ready++
		}
	}
	if kind == "response-turned-into-signed-complaint" {
		// a false complaint: every deal was consistent, so the statement's antecedent (a bad deal) is not met
		// and the round may even complete (the accused dealer justifies itself). What must still hold: the
		// nodes agree; a completed round satisfies the C02 invariant; in a cancelled round no bystander (neither
		// the complainer nor the accused dealer) is left holding a key share.
		if ready == n {
			if judgeKeyMaterial(c, ce, "C11", wit) {
				c.Add("false_complaint_rounds_completed_consistently", 1)
			}
			return
		}
		if ready > 0 {
			c.Violate("C11/nodes-disagree-after-a-complaint", fmt.Sprint(states), wit)
			return
		}
		for _, nd := range w.Nodes {
			if nd.Idx == D || nd.Idx == accused {
				continue
			}
			if kr, err := Keyring(nd, ce.Round); err == nil && kr != nil {
				c.Violate("C11/keyring-stored-for-cancelled-round", fmt.Sprintf("bystander %s stores a key share for the round, which was cancelled after participant %d's signed complaint about dealer %d", nd.Name, D, accused), wit)
			}
		}
		c.Add("false_complaint_rounds_cancelled", 1)
		return
	}
	if ready > 0 {
		// the converse half of the property: signing-ready only with consistent deals
		c.Violate("C11/signing-ready-despite-inconsistent-deal", fmt.Sprintf("%d node(s) signing-ready although dealer %d deviated (%s)", ready, D, kind), wit)
		judgeKeyMaterial(c, ce, "C11", wit)
		return
	}
	for i, s := range states {
		if !isCancelled(s) {
			c.Violate("C11/round-not-cancelled-on-every-node", fmt.Sprintf("node_%d ends in %s after %s by dealer %d", i, s, kind, D), wit)
			break
		}
	}
	if len(kind) > 4 && kind[:4] == "deal" {
		if ev := resultEvents[fmt.Sprintf("%d/%s", V, OpResponses)]; ev != EvResponseErr {
			c.Violate("C11/victim-did-not-report-an-error", fmt.Sprintf("victim %d answered the responses step with %q after %s", V, ev, kind), wit)
		}
	}
	if ev, ok := resultEvents["second-reading"]; ok {
		c.Add("responses_operations_read_a_second_time", 1)
		if ev != EvResponseErr {
			c.Violate("C11/victim-approves-the-deal-on-second-reading", fmt.Sprintf("victim %d refused the responses step after %s, but reading the same operation again on the running machine yields %q", V, kind, ev), wit)
		}
	}
	for _, nd := range w.Nodes {
		if nd.Idx == D {
			continue // the property speaks about honest participants; the deviating dealer's own machine saw nothing wrong
		}
		kr, err := Keyring(nd, ce.Round)
		if err != nil {
			c.Inconclusive("keyrings of %s: %v", nd.Name, err)
			continue
		}
		if kr != nil {
			c.Violate("C11/keyring-stored-for-cancelled-round", fmt.Sprintf("%s stores a key share for the round although it was cancelled (%s)", nd.Name, kind), wit)
		}
	}
	c.Add("deviations_caught", 1)
	if D == 0 && V == 1 {
		c.Sample(wit)
	}
}
