package props

import (
	"bytes"
	"encoding/hex"
	"encoding/json"
	"fmt"
	"io"
	"net"
	"net/http"
	"os"
	"path/filepath"
	"runtime/debug"
	"strings"
	"time"

	"github.com/lidofinance/dc4bc/client/api/http_api"
	"github.com/lidofinance/dc4bc/client/config"
	"github.com/lidofinance/dc4bc/client/services"
	"github.com/lidofinance/dc4bc/client/types"
	"github.com/lidofinance/dc4bc/storage"

	"verifharness/sched"
	"verifharness/world"
)

// ---- part B: operation files fed to the airgapped machine ----

type recordedOp struct {
	Machine int
	Op      types.Operation
}

func c18Machine(seed uint64, budget int, lg *caseLog) c18Report {
	rep := c18Report{Part: "machine"}
	world.UseOpLog = true
	defer func() { world.UseOpLog = false }()
	w, err := world.NewWorld(world.Options{N: 3, T: 2, Seed: seed})
	if err != nil {
		rep.Notes = append(rep.Notes, err.Error())
		return rep
	}
	defer w.Close()
	ce := &Ceremony{W: w, N: 3, T: 2}
	var recs []recordedOp
	w.ResultHook = func(n *world.Node, req, res *types.Operation) *types.Operation {
		recs = append(recs, recordedOp{n.Idx, *req})
		return res
	}
	ce.Round, err = w.StartDKG(0, 2, now())
	if err != nil {
		rep.Notes = append(rep.Notes, err.Error())
		return rep
	}
	w.Run(world.EagerPolicy, 4000)
	if !ce.AllIn(StIdle) {
		rep.Notes = append(rep.Notes, fmt.Sprint("reference ceremony: ", ce.States()))
		return rep
	}
	if _, err := ce.RunBatch(BatchSpec{Proposer: 0, Data: map[string][]byte{"f": []byte("x")}}, world.EagerPolicy); err != nil {
		rep.Notes = append(rep.Notes, err.Error())
		return rep
	}
	w.ResultHook = nil
	// the reinitialisation operation of a fresh machine (same mnemonic) is attacked as well
	var reinitOps []recordedOp
	if re, _, err := ReinitFrom(ce, seed+5, nil, world.EagerPolicy); err == nil {
		for i, nd := range re.W.Nodes {
			bz, _ := nd.State.Get(world.Topic + "_deleted_operations")
			var ops map[string]*types.Operation
			_ = json.Unmarshal(bz, &ops)
			for _, o := range ops {
				if string(o.Type) == EvReinit {
					req := *o
					req.Event, req.ResultMsgs, req.ExtraData = "", nil, nil
					reinitOps = append(reinitOps, recordedOp{i, req})
				}
			}
		}
		re.Close()
	} else {
		rep.Notes = append(rep.Notes, "reinit for the machine part: "+err.Error())
	}
	r := sched.Derive(seed, 182)
	distinct := map[string]bool{}
	seenFinding := map[string]bool{}
	report := func(key, what string, wit map[string]interface{}) {
		if !seenFinding[key] {
			seenFinding[key] = true
			rep.Findings = append(rep.Findings, c18Finding{key, what, wit})
		}
	}
	cloneSeq := 0
	buildClone := func(mi int, upto int) (*world.Node, string, error) {
		cloneSeq++
		dir := filepath.Join(w.Dir, fmt.Sprintf("clone-%d", cloneSeq), "db")
		if err := os.MkdirAll(filepath.Dir(dir), 0o755); err != nil {
			return nil, "", err
		}
		am, err := world.OpenCold(dir, w.Nodes[mi].Mnemonic, world.Password)
		if err != nil {
			return nil, "", err
		}
		cnt := 0
		for _, rc := range recs {
			if rc.Machine != mi {
				continue
			}
			if cnt >= upto {
				break
			}
			cnt++
			if rc.Op.IsSigningState() {
				continue
			}
			if _, err := am.ProcessOperation(rc.Op, true); err != nil {
				return nil, "", fmt.Errorf("clone replay: %w", err)
			}
		}
		nd := &world.Node{Idx: mi, Name: w.Nodes[mi].Name, ColdDir: dir}
		nd.Cold = am
		return nd, dir, nil
	}
	mi := 1 // one participant's machine is enough: all run the same code
	k := 0
	for _, rc := range recs {
		if rc.Machine != mi {
			continue
		}
		idx := k
		k++
		var muts []mutant2
		second := 0
		if budget > 1000 {
			second = 40
		}
		for _, jm := range mutateJSONDeep(rc.Op.Payload, r, budget, second) {
			o := rc.Op
			o.Payload = jm.Data
			muts = append(muts, mutant2{"payload:" + jm.Label, o})
		}
		if string(rc.Op.Type) == OpSigning {
			var pl map[string]interface{}
			if json.Unmarshal(rc.Op.Payload, &pl) == nil {
				for _, rg := range hostileRanges {
					tasks, _ := json.Marshal([]interface{}{map[string]interface{}{"MessageID": "r", "RangeStart": rg[0], "RangeEnd": rg[1]}})
					pl["SrcPayload"] = tasks
					o := rc.Op
					o.Payload, _ = json.Marshal(pl)
					muts = append(muts, mutant2{fmt.Sprintf("payload:hostile-range:[%d,%d)", rg[0], rg[1]), o})
				}
			}
		}
		// (short and non-ASCII identifiers: file names are cut from them - a multi-byte character across the
		// cut, at the very end, invalid UTF-8, path separators)
		for _, id := range []string{"", "ab", "abcd", strings.Repeat("z", 4000), "abcd\u00e9", "\u20ac\u20ac", "\u00e9\u00e9\u00e9", "abc\xff", "\xff\xfe", "abcde\u00e9", "ab/cd", "..", "a\x00b"} {
			o := rc.Op
			o.DKGIdentifier = id
			muts = append(muts, mutant2{"dkgid:" + trunc(id, 6), o})
			o = rc.Op
			o.ID = id
			muts = append(muts, mutant2{"opid:" + trunc(id, 6), o})
		}
		for _, ty := range []string{"", "bogus", "reinit_dkg", OpConfirm, "state_signing_partial_signs_collected", OpCommits, OpDeals, OpResponses, OpMasterKey, OpSigning} {
			o := rc.Op
			o.Type = types.OperationType(ty)
			muts = append(muts, mutant2{"type:" + ty, o})
		}
		var clone *world.Node
		var cdir string
		sinceClone := 0
		hangsSeen := 0
		for _, mu := range muts {
			if clone == nil || sinceClone >= 20 || idx == 0 {
				if clone != nil {
					clone.CloseHandles()
				}
				clone, cdir, err = buildClone(mi, idx)
				if err != nil {
					rep.Notes = append(rep.Notes, err.Error())
					rep.Done = true
					return rep
				}
				sinceClone = 0
			}
			sinceClone++
			lg.begin(fmt.Sprintf("machine step=%d type=%s %s", idx, rc.Op.Type, mu.Label))
			rep.Cases++
			before, _ := world.DumpLevelDB(cdir)
			var pan interface{}
			var stack string
			var perr error
			cold := clone.Cold
			hung, hstack := runOrHang(func() {
				defer func() {
					if x := recover(); x != nil {
						pan = x
						stack = string(debug.Stack())
					}
				}()
				_, perr = cold.ProcessOperation(mu.Op, true)
			})
			if hung {
				report("C18/processing-never-ends:Machine.ProcessOperation", fmt.Sprintf("Machine.ProcessOperation does not return for %s of a %s operation: its goroutine is parked on a mutex for good (after the earlier operations fed to this machine)", mu.Label, rc.Op.Type), map[string]interface{}{"step": idx, "operation_type": string(rc.Op.Type), "mutation": mu.Label, "operations_fed_to_this_machine_before": sinceClone - 1, "stack": trunc(hstack, 1800)})
				clone = nil // the machine (and its database handle) cannot be used or closed any more
				hangsSeen++
				if hangsSeen >= 3 {
					break // reported; every further hang costs seconds of observation
				}
				continue
			}
			cls := mu.Label
			if i := strings.Index(cls, ":"); i > 0 {
				if j := strings.Index(cls[i+1:], ":"); j > 0 {
					cls = cls[:i+1+j]
				}
			}
			distinct[fmt.Sprintf("machine|%s|%s", rc.Op.Type, cls)] = true
			wit := map[string]interface{}{"step": idx, "operation_type": string(rc.Op.Type), "mutation": mu.Label, "payload": trunc(string(mu.Op.Payload), 300), "dkg_id": trunc(mu.Op.DKGIdentifier, 70), "op_id": trunc(mu.Op.ID, 40), "type": string(mu.Op.Type)}
			if pan != nil {
				wit["stack"] = trunc(stack, 1800)
				report("C18/panic-in-Machine.ProcessOperation:"+topRepoFrame(stack), fmt.Sprintf("Machine.ProcessOperation panicked on %s of a %s operation: %v", mu.Label, rc.Op.Type, pan), wit)
				clone.CloseHandles()
				clone = nil
				continue
			}
			if perr != nil {
				after, _ := world.DumpLevelDB(cdir)
				if diff := world.DiffMaps(before, after); len(diff) > 0 {
					report("C18/rejected-operation-changed-machine-database", fmt.Sprintf("ProcessOperation returned an error for %s of %s but the machine database changed: %v", mu.Label, rc.Op.Type, diff), wit)
				}
			}
		}
		if clone != nil {
			clone.CloseHandles()
		}
	}
	for _, rc := range reinitOps {
		if rc.Machine != mi {
			continue
		}
		for _, jm := range mutateJSON(rc.Op.Payload, r, budget) {
			o := rc.Op
			o.Payload = jm.Data
			clone, cdir, err := buildClone(mi, 0)
			if err != nil {
				break
			}
			lg.begin("machine reinit " + jm.Label)
			rep.Cases++
			before, _ := world.DumpLevelDB(cdir)
			var pan interface{}
			var stack string
			var perr error
			func() {
				defer func() {
					if x := recover(); x != nil {
						pan = x
						stack = string(debug.Stack())
					}
				}()
				_, perr = clone.Cold.ProcessOperation(o, true)
			}()
			cls := jm.Label
			if i := strings.Index(cls, ":"); i > 0 {
				cls = cls[:i]
			}
			distinct["machine|reinit_dkg|"+cls] = true
			wit := map[string]interface{}{"operation_type": "reinit_dkg", "mutation": jm.Label, "payload": trunc(string(jm.Data), 300)}
			if pan != nil {
				wit["stack"] = trunc(stack, 1800)
				report("C18/panic-in-Machine.ProcessOperation:"+topRepoFrame(stack), fmt.Sprintf("Machine.ProcessOperation panicked on %s of a reinit operation: %v", jm.Label, pan), wit)
			} else if perr != nil {
				after, _ := world.DumpLevelDB(cdir)
				if diff := world.DiffMaps(before, after); len(diff) > 0 {
					report("C18/rejected-operation-changed-machine-database", fmt.Sprintf("ProcessOperation returned an error for %s of reinit_dkg but the machine database changed: %v", jm.Label, diff), wit)
				}
			}
			clone.CloseHandles()
		}
	}
	for d := range distinct {
		rep.Distinct = append(rep.Distinct, d)
	}
	rep.Sample = map[string]interface{}{"part": "machine", "steps": k, "cases": rep.Cases}
	rep.Done = true
	return rep
}

type mutant2 struct {
	Label string
	Op    types.Operation
}

// ---- part C: bodies of the local HTTP API ----

func freePort() int {
	l, err := net.Listen("tcp", "127.0.0.1:0")
	if err != nil {
		return 0
	}
	defer l.Close()
	return l.Addr().(*net.TCPAddr).Port
}

func c18API(seed uint64, budget int, lg *caseLog) c18Report {
	rep := c18Report{Part: "api"}
	w, err := world.NewWorld(world.Options{N: 2, T: 2, Seed: seed})
	if err != nil {
		rep.Notes = append(rep.Notes, err.Error())
		return rep
	}
	defer w.Close()
	ce := &Ceremony{W: w, N: 2, T: 2}
	v := w.Nodes[1]
	ce.Round, err = w.StartDKG(0, 2, now())
	if err != nil {
		rep.Notes = append(rep.Notes, err.Error())
		return rep
	}
	// stop where v holds a pending commits operation
	w.OpFilter = func(n *world.Node, op *types.Operation) bool { return !(n.Idx == 1 && string(op.Type) == OpCommits) }
	w.Run(world.EagerPolicy, 2000)
	w.OpFilter = nil
	var pend *types.Operation
	for _, o := range w.PendingOps(v) {
		if string(o.Type) == OpCommits {
			pend = o
		}
	}
	if pend == nil {
		rep.Notes = append(rep.Notes, "no pending operation for the API part")
		return rep
	}
	res, err := w.ColdResult(v, pend, false)
	if err != nil {
		rep.Notes = append(rep.Notes, err.Error())
		return rep
	}
	port := freePort()
	cfg := &config.Config{Username: v.Name, HttpApiConfig: &config.HttpApiConfig{ListenAddr: fmt.Sprintf("127.0.0.1:%d", port)}, KafkaStorageConfig: &config.KafkaStorageConfig{Topic: world.Topic}}
	sp := &services.ServiceProvider{}
	sp.SetLogger(v.Logger)
	sp.SetState(v.State)
	sp.SetKeyStore(v.Keys)
	sp.SetStorage(v.NB)
	sp.SetFSMService(v.FSM)
	sp.SetOperationService(v.Ops)
	sp.SetSignatureService(v.Sigs)
	srv := http_api.NewRESTApi(cfg, v.Svc, sp)
	go func() { _ = srv.Start() }()
	base := fmt.Sprintf("http://127.0.0.1:%d", port)
	cl := &http.Client{Timeout: 10 * time.Second}
	up := false
	for i := 0; i < 100; i++ {
		if resp, err := cl.Get(base + "/getUsername"); err == nil {
			resp.Body.Close()
			up = true
			break
		}
		time.Sleep(20 * time.Millisecond)
	}
	if !up {
		rep.Notes = append(rep.Notes, "API server did not come up")
		return rep
	}
	snap := v.Mem.Snapshot()
	boardLen := w.Board.Len()
	opBz, _ := json.Marshal(res)
	rid, _ := hex.DecodeString(ce.Round)
	reBz, _ := json.Marshal(types.ReDKG{DKGID: strings.Repeat("c", 64), Threshold: 2, Participants: []types.Participant{{Name: "node_0", DKGPubKey: fakeKey("d", 0), NewCommPubKey: w.Nodes[0].KeyPair.Pub}, {Name: "node_1", DKGPubKey: fakeKey("d", 1), NewCommPubKey: v.KeyPair.Pub}}, Messages: w.Board.All()[:2]})
	m0 := w.Board.All()[0]
	m0.ID = "0f8fad5b-d9cb-469f-a165-70867728950e" // the in-memory board's short ids do not pass the form's validation
	msgBz, _ := json.Marshal(m0)
	endpoints := []struct {
		path string
		body []byte
	}{
		{"/handleProcessedOperationJSON", opBz},
		{"/approveDKGParticipation", mkReq(map[string]string{"operationID": pend.ID})},
		{"/startDKG", w.InitPayload(2, now())},
		{"/proposeSignBatchMessages", mkReq(map[string]interface{}{"dkgID": rid, "data": map[string][]byte{"f": []byte("x")}})},
		{"/proposeSignMessage", mkReq(map[string]interface{}{"dkgID": rid, "data": []byte("x")})},
		{"/proposeSignBakedMessages", mkReq(map[string]interface{}{"dkgID": rid, "range_start": 0, "range_end": 2})},
		{"/reinitDKG", reBz},
		{"/saveOffset", mkReq(map[string]interface{}{"offset": 1})},
		{"/resetState", mkReq(map[string]interface{}{"new_state_dbdsn": "x", "use_offset": true, "messages": []string{"1", "2"}})},
		{"/sendMessage", msgBz},
	}
	r := sched.Derive(seed, 183)
	distinct := map[string]bool{}
	seenFinding := map[string]bool{}
	report := func(key, what string, wit map[string]interface{}) {
		if !seenFinding[key] {
			seenFinding[key] = true
			rep.Findings = append(rep.Findings, c18Finding{key, what, wit})
		}
	}
	post := func(path string, body []byte) (status int, respBody string, terr error) {
		resp, err := cl.Post(base+path, "application/json", bytes.NewReader(body))
		if err != nil {
			return 0, "", err
		}
		defer resp.Body.Close()
		bz, _ := io.ReadAll(resp.Body)
		return resp.StatusCode, string(bz), nil
	}
	for _, ep := range endpoints {
		for _, jm := range mutateJSON(ep.body, r, budget) {
			lg.begin(fmt.Sprintf("api %s %s", ep.path, jm.Label))
			rep.Cases++
			v.Mem.Restore(snap)
			w.Board.Truncate(boardLen)
			w.Board.UnignoreMessages()
			status, body, terr := post(ep.path, jm.Data)
			after := v.Mem.Snapshot()
			cls := jm.Label
			if i := strings.Index(cls, ":"); i > 0 {
				cls = cls[:i]
			}
			distinct[fmt.Sprintf("api|%s|%s", ep.path, cls)] = true
			wit := map[string]interface{}{"endpoint": ep.path, "mutation": jm.Label, "body": trunc(string(jm.Data), 400)}
			if terr != nil {
				// the connection was dropped: the handler panicked (net/http recovers per connection)
				alive := false
				if resp, err := cl.Get(base + "/getUsername"); err == nil {
					resp.Body.Close()
					alive = true
				}
				wit["transport_error"] = terr.Error()
				wit["server_alive_afterwards"] = alive
				report("C18/api-handler-panic:"+ep.path, fmt.Sprintf("POST %s with %s: no response (%v): the handler panicked; server alive afterwards: %v", ep.path, jm.Label, terr, alive), wit)
				continue
			}
			isErr := status >= 400 || strings.Contains(body, `"error_message"`)
			if isErr {
				if diff := world.DiffMaps(snap, after, world.Topic+"_offset"); len(diff) > 0 {
					report("C18/rejected-api-request-changed-state:"+ep.path, fmt.Sprintf("POST %s with %s answered an error (%d %s) but %v changed", ep.path, jm.Label, status, trunc(body, 100), diff), wit)
				}
				if w.Board.Len() != boardLen {
					report("C18/rejected-api-request-posted-to-board:"+ep.path, fmt.Sprintf("POST %s with %s answered an error but posted %d message(s)", ep.path, jm.Label, w.Board.Len()-boardLen), wit)
				}
			}
			// a lock left held would make the next valid request hang
		}
		// after the hostile bodies the genuine request must still be served (no lock left held)
		v.Mem.Restore(snap)
		w.Board.Truncate(boardLen)
		if _, _, terr := post(ep.path, ep.body); terr != nil {
			report("C18/api-stuck-after-hostile-requests:"+ep.path, fmt.Sprintf("genuine POST %s fails after the hostile ones: %v", ep.path, terr), map[string]interface{}{"endpoint": ep.path})
		}
	}
	// GET endpoints with hostile query values
	for _, q := range []string{"/getOperation?operationID=", "/getSignatures?dkgID=", "/getFSMDump?dkgID=", "/getSignatureByID?dkgID=&id=", "/getBatches?dkgID=", "/getFSMList?x="} {
		for _, val := range []string{"", "x", strings.Repeat("a", 64), strings.Repeat("9", 600), "%00%ff", ce.Round, "..%2F..%2Fetc"} {
			lg.begin("api GET " + q + trunc(val, 10))
			rep.Cases++
			resp, err := cl.Get(base + strings.Replace(q, "=", "="+val, 1))
			distinct["api|GET "+q] = true
			if err != nil {
				report("C18/api-handler-panic:"+q, fmt.Sprintf("GET %s%s: no response (%v)", q, trunc(val, 20), err), map[string]interface{}{"query": q, "value": trunc(val, 80)})
				continue
			}
			resp.Body.Close()
		}
	}
	for d := range distinct {
		rep.Distinct = append(rep.Distinct, d)
	}
	rep.Sample = map[string]interface{}{"part": "api", "endpoints": len(endpoints), "cases": rep.Cases}
	rep.Done = true
	return rep
}

var _ = storage.Message{}
