#!/bin/bash
# usage: tools/sweep_seeds.sh [name-glob]   — re-runs every stored seeded change against its own
# property's quick check (applies to /repo, runs, restores) and appends the outcome to the
# confirmation log that tools/seed_meta.py reads. A seed recorded as caught only by another property's
# check (meta.json checks_that_fire without its own id) is run against those. Exit 1 if one is missed.
cd /verif || exit 2
miss=0
for d in seeded/${1:-C*}/; do
  name=$(basename "$d"); id=${name%%-*}
  ids="$id"
  if [ -f "$d/meta.json" ]; then
    fire=$(python3 -c "import json,sys;m=json.load(open('$d/meta.json'));f=m.get('checks_that_fire',[]);print(' '.join(f) if f and '$id' not in f else '')")
    [ -n "$fire" ] && ids="$fire"
  fi
  out=$(tools/try_seed.sh "/verif/$d/patch.diff" quick $ids 2>&1)
  caught=""
  for x in $ids; do
    rc=$(echo "$out" | sed -n "s/^== $x rc=\([0-9]*\).*/\1/p")
    echo "check $x rc=${rc:-?}" >> "/root/scratch/confirm_$name.log" 2>/dev/null
    [ "$rc" = "1" ] && caught="$caught $x"
  done
  if [ -n "$caught" ]; then echo "caught  $name (by$caught)"; else echo "MISSED  $name (tried $ids)"; miss=1; fi
done
exit $miss
