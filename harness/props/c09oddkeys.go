package props

import (
	"crypto/ed25519"
	"crypto/sha256"
	"encoding/hex"
	"encoding/json"
	"fmt"

	"github.com/lidofinance/dc4bc/client/types"
	"github.com/lidofinance/dc4bc/fsm/types/requests"
	"github.com/lidofinance/dc4bc/storage"

	"verifharness/sched"
	"verifharness/world"
)

// c09OddKeys: rounds in which the key registered for participant P is not a usable ed25519 key.
//
// The opening proposal and the reinitialisation message are not authenticated, and the validation
// accepts communication keys of 10 bytes and more; a reinitialisation message may leave a key out.
// Whatever is registered for P, nobody holds a key under which a signature "verifies under the
// communication key registered for the sender": every message naming P must be rejected without a
// trace - with no signature, any signature, a signature by P's real key, by another participant's or by
// a fresh key.
func c09OddKeys(c *Ctx, seed uint64) {
	r := sched.Derive(seed, 0x0DD)
	signVariants := func(w *world.World, P int, m storage.Message) []mutant {
		var out []mutant
		add := func(label string, sig []byte) {
			mm := m
			mm.Signature = sig
			out = append(out, mutant{Label: label, Msg: mm})
		}
		add("no-signature", nil)
		add("empty-signature", []byte{})
		add("zero-signature", make([]byte, ed25519.SignatureSize))
		add("random-signature", r.Bytes(ed25519.SignatureSize))
		add("signed-by-the-named-participants-real-key", world.SignMsg(w.Nodes[P], m.DkgRoundID, m.Event, m.Data, m.RecipientAddr).Signature)
		for i, nd := range w.Nodes {
			if i != P {
				mm := world.SignMsg(nd, m.DkgRoundID, m.Event, m.Data, m.RecipientAddr)
				mm.SenderAddr = m.SenderAddr
				add(fmt.Sprintf("signature-of-participant-%d", i), mm.Signature)
				// a signature over the exact bytes (the sender name is part of them)
				add(fmt.Sprintf("signed-by-participant-%d-over-the-forged-bytes", i), ed25519.Sign(nd.KeyPair.Priv, m.Bytes()))
			}
		}
		_, fresh, _ := ed25519.GenerateKey(r)
		add("signed-by-a-fresh-key", ed25519.Sign(fresh, m.Bytes()))
		return out
	}
	judge := func(w *world.World, v, P int, label, stateName string, forged []mutant, wit0 map[string]interface{}) {
		nd := w.Nodes[v]
		snap := nd.Mem.Snapshot()
		for _, mu := range forged {
			c.Eval(1)
			nd.Mem.Restore(snap)
			before := w.Board.Len()
			var pan interface{}
			var err error
			func() {
				defer func() { pan = recover() }()
				err = nd.Svc.ProcessMessage(mu.Msg)
			}()
			after := nd.Mem.Snapshot()
			w.Board.Truncate(before)
			wit := map[string]interface{}{"forgery": mu.Label, "event": mu.Msg.Event, "node": nd.Name, "named_sender": w.Nodes[P].Name, "state": stateName}
			for k, x := range wit0 {
				wit[k] = x
			}
			c.Distinct(fmt.Sprintf("odd-registered-key|%s|%s|%s", label, mu.Msg.Event, mu.Label))
			if pan != nil {
				c.Add("panics_seen_(judged_by_C18)", 1)
				continue
			}
			if err == nil {
				c.Violate("C09/forgery-accepted:unusable-registered-key", fmt.Sprintf("%s: a %s naming %s (%s) was accepted by %s although no signature can verify under the key registered for that participant", label, mu.Msg.Event, w.Nodes[P].Name, mu.Label, nd.Name), wit)
				continue
			}
			if diff := world.DiffMaps(snap, after, world.Topic+"_offset"); len(diff) > 0 {
				c.Violate("C09/rejected-forgery-changed-state:unusable-registered-key", fmt.Sprintf("%s: %s rejected by %s but %v changed", label, mu.Label, nd.Name, diff), wit)
			}
		}
		nd.Mem.Restore(snap)
	}

	// (A) opening proposals registering a key of an odd length for P
	lengths := []int{10, 16, 31, 33, 64}
	for li, L := range lengths {
		if !c.Thorough() && li%2 != int(seed)%2 && L != 31 {
			continue
		}
		n, t := 3, 2
		w, err := world.NewWorld(world.Options{N: n, T: t, Seed: seed + uint64(li), NoCold: false})
		if err != nil {
			c.Inconclusive("odd keys: world: %v", err)
			return
		}
		P := 1 + r.Intn(n-1)
		var req requests.SignatureProposalParticipantsListRequest
		if err := json.Unmarshal(w.InitPayload(t, now()), &req); err != nil {
			c.Inconclusive("odd keys: payload: %v", err)
			w.Close()
			return
		}
		real := w.Nodes[P].KeyPair.Pub
		odd := make([]byte, L)
		for i := range odd {
			odd[i] = real[i%len(real)]
		}
		req.Participants[P].PubKey = odd
		payload, _ := json.Marshal(req)
		id := sha256.Sum256(payload)
		round := hex.EncodeToString(id[:])
		prop := world.SignMsg(w.Nodes[0], round, EvInit, payload, "")
		label := fmt.Sprintf("proposal-registers-%d-byte-key", L)
		for v := 0; v < n; v++ {
			if v == P {
				continue
			}
			nd := w.Nodes[v]
			var perr error
			func() {
				defer func() {
					if p := recover(); p != nil {
						perr = fmt.Errorf("PANIC %v", p)
					}
				}()
				perr = nd.Svc.ProcessMessage(prop)
			}()
			if perr != nil || NodeState(nd, round) == "" {
				// the proposal itself was refused: nothing is registered, nothing to attack
				c.Add("odd_key_proposals_refused", 1)
				continue
			}
			st := NodeState(nd, round)
			var forged []mutant
			for _, ev := range []string{EvConfirm, EvDecline} {
				m := storage.Message{ID: "odd", DkgRoundID: round, Event: ev, SenderAddr: w.Nodes[P].Name, Data: mkReq(requests.SignatureProposalParticipantRequest{ParticipantId: P, CreatedAt: now()})}
				forged = append(forged, signVariants(w, P, m)...)
			}
			judge(w, v, P, label, st, forged, map[string]interface{}{"registered_key_len": L, "case_seed": seed})
		}
		w.Close()
	}

	// (B) a round reinitialised with a message that leaves P's new communication key out
	{
		n, t := 3, 2
		old, err := buildRefWorld("honest+signing", seed+99, n, t)
		if err != nil {
			c.Inconclusive("odd keys: reference world: %v", err)
			return
		}
		defer old.Close()
		w := old.Ce.W
		w2, err := world.NewWorld(world.Options{N: n, T: t, Seed: seed + 99, CommSeed: seed + 4242})
		if err != nil {
			c.Inconclusive("odd keys: world: %v", err)
			return
		}
		defer w2.Close()
		P := r.Intn(n)
		keys := map[string][]byte{}
		for _, nd := range w2.Nodes {
			if nd.Idx != P {
				keys[nd.Name] = nd.KeyPair.Pub
			}
		}
		msgs, _ := w.Board.GetMessages(0)
		re, err := types.GenerateReDKGMessage(msgs, keys)
		if err != nil {
			c.Inconclusive("odd keys: GenerateReDKGMessage: %v", err)
			return
		}
		bz, _ := json.Marshal(re)
		rein := world.SignMsg(w2.Nodes[(P+1)%n], re.DKGID, EvReinit, bz, "")
		for v := 0; v < n; v++ {
			if v == P {
				continue
			}
			nd := w2.Nodes[v]
			var perr error
			func() {
				defer func() {
					if p := recover(); p != nil {
						perr = fmt.Errorf("PANIC %v", p)
					}
				}()
				perr = nd.Svc.ProcessMessage(rein)
			}()
			st := NodeState(nd, re.DKGID)
			if perr != nil || st == "" {
				c.Add("reinit_without_a_key_refused", 1)
				continue
			}
			var forged []mutant
			task := []requests.SigningTask{{MessageID: "odd-key-task", File: "f", Payload: []byte("pay the attacker")}}
			pm := HandBuiltProposal(w2.Nodes[P], re.DKGID, "odd-key-batch", P, task)
			pm.ID = "odd-b"
			forged = append(forged, signVariants(w2, P, pm)...)
			// a genuine message P made with his OLD key in the original round, re-posted
			for _, g := range msgs {
				if g.SenderAddr == w2.Nodes[P].Name && g.Event == EvSigningStart {
					forged = append(forged, mutant{Label: "genuine-message-signed-with-the-old-key", Msg: g})
					break
				}
			}
			judge(w2, v, P, "reinit-leaves-the-key-out", st, forged, map[string]interface{}{"case_seed": seed})
		}
	}
}

// c09StrangerRound: the opening proposal is exempt from authentication, so anybody can open a round of her
// own in which any NAME is registered with HER key. Messages she then posts on that round verify under
// the key registered there for the sender named - and must have no effect beyond that round: a signature
// broadcast whose payload names a real round and a real participant leaves the real round's signature
// store (and everything else of it) exactly as it was.
func c09StrangerRound(c *Ctx, seed uint64) {
	rw, err := buildRefWorld("honest+signing", seed, 3, 2)
	if err != nil {
		c.Inconclusive("stranger round: reference world: %v", err)
		return
	}
	defer rw.Close()
	w := rw.Ce.W
	all := w.Board.All()
	var opener *storage.Message
	for i := range all {
		if all[i].Event == EvInit {
			opener = &all[i]
			break
		}
	}
	if opener == nil || len(rw.Rec.Moments) == 0 {
		return
	}
	last := rw.Rec.Moments[len(rw.Rec.Moments)-1]
	_, spriv, _ := ed25519.GenerateKey(sched.Derive(7, 7)) // the key strangerProposal registers
	real := rw.Ce.Round
	for v, nd := range w.Nodes {
		nd.Mem.Restore(last.Snaps[v])
		sp := strangerProposal(*opener)
		x := fmt.Sprintf("%064x", 0xC09A+v)
		sp.DkgRoundID = x
		func() {
			defer func() { _ = recover() }()
			_ = nd.Svc.ProcessMessage(sp)
		}()
		w.Board.Truncate(len(all))
		if NodeState(nd, x) == "" {
			c.Add("stranger_rounds_refused", 1)
			continue
		}
		before := nd.Mem.Snapshot()
		for batch, msgs := range SigStore(nd, real) {
			for _, victim := range w.Nodes {
				for _, shape := range []string{"names-real-round-and-participant", "names-real-round-only", "names-participant-only"} {
					var forged []map[string]interface{}
					for mid := range msgs {
						e := map[string]interface{}{"File": "f", "BatchID": batch, "MessageID": mid, "SrcPayload": []byte("stranger"), "Signature": []byte("not a signature")}
						if shape != "names-participant-only" {
							e["DKGRoundID"] = real
						}
						if shape != "names-real-round-only" {
							e["Username"] = victim.Name
						}
						forged = append(forged, e)
					}
					m := storage.Message{ID: "c09-stranger", DkgRoundID: x, Event: EvSigRecon, Data: mkReq(forged), SenderAddr: victim.Name}
					m.Signature = ed25519.Sign(spriv, m.Bytes())
					nd.Mem.Restore(before)
					var pan interface{}
					func() {
						defer func() { pan = recover() }()
						_ = nd.Svc.ProcessMessage(m)
					}()
					after := nd.Mem.Snapshot()
					w.Board.Truncate(len(all))
					c.Eval(1)
					c.Distinct("stranger-round|signature-broadcast|" + shape)
					c.Add("stranger_round_broadcasts_naming_a_real_round", 1)
					if pan != nil {
						c.Add("panics_seen_(judged_by_C18)", 1)
						continue
					}
					if pd := protectedDiff(before, after, x); len(pd) > 0 {
						c.Violate("C09/message-valid-in-a-strangers-round-changed-a-real-round", fmt.Sprintf("a signature broadcast on round %s (opened by a stranger who registered %q with her own key there; payload %s) changed %v on %s", trunc(x, 8), victim.Name, shape, pd, nd.Name), map[string]interface{}{"node": nd.Name, "claimed_participant": victim.Name, "real_round": real, "batch": batch, "payload_shape": shape})
					}
				}
			}
		}
		nd.Mem.Restore(last.Snaps[v])
	}
}
