#!/bin/bash
# usage: tools/sweep_seeds.sh [name-glob]   — re-runs every stored seeded change against its own
# property's quick check (applies to /repo, runs, restores) and appends the outcome to the
# confirmation log that tools/seed_meta.py reads. Prints one line per seed; exit 1 if one is missed.
cd /verif || exit 2
miss=0
for d in seeded/${1:-C*}/; do
  name=$(basename "$d"); id=${name%%-*}
  out=$(tools/try_seed.sh "/verif/$d/patch.diff" quick "$id" 2>&1)
  rc=$(echo "$out" | sed -n "s/^== $id rc=\([0-9]*\).*/\1/p")
  echo "check $id rc=${rc:-?}" >> "/root/scratch/confirm_$name.log" 2>/dev/null
  if [ "$rc" = "1" ]; then echo "caught  $name"; else echo "MISSED  $name (rc=${rc:-?})"; miss=1; fi
done
exit $miss
