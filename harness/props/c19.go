package props

import (
	"encoding/json"
	"fmt"
	"sort"
	"strings"
	"sync"
	"time"

	"github.com/lidofinance/dc4bc/client/api/dto"
	"github.com/lidofinance/dc4bc/client/types"
	"github.com/lidofinance/dc4bc/fsm/fsm"
	"github.com/lidofinance/dc4bc/fsm/state_machines"
	"github.com/lidofinance/dc4bc/fsm/types/requests"
	"github.com/lidofinance/dc4bc/storage"

	"verifharness/oracle"
	"verifharness/world"
)

// C19: persisting and restoring a round at any point never changes its behaviour.
func init() { Register("C19", "exploration", checkC19) }

// canonJSON marshals v with arrays of objects sorted (responses built by iterating Go maps have
// no defined order in either execution).
func canonJSON(v interface{}) string {
	bz, err := json.Marshal(v)
	if err != nil {
		return "ERR:" + err.Error()
	}
	var x interface{}
	if json.Unmarshal(bz, &x) != nil {
		return string(bz)
	}
	var norm func(interface{}) interface{}
	norm = func(y interface{}) interface{} {
		switch t := y.(type) {
		case []interface{}:
			strs := make([]string, len(t))
			for i := range t {
				b, _ := json.Marshal(norm(t[i]))
				strs[i] = string(b)
			}
			sort.Strings(strs)
			out := make([]interface{}, len(strs))
			for i, s := range strs {
				out[i] = json.RawMessage(s)
			}
			return out
		case map[string]interface{}:
			for k, v := range t {
				t[k] = norm(v)
			}
			return t
		}
		return y
	}
	out, _ := json.Marshal(norm(x))
	return string(out)
}

func safeFromDump(d []byte) (inst *state_machines.FSMInstance, err error) {
	defer func() {
		if r := recover(); r != nil {
			err = fmt.Errorf("panic in FromDump: %v", r)
		}
	}()
	return state_machines.FromDump(d)
}

type doOut struct {
	Err   string
	OK    bool
	State string
	Data  string
	Dump  string
	Raw   []byte // the dump exactly as handed out (same backing array), for the stability check
}

func safeDo(inst *state_machines.FSMInstance, ev string, req interface{}) (o doOut) {
	defer func() {
		if r := recover(); r != nil {
			o = doOut{Err: fmt.Sprintf("PANIC: %v", r)}
		}
	}()
	resp, dump, err := inst.Do(fsm.Event(ev), req)
	if err != nil {
		return doOut{Err: "rejected"}
	}
	o.OK = true
	o.State = string(resp.State)
	o.Data = canonJSON(resp.Data)
	o.Dump = string(dump)
	o.Raw = dump
	return
}

// hand-over states: the machine that reached them cannot continue; the node always restores here.
var handOver = map[string]bool{"state_sig_proposal_collected": true, "state_dkg_master_key_collected": true}

// fsmPairedExplore drives state_machines directly: BFS over dumps; for every (state, event) it
// compares continuing on the live instance with continuing on a restored instance.
func fsmPairedExplore(c *Ctx, n, t int, maxStates int) (states, pairs int) {
	w, err := world.NewWorld(world.Options{N: n, T: t, Seed: c.Seed, NoCold: true})
	if err != nil {
		c.Inconclusive("world: %v", err)
		return
	}
	defer w.Close()
	round := fmt.Sprintf("pairedround-%d-%d-aaaaaaaaaaaaaaaaaaaaaaaaaaaaaaaaaaaa", n, t)
	// time stamps as an operator's machine outside UTC writes them (zone offset in the JSON, a zone object
	// and a monotonic reading in memory): none of that survives a dump, and none of it may matter
	t0 := time.Now().In(time.FixedZone("operator", 2*3600+1800))
	a := &alphabetCtx{W: w, Round: round, T0: t0, N: n}
	evs := a.dkgAlphabet(fakeKey("master", 0), fakeKey("master", 1), []byte(`{"commitments":["AA=="]}`))
	// the same group key announced with another public polynomial: whether it is accepted depends on what
	// the round remembers of earlier announcements, which must be the same before and after a dump
	for p := 0; p < n; p++ {
		evs = append(evs, a.ev("masterkey", p, "otherpoly", 4, EvMasterKey, mkReq(requests.DKGProposalMasterKeyConfirmationRequest{ParticipantId: p, MasterKey: fakeKey("master", 0), PubPolyBz: []byte(`{"commitments":["AQ=="]}`), CreatedAt: a.ts("valid")}), ""))
	}
	im := initMsg(w, round, n, t, t0, 0)
	evs = append(evs, &exEvent{Label: "init(valid)", Kind: "init", Msg: im})
	type typed struct {
		label string
		event string
		req   interface{}
	}
	var alphabet []typed
	for _, e := range evs {
		if e.Variant == "empty" || e.Variant == "othercontent" {
			continue
		}
		req, err := types.FSMRequestFromMessage(e.Msg)
		if err != nil {
			continue
		}
		alphabet = append(alphabet, typed{e.Label, e.Msg.Event, req})
	}
	dr := requests.DefaultRequest{CreatedAt: t0.Add(2 * 60e9)}
	alphabet = append(alphabet,
		typed{"dkg_init_process", "event_dkg_init_process", dr},
		typed{"signing_init", "event_signing_init", dr},
		typed{"signing_restart", "event_signing_restart", dr},
	)
	for b := 1; b <= 2; b++ {
		bid := fmt.Sprintf("batch-%d", b)
		alphabet = append(alphabet, typed{"propose(" + bid + ")", EvSigningStart, requests.SigningBatchProposalStartRequest{BatchID: bid, ParticipantId: 0, CreatedAt: t0.Add(3 * 60e9), SigningTasks: []requests.SigningTask{{MessageID: "m1", Payload: []byte("payload")}}}})
		for p := 0; p <= n; p++ {
			alphabet = append(alphabet,
				typed{fmt.Sprintf("partial(%d,%s)", p, bid), EvPartialSign, requests.SigningProposalBatchPartialSignRequests{BatchID: bid, ParticipantId: p, CreatedAt: t0.Add(4 * 60e9), PartialSigns: []requests.PartialSign{{MessageID: "m1", Sign: []byte(fmt.Sprintf("ps-%d", p))}}}},
			)
		}
	}
	alphabet = append(alphabet, typed{"partialerr(0,hostile-text)", EvPartialErr, requests.SignatureProposalConfirmationErrorRequest{ParticipantId: 0, Error: requests.NewFSMError(fmt.Errorf("bad \x01\x07\x7f\v \"q\" end")), CreatedAt: t0.Add(4 * 60e9)}})
	for p := 0; p <= n; p++ {
		alphabet = append(alphabet, typed{fmt.Sprintf("partialerr(%d)", p), EvPartialErr, requests.SignatureProposalConfirmationErrorRequest{ParticipantId: p, Error: requests.NewFSMError(fmt.Errorf("boom")), CreatedAt: t0.Add(4 * 60e9)}})
	}

	type st struct {
		dump  []byte
		name  string
		pred  *st
		via   *typed
		depth int
	}
	root, err := state_machines.Create(round)
	if err != nil {
		c.Inconclusive("create: %v", err)
		return
	}
	rd, _ := root.Dump()
	seen := map[string]bool{oracle.Hash(string(rd)): true}
	queue := []*st{{dump: rd, name: "__idle"}}
	path := func(s *st) []string {
		var p []string
		for x := s; x != nil && x.via != nil; x = x.pred {
			p = append([]string{x.via.label}, p...)
		}
		return p
	}
	longPairs, afterRejected := 0, 0
	defer func() {
		c.Add("long_lived_vs_restored_comparisons", longPairs)
		c.Add("comparisons_after_a_rejected_event", afterRejected)
	}()
	for len(queue) > 0 {
		s := queue[0]
		queue = queue[1:]
		states++
		c.Distinct(fmt.Sprintf("paired n%d t%d %s", n, t, oracle.Hash(string(s.dump))))
		// every reachable state restores
		if _, err := safeFromDump(s.dump); err != nil {
			c.Violate("C19/reachable-state-cannot-be-restored:"+s.name, fmt.Sprintf("FromDump fails for reachable state %s: %v", s.name, err), map[string]interface{}{"n": n, "t": t, "path": path(s)})
			continue
		}
		// (r) an instance that lived through a REJECTED event must go on like one restored from the dump (a
		// rejection is not persisted by anybody): for a fixed fifth (quick) / half (thorough) of the rejected events r, and every
		// accepted event e of this state, "r then e" on one instance is compared with e on a restored one
		{
			var acc, rej []*typed
			outOf := map[*typed]doOut{}
			for i := range alphabet {
				e := &alphabet[i]
				inst, _ := safeFromDump(s.dump)
				o := safeDo(inst, e.event, e.req)
				outOf[e] = o
				if o.OK {
					acc = append(acc, e)
				} else if oracle.HashN(s.name+"|rej|"+e.label, c.Pick(5, 2)) == 0 {
					rej = append(rej, e)
				}
			}
			for _, r := range rej {
				for _, e := range acc {
					inst, err := safeFromDump(s.dump)
					if err != nil {
						continue
					}
					_ = safeDo(inst, r.event, r.req)
					got := safeDo(inst, e.event, e.req)
					want := outOf[e]
					afterRejected++
					if got.OK != want.OK || got.State != want.State || got.Data != want.Data || canonDump(got.Dump) != canonDump(want.Dump) {
						c.Violate("C19/live-and-restored-differ", fmt.Sprintf("in %s: after the rejected event %s the same instance answers %s with (ok=%v,state=%s), a round restored from the dump with (ok=%v,state=%s)", s.name, r.label, e.label, got.OK, got.State, want.OK, want.State), map[string]interface{}{"n": n, "t": t, "path": path(s), "rejected_event": r.label, "event": e.label})
					}
				}
			}
		}
		for i := range alphabet {
			e := &alphabet[i]
			instB, _ := safeFromDump(s.dump)
			outB := safeDo(instB, e.event, e.req)
			c.Eval(1)
			// live continuation: rebuild the live instance by re-running the predecessor step
			if s.pred != nil && !handOver[s.name] {
				instA, err := safeFromDump(s.pred.dump)
				if err == nil {
					pre := safeDo(instA, s.via.event, s.via.req)
					if pre.OK {
						outA := safeDo(instA, e.event, e.req)
						pairs++
						if outA.OK != outB.OK || outA.State != outB.State || outA.Data != outB.Data || canonDump(outA.Dump) != canonDump(outB.Dump) {
							what := fmt.Sprintf("in %s event %s: live(ok=%v,state=%s) vs restored(ok=%v,state=%s)", s.name, e.label, outA.OK, outA.State, outB.OK, outB.State)
							if outA.OK == outB.OK && outA.State == outB.State && outA.Data == outB.Data {
								what += " dumps differ: " + oracle.FirstDiff(outA.Dump, outB.Dump)
							} else if outA.Data != outB.Data {
								what += " responses differ: " + oracle.FirstDiff(outA.Data, outB.Data)
							}
							c.Violate("C19/live-and-restored-differ", what, map[string]interface{}{"n": n, "t": t, "path": path(s), "event": e.label})
						}
					}
				}
			}
			// long-lived continuation: ONE instance lives through the whole path since the last hand-over (a node
			// that was never restarted and kept its machine), then gets the event. Done for every event the
			// restored instance accepts and for a fixed eighth of the others.
			if s.pred != nil && !handOver[s.name] && (outB.OK || oracle.HashN(s.name+"|"+e.label, 8) == 0) {
				var chain []*st
				x := s
				for x.pred != nil && !handOver[x.name] {
					chain = append([]*st{x}, chain...)
					x = x.pred
				}
				if len(chain) > 1 {
					instL, err := safeFromDump(x.dump)
					okPath := err == nil
					type held struct {
						raw  []byte
						copy string
						at   string
					}
					var handed []held
					stable := func(after string) {
						for _, h := range handed {
							if string(h.raw) != h.copy {
								c.Violate("C19/saved-round-changed-afterwards", fmt.Sprintf("the dump handed out after %s (what a caller persists) no longer holds the same bytes once the same instance has handled %s", h.at, after), map[string]interface{}{"n": n, "t": t, "path": path(s), "dump_taken_after": h.at, "changed_by": after})
								handed = nil
								return
							}
						}
					}
					for _, y := range chain {
						if !okPath {
							break
						}
						pre := safeDo(instL, y.via.event, y.via.req)
						stable(y.via.label)
						if pre.OK && pre.Raw != nil {
							handed = append(handed, held{pre.Raw, string(pre.Raw), y.via.label})
						}
						if !pre.OK {
							okPath = false
							c.Violate("C19/live-and-restored-differ", fmt.Sprintf("the path to %s is accepted step by step on restored instances but step %s is refused on one long-lived instance", s.name, y.via.label), map[string]interface{}{"n": n, "t": t, "path": path(s)})
						}
					}
					if okPath {
						outL := safeDo(instL, e.event, e.req)
						stable(e.label)
						longPairs++
						if outL.OK != outB.OK || outL.State != outB.State || outL.Data != outB.Data || canonDump(outL.Dump) != canonDump(outB.Dump) {
							what := fmt.Sprintf("in %s event %s: long-lived instance (%d steps in memory) (ok=%v,state=%s) vs restored(ok=%v,state=%s)", s.name, e.label, len(chain), outL.OK, outL.State, outB.OK, outB.State)
							if outL.OK == outB.OK && outL.State == outB.State && outL.Data == outB.Data {
								what += " dumps differ: " + oracle.FirstDiff(outL.Dump, outB.Dump)
							} else if outL.Data != outB.Data {
								what += " responses differ: " + oracle.FirstDiff(outL.Data, outB.Data)
							}
							c.Violate("C19/live-and-restored-differ", what, map[string]interface{}{"n": n, "t": t, "path": path(s), "event": e.label, "steps_in_memory": len(chain)})
						}
					}
				}
			}
			if outB.OK && !json.Valid([]byte(outB.Dump)) {
				c.Violate("C19/accepted-event-leaves-unsavable-state", fmt.Sprintf("in %s event %s is accepted (next state %s) but the resulting round cannot be dumped (dump is %d bytes, not JSON)", s.name, e.label, outB.State, len(outB.Dump)), map[string]interface{}{"n": n, "t": t, "path": path(s), "event": e.label})
				continue
			}
			if !outB.OK || outB.Dump == "" {
				continue
			}
			k := oracle.Hash(outB.Dump)
			if seen[k] || len(seen) >= maxStates {
				continue
			}
			seen[k] = true
			queue = append(queue, &st{dump: []byte(outB.Dump), name: outB.State, pred: s, via: e, depth: s.depth + 1})
		}
	}
	return
}

func checkC19(c *Ctx) {
	c.Rule = "two explorations. (1) state_machines driven directly (Create/Do/Dump/FromDump) breadth-first over the full event alphabet incl. the hand-over events and two signing batches: for every reachable state and every event, continuing on the live instance is compared with continuing on an instance restored from the dump (acceptance, next state, response JSON, resulting dump); every reachable state must restore. (2) the C05 node-level exploration and the C06 signing exploration: every reachable persisted round must restore and the node's round listing must succeed on a store containing it. In (1) a second comparison keeps ONE instance alive through the whole path since the last hand-over (every accepted event, an eighth of the others). (r) an instance that lived through a rejected event must answer every accepted event like a restored one. Dumps handed out by a long-lived instance are kept next to copies and must stay equal to them. A node holding four rounds in different states must list each with the state the round restores to on its own, on twelve consecutive listings. distinct = distinct reachable states judged"
	c.Assumptions = []string{"hand-over states (proposal collected, master key collected) are excluded from the live-vs-restored comparison only: the machine that reached them cannot continue by construction and the node always restores there", "responses built by iterating Go maps are compared as multisets"}
	c.Exhaustive = true
	c19SeveralRoundsListed(c)
	type cfg struct{ n, t int }
	var cfgs []cfg
	for n := 2; n <= c.Pick(3, 4); n++ {
		for t := 2; t <= n; t++ {
			cfgs = append(cfgs, cfg{n, t})
		}
	}
	Parallel(len(cfgs), 8, func(i int) {
		n, t := cfgs[i].n, cfgs[i].t
		st, pairs := fsmPairedExplore(c, n, t, c.Pick(3000, 200000))
		c.Add("paired_states", st)
		c.Add("paired_comparisons", pairs)
		c.Sample(map[string]interface{}{"exploration": "state_machines paired", "n": n, "t": t, "states": st, "live_vs_restored_pairs": pairs})
	})
	Parallel(len(cfgs), 8, func(i int) {
		n, t := cfgs[i].n, cfgs[i].t
		names := map[string]bool{}
		hooks := dkgHooks{
			onState: func(ex *explorer, s *exState) {
				c.Eval(1)
				bz := RawDump(ex.Node, ex.Round)
				if bz == nil {
					return
				}
				names[s.Name] = true
				c.Distinct(fmt.Sprintf("node n%d t%d %s", n, t, oracle.Hash(s.Proj)))
				wit := map[string]interface{}{"n": n, "t": t, "path": s.Path(), "state": s.Name}
				if _, err := safeFromDump(bz); err != nil {
					c.Violate("C19/reachable-state-cannot-be-restored:"+s.Name, fmt.Sprintf("a round persisted by the node in state %s cannot be loaded: %v", s.Name, err), wit)
				}
				if _, err := ex.Node.FSM.GetFSMList(); err != nil {
					c.Violate("C19/round-listing-fails:"+s.Name, fmt.Sprintf("GetFSMList fails on a store containing a round in %s: %v", s.Name, err), wit)
				}
				judgeServedDump(c, ex.Node, ex.Round, bz, s.Name, wit)
			},
			onTransition: func(ex *explorer, s *exState, ev *exEvent, res *exResult, mon monC05) (monC05, bool) {
				return mon, res.Accepted
			},
		}
		st, _, _ := exploreDKG(c, n, t, hooks, c.Pick(20000, 400000))
		c.Add("node_level_states", st)
		c.Sample(map[string]interface{}{"exploration": "node-level DKG", "n": n, "t": t, "states": st, "state_names": sortedKeys(names)})
	})
	c19Signing(c)
	c19RoundIDs(c)
}

// c19RoundIDs: a round is saved under the identifier its messages carry and must be found again under
// exactly that identifier, whatever it looks like (surrounding whitespace, case, a prefix of another
// round's id): the same message sequence yields the same states under a plain and under an odd id, the
// persisted round is served under that id, and sibling rounds with near-duplicate ids do not mix.
func c19RoundIDs(c *Ctx) {
	n, t := 3, 2
	w, err := world.NewWorld(world.Options{N: n, T: t, Seed: c.Seed*197 + 3, NoCold: true})
	if err != nil {
		c.Inconclusive("round-id world: %v", err)
		return
	}
	defer w.Close()
	nd := w.Nodes[0]
	base := fmt.Sprintf("%064x", c.Seed*0x9E3779B97F4A7C15+11)
	base = "c0de" + base[4:] // at least one letter, so that the upper-cased variant is another string
	ids := []string{base, base + " ", " " + base, "\t" + base + "\n", strings.ToUpper(base), base[:50], base + "0"}
	t0 := now()
	trace := func(id string) []string {
		var states []string
		msgs := []storage.Message{initMsg(w, id, n, t, t0, 0)}
		for p := 0; p < n; p++ {
			msgs = append(msgs, world.SignMsg(w.Nodes[p], id, EvConfirm, mkReq(requests.SignatureProposalParticipantRequest{ParticipantId: p, CreatedAt: t0.Add(time.Minute)}), ""))
		}
		msgs = append(msgs, world.SignMsg(w.Nodes[1], id, EvCommit, mkReq(requests.DKGProposalCommitConfirmationRequest{ParticipantId: 1, Commit: []byte("commit-1"), CreatedAt: t0.Add(time.Minute)}), ""))
		for _, m := range msgs {
			err := nd.Svc.ProcessMessage(m)
			st := NodeState(nd, id)
			states = append(states, fmt.Sprintf("%s:%v:%s", m.Event, err == nil, st))
			// what is persisted under this id is what the service and the API hand out for this id
			stored := RawDump(nd, id)
			if stored != nil {
				if d, err := nd.FSM.GetFSMDump(&dto.DkgIdDTO{DkgID: id}); err != nil || d == nil || string(d.State) != st {
					c.Violate("C19/persisted-round-not-found-under-its-own-id", fmt.Sprintf("round id %q: persisted in %s, GetFSMDump: %v", id, st, err), map[string]interface{}{"round_id": id})
				}
			}
			c.Eval(1)
		}
		return states
	}
	ref := trace(ids[0])
	c.Distinct("round-id|plain")
	for _, id := range ids[1:] {
		got := trace(id)
		c.Distinct(fmt.Sprintf("round-id|%q", trunc(id, 12)))
		c.Add("message_sequences_under_odd_round_ids", 1)
		if strings.Join(got, " ") != strings.Join(ref, " ") {
			c.Violate("C19/round-under-an-odd-identifier-behaves-differently", fmt.Sprintf("round id %q: %v; plain id: %v", id, got, ref), map[string]interface{}{"round_id": id})
		}
	}
	// siblings did not mix: every one of them still is where its own sequence left it
	for _, id := range ids {
		if st := NodeState(nd, id); !strings.HasSuffix(ref[len(ref)-1], ":"+st) {
			c.Violate("C19/sibling-rounds-with-similar-identifiers-mixed", fmt.Sprintf("round id %q ends in %q, its own sequence left it in %q", id, st, ref[len(ref)-1]), map[string]interface{}{"round_id": id})
		}
	}
}

// c19Signing is filled in by the C06 exploration (restore + list over signing states).
var c19Signing = func(c *Ctx) {}

// canonDump re-encodes a dump so that equal JSON values compare equal whatever escaping was used.
func canonDump(d string) string {
	var x interface{}
	if json.Unmarshal([]byte(d), &x) != nil {
		return d
	}
	bz, _ := json.Marshal(x)
	return string(bz)
}

var apiCache sync.Map // *world.Node -> *world.HTTPOp

func apiFor(n *world.Node) *world.HTTPOp {
	if v, ok := apiCache.Load(n); ok {
		return v.(*world.HTTPOp)
	}
	a, err := world.NewHTTPOp(n)
	if err != nil {
		return nil
	}
	apiCache.Store(n, a)
	return a
}

// judgeServedDump: what GET /getFSMDump and /getFSMList serve for a persisted round is the persisted
// round (operators and tools read rounds there, e.g. show_fsm_status).
func judgeServedDump(c *Ctx, n *world.Node, round string, stored []byte, state string, wit map[string]interface{}) {
	api := apiFor(n)
	if api == nil || len(round) < 32 {
		return
	}
	served, err := api.FSMDump(round)
	c.Add("dumps_read_through_the_rest_api", 1)
	if err != nil {
		c.Violate("C19/persisted-round-not-served:"+state, fmt.Sprintf("GET /getFSMDump for a round persisted in %s: %v", state, err), wit)
		return
	}
	if canonDump(string(served)) != canonDump(string(stored)) {
		c.Violate("C19/served-round-differs-from-persisted:"+state, oracle.FirstDiff(canonDump(string(stored)), canonDump(string(served))), wit)
	}
	lst, err := api.FSMList()
	if err != nil {
		c.Violate("C19/round-listing-fails:"+state, fmt.Sprintf("GET /getFSMList: %v", err), wit)
		return
	}
	var m map[string]string
	if json.Unmarshal(lst, &m) != nil || m[round] != state {
		c.Violate("C19/round-listing-differs-from-persisted:"+state, fmt.Sprintf("GET /getFSMList says %q for the round, persisted state is %q", m[round], state), wit)
	}
}

// c19SeveralRoundsListed: a node that holds several rounds in different states (one declined, one waiting
// for confirmations, one in the key phase, one signing-ready and finished) must list every round with the
// state that round restores to on its own (get_fsm_list vs the per-round dump), on every call: listing
// restores all rounds in one go, and Go's map order changes from call to call.
func c19SeveralRoundsListed(c *Ctx) {
	for rep := 0; rep < c.Pick(2, 6); rep++ {
		func() {
			seed := c.Seed*523 + uint64(rep)
			ce, err := NewCeremony(seed, 2, 2, world.EagerPolicy) // a finished round: signing-ready
			if err != nil {
				c.Inconclusive("several-rounds world: %v", err)
				return
			}
			defer ce.Close()
			w := ce.W
			v := w.Nodes[0]
			rounds := []string{ce.Round}
			// a round declined by participant 1
			if id, err := w.StartDKG(0, 2, now().Add(time.Second)); err == nil {
				_ = w.Board.Send(world.SignMsg(w.Nodes[1], id, EvDecline, mkReq(requests.SignatureProposalParticipantRequest{ParticipantId: 1, CreatedAt: now()}), ""))
				rounds = append(rounds, id)
			}
			// a round waiting for confirmations
			if id, err := w.StartDKG(1, 2, now().Add(2*time.Second)); err == nil {
				rounds = append(rounds, id)
			}
			// a round that got into the key phase (both confirmed)
			if id, err := w.StartDKG(0, 2, now().Add(3*time.Second)); err == nil {
				for p := 0; p < 2; p++ {
					_ = w.Board.Send(world.SignMsg(w.Nodes[p], id, EvConfirm, mkReq(requests.SignatureProposalParticipantRequest{ParticipantId: p, CreatedAt: now()}), ""))
				}
				rounds = append(rounds, id)
			}
			for i := 0; i < 4; i++ {
				_, _ = v.PollStep(0)
			}
			want := map[string]string{}
			states := map[string]bool{}
			for _, r := range rounds {
				want[r] = NodeState(v, r)
				states[want[r]] = true
			}
			wit := map[string]interface{}{"family": "several rounds in different states listed at once", "rounds": len(rounds), "states": sortedKeys(states), "case_seed": seed}
			if len(states) < 3 {
				c.Inconclusive("several-rounds world: only %d distinct states (%v)", len(states), sortedKeys(states))
				return
			}
			api := apiFor(v)
			for call := 0; call < 12; call++ {
				var listed map[string]string
				if api != nil && call%2 == 1 {
					raw, err := api.FSMList()
					if err != nil {
						c.Violate("C19/listing-fails", fmt.Sprintf("GET /getFSMList with %d rounds stored: %v", len(rounds), err), wit)
						return
					}
					_ = json.Unmarshal(raw, &listed)
				} else {
					l, err := v.FSM.GetFSMList()
					if err != nil {
						c.Violate("C19/listing-fails", fmt.Sprintf("round listing with %d rounds stored: %v", len(rounds), err), wit)
						return
					}
					listed = l
				}
				c.Eval(1)
				for _, r := range rounds {
					if listed[r] != want[r] {
						c.Violate("C19/listed-state-differs-from-the-rounds-own", fmt.Sprintf("with %d rounds stored the listing shows round %s in %q; restored on its own it is in %q (call %d)", len(rounds), trunc(r, 8), listed[r], want[r], call+1), wit)
						return
					}
				}
			}
			c.Add("listings_of_several_rounds_in_different_states", 12)
			c.Distinct(fmt.Sprintf("several-rounds-listed|%s", strings.Join(sortedKeys(states), ",")))
		}()
	}
}
