package props

import (
	"bytes"
	"context"
	"encoding/csv"
	"encoding/json"
	"fmt"
	"os"
	"os/exec"
	"path/filepath"
	"sort"
	"strings"
	"time"

	"github.com/corestario/kyber/share"

	"github.com/lidofinance/dc4bc/client/api/dto"
	"github.com/lidofinance/dc4bc/client/types"
	"github.com/lidofinance/dc4bc/dkg"
	fsmtypes "github.com/lidofinance/dc4bc/fsm/types"
	"github.com/lidofinance/dc4bc/fsm/types/requests"
	"github.com/lidofinance/dc4bc/storage"

	"verifharness/oracle"
	"verifharness/world"
)

const (
	StIdle          = "stage_signing_idle"
	EvSigRecon      = "signature_reconstructed"
	EvSigningStart  = "event_signing_start"
	EvPartialSign   = "event_signing_partial_sign_received"
	EvPartialErr    = "event_signing_partial_sign_error_received"
	EvInit          = "event_sig_proposal_init"
	EvConfirm       = "event_sig_proposal_confirm_by_participant"
	EvDecline       = "event_sig_proposal_decline_by_participant"
	EvCommit        = "event_dkg_commit_confirm_received"
	EvDeal          = "event_dkg_deal_confirm_received"
	EvResponse      = "event_dkg_response_confirm_received"
	EvMasterKey     = "event_dkg_master_key_confirm_received"
	EvCommitErr     = "event_dkg_commit_confirm_canceled_by_error"
	EvDealErr       = "event_dkg_deal_confirm_canceled_by_error"
	EvResponseErr   = "event_dkg_response_confirm_canceled_by_error"
	EvMasterKeyErr  = "event_dkg_master_key_confirm_canceled_by_error"
	EvReinit        = "reinit_dkg"
	OpSigning       = "state_signing_await_partial_signs"
	OpCommits       = "state_dkg_commits_await_confirmations"
	OpDeals         = "state_dkg_deals_await_confirmations"
	OpResponses     = "state_dkg_responses_await_confirmations"
	OpMasterKey     = "state_dkg_master_key_await_confirmations"
	OpConfirm       = "state_sig_proposal_await_participants_confirmations"
	StAwaitPartials = "state_signing_await_partial_signs"
)

// Ceremony is a world with one key-generation round driven to quiescence.
type Ceremony struct {
	W     *world.World
	Round string
	N, T  int
	// ReinitHashes: per node, the confirmation hash shown to the operator (reinitialised worlds).
	ReinitHashes map[string][]byte
	// MachinesRestartedFirst: the restored machines were stopped and reopened before the reinit operation.
	MachinesRestartedFirst bool
	SeedSetTwice           bool
	// ProposalMismatch: set by RunBatch when the last proposal differs from what was handed in
	ProposalMismatch string
	EarlyBatch       bool
	// ReinitFile: the reinitialisation file as written by the dkg_reinitializer binary (tool-chain worlds).
	ReinitFile string
}

func now() time.Time { return time.Now().UTC() }

// NewCeremony builds a world and runs key generation under policy until quiescence.
func NewCeremony(seed uint64, n, t int, policy world.RunPolicy) (*Ceremony, error) {
	return NewCeremonyVia(seed, n, t, policy, false)
}

// NewCeremonyVia: viaHTTP = the operators reach their nodes through the repository's REST API.
func NewCeremonyVia(seed uint64, n, t int, policy world.RunPolicy, viaHTTP bool) (*Ceremony, error) {
	return NewCeremonyWith(world.Options{N: n, T: t, Seed: seed, ViaHTTP: viaHTTP}, policy)
}

// NewCeremonyWith runs a key generation in a world built from opt.
func NewCeremonyWith(opt world.Options, policy world.RunPolicy) (*Ceremony, error) {
	seed, n, t := opt.Seed, opt.N, opt.T
	w, err := world.NewWorld(opt)
	if err != nil {
		return nil, err
	}
	ce := &Ceremony{W: w, N: n, T: t}
	ce.Round, err = w.StartDKG(int(seed)%n, t, now())
	if err != nil {
		w.Close()
		return nil, err
	}
	if _, q := w.Run(policy, 4000); !q {
		w.Close()
		return nil, fmt.Errorf("key generation did not reach quiescence")
	}
	return ce, nil
}

func (ce *Ceremony) Close() { ce.W.Close() }

// NodeState returns the persisted FSM state name of a round on a node ("" if absent,
// "ERR:..." if it cannot be loaded).
func NodeState(n *world.Node, round string) string {
	ok, err := n.FSM.IsExist(round)
	if err != nil {
		return "ERR:" + err.Error()
	}
	if !ok {
		return ""
	}
	d, err := n.FSM.GetFSMDump(&dto.DkgIdDTO{DkgID: round})
	if err != nil {
		return "ERR:" + err.Error()
	}
	return string(d.State)
}

func (ce *Ceremony) States() []string {
	var out []string
	for _, n := range ce.W.Nodes {
		out = append(out, NodeState(n, ce.Round))
	}
	return out
}

func (ce *Ceremony) AllIn(state string) bool {
	for _, s := range ce.States() {
		if s != state {
			return false
		}
	}
	return true
}

// RawDump returns the stored dump bytes of a round from the node's state (no FromDump involved).
func RawDump(n *world.Node, round string) []byte {
	bz, _ := n.State.Get(world.Topic + "_fsm_state")
	var m map[string][]byte
	if json.Unmarshal(bz, &m) != nil {
		return nil
	}
	return m[round]
}

// Projection of a round on a node (canonical public JSON).
func Projection(n *world.Node, round string, o oracle.ProjOpts) string {
	bz := RawDump(n, round)
	if bz == nil {
		return "<absent>"
	}
	s, err := oracle.Project(bz, o)
	if err != nil {
		return "ERR:" + err.Error()
	}
	return s
}

// dumpView mirrors the public part of a dump for oracles that need typed access.
type dumpView struct {
	State   string
	Payload struct {
		DkgId                    string
		Threshold                int
		PubKeys                  map[string][]byte
		IDs                      map[string]int
		SignatureProposalPayload *struct {
			Quorum map[string]struct {
				Username  string
				PubKey    []byte
				DkgPubKey []byte
				Status    int
				Threshold int
			}
		}
		DKGProposalPayload *struct {
			Quorum map[string]struct {
				Username     string
				DkgPubKey    []byte
				DkgCommit    []byte
				DkgDeal      []byte
				DkgResponse  []byte
				DkgMasterKey []byte
				Status       int
				Error        *string
			}
			PubPolyBz []byte
		}
		SigningProposalPayload *struct {
			BatchID     string
			InitiatorId int
			SrcPayload  []byte
			Quorum      map[string]struct {
				Username     string
				Status       int
				PartialSigns map[string][]byte
				Error        *string
			}
		}
	}
}

func View(n *world.Node, round string) *dumpView {
	bz := RawDump(n, round)
	if bz == nil {
		return nil
	}
	var v dumpView
	if err := json.Unmarshal(bz, &v); err != nil {
		return nil
	}
	return &v
}

// Keyring returns machine i's keyring for the round (nil when absent).
func Keyring(n *world.Node, round string) (*dkg.BLSKeyring, error) {
	krs, err := n.Cold.GetBLSKeyrings()
	if err != nil {
		return nil, err
	}
	return krs[round], nil
}

// HotPoly decodes the polynomial a hot node retained for reconstruction.
func HotPoly(n *world.Node, round string) (*share.PubPoly, error) {
	v := View(n, round)
	if v == nil || v.Payload.DKGProposalPayload == nil {
		return nil, fmt.Errorf("no dkg payload")
	}
	kr, err := dkg.LoadPubPolyBLSKeyringFromBytes(oracle.NewSuite(), v.Payload.DKGProposalPayload.PubPolyBz)
	if err != nil {
		return nil, err
	}
	return kr.PubPoly, nil
}

func eqCommits(a, b [][]byte) bool {
	if len(a) != len(b) {
		return false
	}
	for i := range a {
		if !bytes.Equal(a[i], b[i]) {
			return false
		}
	}
	return true
}

// BoardMsgs returns the board messages of a round with the given event.
func BoardMsgs(w *world.World, round, event string) []storage.Message {
	var out []storage.Message
	for _, m := range w.Board.All() {
		if (round == "" || m.DkgRoundID == round) && (event == "" || m.Event == event) {
			out = append(out, m)
		}
	}
	return out
}

// ExpectedMsg is the harness-side (independent) expansion of one message of a proposal.
type ExpectedMsg struct {
	ID      string
	File    string
	Payload []byte
	Baked   bool
	ValIdx  int64
}

// ExpandProposal expands the proposal found on the board into the ordered list of messages,
// independently of requests.TasksToMessages: explicit payloads verbatim, baked position p ->
// line p of payloads.csv (read by the harness) -> independent SSZ signing root.
func ExpandProposal(data []byte) (batchID string, msgs []ExpectedMsg, err error) {
	var p struct {
		BatchID      string
		SigningTasks []struct {
			MessageID  string
			File       string
			Payload    []byte
			RangeStart int
			RangeEnd   int
		}
	}
	if err = json.Unmarshal(data, &p); err != nil {
		return
	}
	batchID = p.BatchID
	for _, t := range p.SigningTasks {
		if t.Payload != nil {
			msgs = append(msgs, ExpectedMsg{ID: t.MessageID, File: t.File, Payload: t.Payload})
			continue
		}
		for i := t.RangeStart; i < t.RangeEnd; i++ {
			idx, ok := oracle.BakedIndex(i)
			if !ok {
				return batchID, nil, fmt.Errorf("baked position %d outside the list", i)
			}
			root := oracle.RefSigningRoot(idx)
			msgs = append(msgs, ExpectedMsg{ID: fmt.Sprint(idx), File: fmt.Sprintf("bakedrange%d", i), Payload: root[:], Baked: true, ValIdx: int64(idx)})
		}
	}
	return
}

// SigStore returns node's stored signatures for a round.
func SigStore(n *world.Node, round string) map[string]map[string][]fsmtypes.ReconstructedSignature {
	s, err := n.Sigs.GetSignatures(&dto.DkgIdDTO{DkgID: round})
	if err != nil || s == nil {
		return nil
	}
	return s
}

func sortedKeys[V any](m map[string]V) []string {
	ks := make([]string, 0, len(m))
	for k := range m {
		ks = append(ks, k)
	}
	sort.Strings(ks)
	return ks
}

// HandBuiltProposal builds a signed event_signing_start message with arbitrary tasks.
func HandBuiltProposal(n *world.Node, round, batchID string, pid int, tasks []requests.SigningTask) storage.Message {
	req := requests.SigningBatchProposalStartRequest{BatchID: batchID, ParticipantId: pid, CreatedAt: now(), SigningTasks: tasks}
	bz, _ := json.Marshal(req)
	return world.SignMsg(n, round, EvSigningStart, bz, "")
}

func trunc(s string, n int) string {
	if len(s) > n {
		return s[:n] + "..."
	}
	return s
}

func joinInts(a []int) string {
	var s []string
	for _, x := range a {
		s = append(s, fmt.Sprint(x))
	}
	return strings.Join(s, ",")
}

// ReinitFrom builds a fresh world with the same machines' mnemonics (same seed) and fresh
// communication keys, and reinitialises the round from the old world's board dump through the
// real procedure: GenerateReDKGMessage (+ optional adaptation) -> ReInitDKG -> reinit operation
// through every machine -> result back.
func ReinitFrom(old *Ceremony, commSeed uint64, adapt func(*types.ReDKG) (*types.ReDKG, error), policy world.RunPolicy) (*Ceremony, *types.ReDKG, error) {
	var names []string
	for _, n := range old.W.Nodes {
		names = append(names, n.Name)
	}
	w, err := world.NewWorld(world.Options{N: old.N, T: old.T, Seed: old.W.Opt.Seed, CommSeed: commSeed, Names: names, ViaHTTP: old.W.Opt.ViaHTTP, ViaCLI: old.W.Opt.ViaCLI})
	if err != nil {
		return nil, nil, err
	}
	ce := &Ceremony{W: w, N: old.N, T: old.T, Round: old.Round}
	ce.ReinitHashes = captureReinitHashesHook(w)
	if RepeatSetSeed != nil && RepeatSetSeed(commSeed) {
		// the operator of a restored machine types `set_seed` with the mnemonic a second time in the same
		// session (the command's two library calls, as cmd/airgapped makes them)
		for _, nd := range w.Nodes {
			if nd.Cold == nil {
				continue
			}
			if err := nd.Cold.SetBaseSeed(nd.Mnemonic); err != nil {
				w.Close()
				return nil, nil, fmt.Errorf("second set_seed: %w", err)
			}
			if err := nd.Cold.GenerateKeys(); err != nil {
				w.Close()
				return nil, nil, fmt.Errorf("second set_seed: %w", err)
			}
		}
		ce.SeedSetTwice = true
	}
	if RestartRestoredMachines != nil && RestartRestoredMachines(commSeed) {
		// the machines were restored from their mnemonics in an earlier session: they are stopped and
		// reopened from their databases (keys and seed loaded, not set) before the reinitialisation reaches them
		for i, nd := range w.Nodes {
			if _, _, _, err := restartMachine(w, nd, old.Round, 5000+i); err != nil {
				w.Close()
				return nil, nil, fmt.Errorf("restart of a restored machine: %w", err)
			}
		}
		ce.MachinesRestartedFirst = true
	}
	keys := map[string][]byte{}
	for _, n := range w.Nodes {
		keys[n.Name] = n.KeyPair.Pub
	}
	msgs, _ := old.W.Board.GetMessages(0)
	var re *types.ReDKG
	var bz []byte
	if cli := w.Nodes[0].CLI; cli != nil && adapt == nil && world.ReinitializerBin() != "" {
		// the shipped pipeline: board dump (CSV) -> dkg_reinitializer -> reinit.json -> dc4bc_cli reinit_dkg
		dump := filepath.Join(cli.Dir, "dump.csv")
		if err := WriteDumpCSV(dump, msgs); err != nil {
			w.Close()
			return nil, nil, err
		}
		re, bz, ce.ReinitFile, err = RunReinitializer(cli.Dir, dump, keys, false)
		if err != nil {
			w.Close()
			return nil, nil, err
		}
		if err := cli.Reinit(ce.ReinitFile); err != nil {
			w.Close()
			return nil, nil, err
		}
		if q := runAfterReinit(w, ce, policy, commSeed); !q {
			w.Close()
			return nil, nil, fmt.Errorf("reinit did not reach quiescence")
		}
		return ce, re, nil
	}
	re, err = types.GenerateReDKGMessage(msgs, keys)
	if err != nil {
		w.Close()
		return nil, nil, err
	}
	if adapt != nil {
		if re, err = adapt(re); err != nil {
			w.Close()
			return nil, nil, err
		}
	}
	bz, err = json.Marshal(re)
	if err != nil {
		w.Close()
		return nil, nil, err
	}
	if api := w.Nodes[0].API; api != nil {
		err = api.Reinit(bz) // POST /reinitDKG with the file `dc4bc_dkg_reinitializer` wrote
	} else {
		err = w.Nodes[0].Svc.ReInitDKG(&dto.ReInitDKGDTO{ID: re.DKGID, Payload: bz})
	}
	if err != nil {
		w.Close()
		return nil, nil, err
	}
	if q := runAfterReinit(w, ce, policy, commSeed); !q {
		w.Close()
		return nil, nil, fmt.Errorf("reinit did not reach quiescence")
	}
	return ce, re, nil
}

// RestartRestoredMachines, when set (C20), decides per reinitialisation whether the freshly restored
// machines are restarted before they see the reinit operation.
var RestartRestoredMachines func(commSeed uint64) bool

// LateReinitResults, when set (C20), decides per reinitialisation whether one operator is fast: his node
// finishes the reinit operation and proposes a batch before the other operators have carried their reinit
// results back from their machines.
var LateReinitResults func(commSeed uint64) bool

// runAfterReinit drives the world after the reinit message was posted.
func runAfterReinit(w *world.World, ce *Ceremony, policy world.RunPolicy, commSeed uint64) bool {
	if LateReinitResults == nil || !LateReinitResults(commSeed) {
		_, q := w.Run(policy, 4000)
		return q
	}
	fast := int(commSeed) % len(w.Nodes)
	prev := w.OpFilter
	// the slow operators: away with the reinit operation at their machines, not answering anything yet
	w.OpFilter = func(nd *world.Node, op *types.Operation) bool {
		if nd.Idx != fast {
			return false
		}
		return prev == nil || prev(nd, op)
	}
	w.Run(policy, 4000)
	if NodeState(w.Nodes[fast], ce.Round) == StIdle {
		if err := w.ProposeSign(fast, ce.Round, map[string][]byte{"proposed-before-the-others-finished-reinit": []byte("early batch")}, nil); err == nil {
			ce.EarlyBatch = true
			w.Run(policy, 4000)
		}
	}
	// they come back: the reinit result first, then whatever else is pending
	w.OpFilter = func(nd *world.Node, op *types.Operation) bool {
		if string(op.Type) != "reinit_dkg" {
			for _, o := range w.PendingOps(nd) {
				if string(o.Type) == "reinit_dkg" {
					return false
				}
			}
		}
		return prev == nil || prev(nd, op)
	}
	_, q := w.Run(policy, 6000)
	w.OpFilter = prev
	return q
}

// RepeatSetSeed, when set (C20), decides per reinitialisation whether the operators enter their
// mnemonics a second time on the restored machines.
var RepeatSetSeed func(commSeed uint64) bool

var captureReinitHashesHook = func(w *world.World) map[string][]byte { return captureReinitHashes(w) }

// WriteDumpCSV writes messages in the shape of the Kafka dump the reinitializer reads
// (header; timestamp;partition;offset;key;value with the message JSON as value).
func WriteDumpCSV(path string, msgs []storage.Message) error {
	f, err := os.Create(path)
	if err != nil {
		return err
	}
	defer f.Close()
	cw := csv.NewWriter(f)
	cw.Comma = ';'
	_ = cw.Write([]string{"timestamp", "partition", "offset", "key", "value"})
	for i, m := range msgs {
		bz, err := json.Marshal(m)
		if err != nil {
			return err
		}
		_ = cw.Write([]string{fmt.Sprint(1637743545160 + i), "0", fmt.Sprint(m.Offset), m.ID, string(bz)})
	}
	cw.Flush()
	return cw.Error()
}

// RunReinitializer runs the dkg_reinitializer binary on a CSV dump; returns the parsed file, its bytes and path.
func RunReinitializer(dir, dump string, keys map[string][]byte, adapt014 bool) (*types.ReDKG, []byte, string, error) {
	kp := filepath.Join(dir, "keys.json")
	kb, _ := json.Marshal(keys)
	if err := os.WriteFile(kp, kb, 0o600); err != nil {
		return nil, nil, "", err
	}
	out := filepath.Join(dir, "reinit.json")
	_ = os.Remove(out)
	ctx, cancel := context.WithTimeout(context.Background(), 2*time.Minute)
	defer cancel()
	cmd := exec.CommandContext(ctx, world.ReinitializerBin(), "reinit", "-i", dump, "-k", kp, "-o", out, "--skip-header", fmt.Sprintf("--adapt_0_1_4=%v", adapt014))
	if bz, err := cmd.CombinedOutput(); err != nil {
		return nil, nil, "", fmt.Errorf("dkg_reinitializer: %v: %s", err, trunc(string(bz), 300))
	}
	bz, err := os.ReadFile(out)
	if err != nil {
		return nil, nil, "", fmt.Errorf("dkg_reinitializer wrote no file: %w", err)
	}
	var re types.ReDKG
	if err := json.Unmarshal(bz, &re); err != nil {
		return nil, nil, "", fmt.Errorf("file written by dkg_reinitializer does not parse: %w", err)
	}
	return &re, bz, out, nil
}
