package props

import (
	"crypto/sha256"
	"encoding/hex"
	"fmt"
	"strings"
	"time"

	"github.com/lidofinance/dc4bc/fsm/types/requests"
	"github.com/lidofinance/dc4bc/storage"

	"verifharness/oracle"
	"verifharness/world"
)

// C05: a round advances only on unanimous delivery; any failure aborts it for good.
func init() { Register("C05", "exploration", checkC05) }

type monC05 struct {
	Inited    bool
	Phase     int
	Got       [5]uint32
	KeyGood   bool
	KeyBad    bool
	Cancelled bool
}

func (m monC05) Key() string {
	return fmt.Sprintf("%v/%d/%v/%v%v/%v", m.Inited, m.Phase, m.Got, m.KeyGood, m.KeyBad, m.Cancelled)
}

// dkgHooks lets C05 and C19 share one exploration.
type dkgHooks struct {
	onState      func(ex *explorer, s *exState)
	onTransition func(ex *explorer, s *exState, ev *exEvent, res *exResult, mon monC05) (monC05, bool)
	// setup, if set, configures the node before the exploration starts
	setup func(ex *explorer)
}

func fakeKey(tag string, p int) []byte {
	h := sha256.Sum256([]byte(fmt.Sprintf("%s-%d", tag, p)))
	return append(h[:], h[:16]...)
}

func initMsg(w *world.World, round string, n, t int, t0 time.Time, by int) storage.Message {
	var ps []*requests.SignatureProposalParticipantsEntry
	for i := 0; i < n; i++ {
		ps = append(ps, &requests.SignatureProposalParticipantsEntry{Username: w.Nodes[i].Name, PubKey: w.Nodes[i].KeyPair.Pub, DkgPubKey: fakeKey("dkg", i)})
	}
	data := mkReq(requests.SignatureProposalParticipantsListRequest{Participants: ps, SigningThreshold: t, CreatedAt: t0})
	return world.SignMsg(w.Nodes[by], round, EvInit, data, "")
}

// exploreDKG runs the breadth-first exploration of the key-generation protocol for (n,t) from
// node 0's point of view, to a fixpoint of (public projection, monitor state).
func exploreDKG(c *Ctx, n, t int, hooks dkgHooks, maxStates int) (states, transitions int, complete bool) {
	w, err := world.NewWorld(world.Options{N: n, T: t, Seed: c.Seed + uint64(n*10+t), NoCold: true})
	if err != nil {
		c.Inconclusive("world: %v", err)
		return
	}
	defer w.Close()
	h := sha256.Sum256([]byte(fmt.Sprintf("round-%d-%d", n, t)))
	round := hex.EncodeToString(h[:])
	ex := &explorer{W: w, Node: w.Nodes[0], Round: round}
	if hooks.setup != nil {
		hooks.setup(ex)
	}
	t0 := now() // the node stamps phase deadlines with its own wall clock, so "late" must be relative to it
	a := &alphabetCtx{W: w, Round: round, T0: t0, N: n}
	alphabet := a.dkgAlphabet(fakeKey("master", 0), fakeKey("master", 1), []byte(`{"commitments":["AA=="]}`))
	mkInit := func(label string, nn, tt int) *exEvent {
		m := initMsg(w, round, nn, tt, t0, 0)
		m.ID = label
		return &exEvent{Label: label, Kind: "init", Variant: label, Phase: -1, Msg: m}
	}
	alphabet = append(alphabet, mkInit("init(valid)", n, t), mkInit("init(threshold>n)", n, n+1))
	// a signing proposal: must be refused before the round is signing-ready
	prop := HandBuiltProposal(w.Nodes[0], round, "batch-x", 0, []requests.SigningTask{{MessageID: "m1", Payload: []byte("p")}})
	prop.ID = "propose"
	alphabet = append(alphabet, &exEvent{Label: "propose(0)", Kind: "propose", Phase: -1, Msg: prop})

	root := ex.capture(nil, nil, monC05{})
	seen := map[string]bool{oracle.Hash(root.Proj) + root.Mon.Key(): true}
	queue := []*exState{root}
	complete = true
	for len(queue) > 0 {
		s := queue[0]
		queue = queue[1:]
		states++
		if hooks.onState != nil {
			ex.restore(s)
			hooks.onState(ex, s)
		}
		mon := s.Mon.(monC05)
		leaf := s.Name == StIdle || len(s.Name) > 14 && s.Name[:14] == "state_signing_"
		for _, ev := range alphabet {
			if ev.Variant == "othercontent" && !(mon.Inited && ev.Phase == mon.Phase && ev.P < 31 && mon.Got[ev.Phase]&(1<<uint(ev.P)) != 0) {
				// a second, different contribution with the first one's time stamp: only tried as a duplicate,
				// i.e. when this participant's contribution of the running phase has been delivered
				continue
			}
			res := ex.step(s, ev)
			transitions++
			nm, expand := hooks.onTransition(ex, s, ev, &res, mon)
			if leaf || !expand || res.ProjA == res.ProjB {
				continue
			}
			key := oracle.Hash(res.ProjA) + nm.Key()
			if seen[key] {
				continue
			}
			if len(seen) >= maxStates {
				complete = false
				continue
			}
			seen[key] = true
			queue = append(queue, ex.capture(s, ev, nm))
		}
	}
	return
}

func checkC05(c *Ctx) {
	c.Rule = "breadth-first exploration of the real BaseNodeService.ProcessMessage (node 0, in-memory state store) over the public event alphabet {init, confirm, decline, commit, deal, response, master key, the four error reports, signing proposal} x participant ids {0..n-1, n, 99} x variants {valid, late-timestamped, empty payload, mismatching key, duplicate (= same event again)} to a fixpoint of (public projection of the round, monitor state), for every (n,t) in the tier's bound. History monitors M1 (exactly-once, in phase order, by invited participants; signing-ready only after all five phases), M2 (cancelled never becomes signing-ready), M3 (rejected => round, operation pool and signature store unchanged), M4 (decline / error / late / differing key accepted => cancelled), M5 (a well-formed timely failure report or decline by a participant whose contribution of the running phase is awaited is not refused). The alphabet also holds late-stamped messages of uninvited ids and same-instant duplicates with other content; a second exploration runs on a node with the daemon's --skip_comm_keys_verification on (the round's own rules decide alone). In every persisted state every *_internal event delivered to the restored round from outside must be refused. Fault family: one read of the state database fails while the node handles a message; a round cancelled before must still be cancelled after its opening proposal and confirmations are delivered again. distinct = distinct abstract states reached"
	c.Assumptions = []string{"MemState substituted for LevelDB (same Get/Set semantics)", "explored from one node's point of view: deals are the per-recipient ones plus the self-confirmation", "messages are harness-built and signed with the claimed participant's registered key (unknown ids are claimed by a legitimate sender)", "a missing round and a freshly created idle round are treated as the same round state (byte-exactness of rejected input is C18's subject)"}
	maxN := c.Pick(3, 4)
	c.Exhaustive = true
	var cfgs []ntCase
	for n := 2; n <= maxN; n++ {
		for t := 2; t <= n; t++ {
			cfgs = append(cfgs, ntCase{n, t})
		}
	}
	if c.Thorough() {
		cfgs = append(cfgs, ntCase{5, 2}, ntCase{5, 5})
	}
	// the same exploration on a node started with --skip_comm_keys_verification (a documented daemon flag):
	// nothing in front of the round's state machine filters messages by sender, the round's own rules decide
	plain := len(cfgs)
	cfgs = append(cfgs, ntCase{2, 2})
	if c.Thorough() {
		cfgs = append(cfgs, ntCase{3, 2}, ntCase{3, 3})
	}
	Parallel(len(cfgs), 8, func(ci int) {
		{
			n, t := cfgs[ci].N, cfgs[ci].T
			unverified := ci >= plain
			readySeen := 0
			cancelledSeen := map[string]bool{}
			hooks := dkgHooks{onTransition: func(ex *explorer, s *exState, ev *exEvent, res *exResult, mon monC05) (monC05, bool) {
				wit := func() interface{} {
					return map[string]interface{}{"n": n, "t": t, "sender_verification_off": unverified, "path": s.Path(), "event": ev.Label, "state_before": res.Before, "state_after": res.After, "error": fmt.Sprint(res.Err)}
				}
				c.Eval(1)
				if res.Err != nil && len(res.Err.Error()) > 5 && res.Err.Error()[:5] == "PANIC" {
					// process-terminating faults are C18's subject; note and move on
					c.Add("panics_seen_(judged_by_C18)", 1)
					return mon, false
				}
				// M3
				if res.Err != nil {
					if res.ProjA != res.ProjB {
						c.Violate("C05/M3-rejected-event-changed-round", fmt.Sprintf("%s in %s returned an error but the round changed (%s -> %s)", ev.Label, res.Before, res.Before, res.After), wit())
					}
					for _, k := range res.Diff {
						if k != world.Topic+"_fsm_state" {
							c.Violate("C05/M3-rejected-event-changed-store:"+k, fmt.Sprintf("%s in %s returned an error but %s changed", ev.Label, res.Before, k), wit())
						}
					}
					// M5: a well-formed, timely failure report (or decline) by an invited participant whose
					// contribution of the running phase is still awaited must be honoured, not refused
					if (ev.Variant == "valid" || ev.Variant == "hostile-text") && ev.Known && mon.Inited && !mon.Cancelled && mon.Phase < 5 {
						want := map[string]int{"decline": 0, "commiterr": 1, "dealerr": 2, "responseerr": 3, "masterkeyerr": 4}
						if ph, ok := want[ev.Kind]; ok && ph == mon.Phase && mon.Got[ph]&(1<<uint(ev.P)) == 0 && !(mon.KeyGood && mon.KeyBad) {
							c.Violate("C05/M5-failure-report-refused:"+ev.Kind, fmt.Sprintf("%s by awaited participant %d refused in %s: %v", ev.Label, ev.P, res.Before, res.Err), wit())
						} else if ok {
							c.Add("failure_reports_refused_out_of_phase_(not_judged)", 1)
						}
					}
					return mon, false
				}
				if !res.Accepted {
					// M5 (second half): ... nor silently dropped - no error, and nothing changed
					if (ev.Variant == "valid" || ev.Variant == "hostile-text") && ev.Known && mon.Inited && !mon.Cancelled && mon.Phase < 5 {
						want := map[string]int{"decline": 0, "commiterr": 1, "dealerr": 2, "responseerr": 3, "masterkeyerr": 4}
						if ph, ok := want[ev.Kind]; ok && ph == mon.Phase && mon.Got[ph]&(1<<uint(ev.P)) == 0 && !(mon.KeyGood && mon.KeyBad) && !isCancelled(res.Before) {
							c.Violate("C05/M5-failure-report-ignored:"+ev.Kind, fmt.Sprintf("%s by awaited participant %d in %s: no error, but the round is unchanged (still %s): the failure is forgotten", ev.Label, ev.P, res.Before, res.After), wit())
						}
					}
					return mon, false
				}
				nm := mon
				switch {
				case ev.Kind == "init":
					if mon.Inited {
						c.Violate("C05/M1-invitation-accepted-twice", ev.Label, wit())
					}
					if ev.Variant != "init(valid)" {
						c.Violate("C05/M1-invalid-invitation-accepted", ev.Label, wit())
					}
					nm.Inited = true
				case ev.Phase >= 0 && ev.Variant == "late" && isCancelled(res.After):
					// the expired-deadline path: the round is cancelled, nothing is counted as a contribution
					if !ev.Known {
						c.Violate("C05/M1-message-of-uninvited-participant-cancelled-the-round", fmt.Sprintf("%s accepted in %s: the round is now %s although the id it names was never invited", ev.Label, res.Before, res.After), wit())
					}
				case ev.Phase >= 0:
					if ev.Variant == "empty" || ev.Variant == "emptyfield" {
						c.Violate("C05/M1-malformed-contribution-accepted", ev.Label+" in "+res.Before, wit())
					}
					if !ev.Known {
						c.Violate("C05/M1-contribution-of-uninvited-participant-accepted", ev.Label+" in "+res.Before, wit())
						break
					}
					if !mon.Inited || ev.Phase != mon.Phase {
						c.Violate("C05/M1-contribution-accepted-out-of-phase", fmt.Sprintf("%s accepted in %s (monitor phase %d)", ev.Label, res.Before, mon.Phase), wit())
					} else if mon.Got[ev.Phase]&(1<<uint(ev.P)) != 0 {
						c.Violate("C05/M1-contribution-accepted-twice", fmt.Sprintf("%s accepted again in %s", ev.Label, res.Before), wit())
					} else {
						nm.Got[ev.Phase] |= 1 << uint(ev.P)
						if nm.Got[ev.Phase] == 1<<uint(n)-1 {
							nm.Phase++
						}
					}
					if ev.Kind == "masterkey" {
						if ev.Variant == "mismatch" {
							nm.KeyBad = true
						} else {
							nm.KeyGood = true
						}
					}
				}
				// M6: a participant answers a phase once - a failure report (or a decline) from a participant whose
				// contribution of the running phase is already recorded is a second, different answer
				if ph, ok := map[string]int{"decline": 0, "commiterr": 1, "dealerr": 2, "responseerr": 3, "masterkeyerr": 4}[ev.Kind]; ok && ev.Known && mon.Inited && !mon.Cancelled && ph == mon.Phase && ev.P < 31 && mon.Got[ph]&(1<<uint(ev.P)) != 0 {
					c.Violate("C05/M6-second-answer-accepted:"+ev.Kind, fmt.Sprintf("%s accepted in %s although participant %d has already delivered this phase's contribution (next state %s)", ev.Label, res.Before, ev.P, res.After), wit())
				}
				// M4
				failure := ev.Kind == "decline" || (len(ev.Kind) > 3 && ev.Kind[len(ev.Kind)-3:] == "err") || ev.Variant == "late" || (nm.KeyGood && nm.KeyBad)
				if failure && !isCancelled(res.After) {
					c.Violate("C05/M4-failure-accepted-without-cancelling", fmt.Sprintf("%s accepted in %s, next state %s is not a cancelled one", ev.Label, res.Before, res.After), wit())
				}
				// M2
				if mon.Cancelled && res.After == StIdle {
					c.Violate("C05/M2-cancelled-round-became-signing-ready", fmt.Sprintf("%s in %s", ev.Label, res.Before), wit())
				}
				if isDKGCancelled(res.After) {
					nm.Cancelled = true
					cancelledSeen[res.After] = true
				}
				// M1: signing-ready only after all five phases
				if res.After == StIdle {
					readySeen++
					if nm.Phase != 5 || nm.Cancelled || failure {
						c.Violate("C05/M1-signing-ready-without-unanimous-delivery", fmt.Sprintf("%s in %s made the round signing-ready; monitor phase=%d got=%v", ev.Label, res.Before, nm.Phase, nm.Got), wit())
					}
				}
				if ev.Kind == "propose" && res.Before != StIdle {
					c.Violate("C05/M1-signing-proposal-accepted-before-ready", res.Before, wit())
				}
				c.Distinct(fmt.Sprintf("n%d t%d %v %s", n, t, unverified, oracle.Hash(res.ProjA)))
				return nm, true
			}}
			// the round's state machine itself, in every persisted state the exploration reaches: the events the
			// machines use among themselves (names ending in _internal) are not for callers - delivered from
			// outside (state_machines.FSMInstance.Do on the restored round) they must be refused
			hooks.onState = func(ex *explorer, s *exState) {
				bz := RawDump(ex.Node, ex.Round)
				if bz == nil {
					return
				}
				for _, name := range internalEvents {
					inst, err := safeFromDump(bz)
					if err != nil {
						return
					}
					out := safeDo(inst, name, requests.DefaultRequest{CreatedAt: now()})
					c.Eval(1)
					if out.OK {
						c.Violate("C05/internal-event-accepted-from-outside:"+name, fmt.Sprintf("in %s the round's state machine accepts %s from a caller and moves to %s", s.Name, name, out.State), map[string]interface{}{"n": n, "t": t, "path": s.Path(), "state": s.Name, "event": name})
					} else {
						c.Add("internal_events_refused_from_outside", 1)
					}
				}
			}
			if unverified {
				hooks.setup = func(ex *explorer) {
					if sk, ok := ex.Node.Svc.(interface{ SetSkipCommKeysVerification(bool) }); ok {
						sk.SetSkipCommKeysVerification(true)
						c.Add("explorations_without_sender_verification", 1)
					}
				}
			}
			st, tr, complete := exploreDKG(c, n, t, hooks, c.Pick(20000, 400000))
			c.Add("states", st)
			c.Add("transitions", tr)
			c.Add(fmt.Sprintf("states_n%d_t%d", n, t), st)
			c.Add("signing_ready_transitions", readySeen)
			c.Add("distinct_cancelled_state_names", len(cancelledSeen))
			if !complete {
				c.Exhaustive = false
				c.Note("n=%d t=%d: state cap reached, exploration truncated", n, t)
			}
			if readySeen == 0 {
				c.Violate("C05/explorer-never-reached-signing-ready", fmt.Sprintf("n=%d t=%d: no sequence of the alphabet reaches signing-ready", n, t), nil)
			}
			c.Sample(map[string]interface{}{"n": n, "t": t, "states": st, "transitions": tr, "cancelled_state_names": sortedKeys(cancelledSeen)})
		}
	})
	c05ReadFault(c)
}

// c05ReadFault: "a cancelled round can never become signing-ready" also when the node's state database fails
// one read at some moment (a transient I/O error of a long-running daemon). Round A is cancelled by a decline.
// Then exactly the k-th read of the rounds' key fails (k = 1..6) while the node handles either A's opening
// proposal delivered again or the opening of an unrelated round B; afterwards A's opening proposal and every
// participant's confirmation are delivered (no fault): A must still be cancelled on this node.
func c05ReadFault(c *Ctx) {
	for _, during := range []string{"re-delivered opening of the cancelled round", "opening of another round"} {
		for k := 1; k <= 6; k++ {
			func() {
				seed := c.Seed*877 + uint64(k)
				w, err := world.NewWorld(world.Options{N: 3, T: 2, Seed: seed})
				if err != nil {
					c.Inconclusive("read-fault world: %v", err)
					return
				}
				defer w.Close()
				v := w.Nodes[0]
				round, err := w.StartDKG(0, 2, now())
				if err != nil {
					c.Inconclusive("read-fault world: %v", err)
					return
				}
				opening := w.Board.All()[0]
				_ = w.Board.Send(world.SignMsg(w.Nodes[1], round, EvDecline, mkReq(requests.SignatureProposalParticipantRequest{ParticipantId: 1, CreatedAt: now()}), ""))
				_, _ = v.PollStep(0)
				if st := NodeState(v, round); !isCancelled(st) {
					c.Inconclusive("read-fault world: the decline did not cancel the round (%s)", st)
					return
				}
				wit := map[string]interface{}{"family": "one failing read of the state database", "failing_read": k, "during": during, "case_seed": seed}
				key := world.Topic + "_fsm_state"
				reads, failed := 0, false
				v.State.FailOp = func(op, k2 string) error {
					if op == "get" && k2 == key {
						reads++
						if reads == k {
							failed = true
							return fmt.Errorf("leveldb: too many open files (injected)")
						}
					}
					return nil
				}
				again := opening
				again.ID = "again-" + opening.ID
				if during == "opening of another round" {
					if _, err := w.StartDKG(2, 2, now().Add(time.Second)); err != nil {
						c.Inconclusive("read-fault world: second round: %v", err)
						return
					}
				} else {
					_ = w.Board.Send(again)
				}
				_, _ = v.PollStep(0)
				v.State.FailOp = nil
				c.Eval(1)
				if !failed {
					return // fewer than k reads of that key in this step
				}
				c.Add("messages_handled_with_one_failing_state_read", 1)
				c.Distinct(fmt.Sprintf("read-fault|%s|k=%d", during, k))
				// no fault from here on: the opening proposal once more, then everybody confirms
				again.ID = "again2-" + opening.ID
				_ = w.Board.Send(again)
				for p := 0; p < 3; p++ {
					_ = w.Board.Send(world.SignMsg(w.Nodes[p], round, EvConfirm, mkReq(requests.SignatureProposalParticipantRequest{ParticipantId: p, CreatedAt: now()}), ""))
				}
				for i := 0; i < 3; i++ {
					_, _ = v.PollStep(0)
				}
				if st := NodeState(v, round); !isCancelled(st) {
					c.Violate("C05/M2-cancelled-round-left-the-cancelled-state", fmt.Sprintf("the round that participant 1 declined is in %q after the node's state database failed one read (read %d of the rounds' key, during the %s) and the opening proposal and confirmations were delivered again", st, k, during), wit)
				}
			}()
		}
	}
}

// internalEvents: every event name of the three machines that ends in _internal.
var internalEvents = strings.Fields("event_dkg_commits_confirm_canceled_by_error_internal event_dkg_commits_confirm_canceled_by_timeout_internal event_dkg_commits_confirmed_internal event_dkg_commits_validate_internal event_dkg_deals_confirm_canceled_by_error_internal event_dkg_deals_confirm_canceled_by_timeout_internal event_dkg_deals_confirmed_internal event_dkg_deals_validate_internal event_dkg_master_key_confirm_canceled_by_error_internal event_dkg_master_key_confirm_canceled_by_timeout_internal event_dkg_master_key_confirmed_internal event_dkg_master_key_required_internal event_dkg_master_key_validate_internal event_dkg_response_confirm_canceled_by_error_internal event_dkg_response_confirm_canceled_by_timeout_internal event_dkg_responses_confirmed_internal event_dkg_responses_validate_internal event_signing_partial_signs_await_cancel_by_timeout_internal event_signing_partial_signs_await_sign_cancel_by_error_internal event_signing_partial_signs_confirmed_internal")
