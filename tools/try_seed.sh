#!/bin/bash
# usage: tools/try_seed.sh <patch.diff> <tier> <check ids...>
# Applies a seeded change to /repo, runs the given checks, always restores /repo.
set -u
PATCH="$1"; TIER="$2"; shift 2
cd /repo || exit 2
if [ -n "$(git status --porcelain)" ]; then echo "/repo is dirty, refusing"; exit 2; fi
trap 'git -C /repo checkout -- . ; git -C /repo clean -fdq' EXIT
git apply "$PATCH" || { echo "patch does not apply"; exit 2; }
cd "${VERIF_CHECK_ROOT:-/verif}"
for id in "$@"; do
  out=$(./check "$id" "$TIER" 2>&1)
  rc=$?
  nv=$(echo "$out" | grep -c '^VIOLATION')
  echo "== $id rc=$rc violations=$nv"
  echo "$out" | grep '^VIOLATION\|key=\|BUILD-ERROR\|harness panic' | cut -c1-260 | head -6
done
