package world

import (
	"fmt"
	"sync"
	"time"

	"github.com/lidofinance/dc4bc/client/types"
)

// Live mode: every node runs the repository's real Poll() loop (its own ticker, its own order of
// LoadOffset / GetMessages / ProcessMessage / SaveOffset) in a goroutine, like dc4bc_d does, while the
// operators act concurrently through whatever channel the world was built with. Wall-clock time only
// paces the workload; verdicts are taken from the state at quiescence, and a world that does not
// become quiescent within the (generous) bound is inconclusive.
type liveState struct {
	wg      sync.WaitGroup
	started bool
	PollErr []error
	mu      sync.Mutex
}

// StartLive starts the real pollers (idempotent).
func (w *World) StartLive() {
	if w.live == nil {
		w.live = &liveState{}
	}
	if w.live.started {
		return
	}
	w.live.started = true
	for _, n := range w.Nodes {
		w.live.wg.Add(1)
		go func(n *Node) {
			defer w.live.wg.Done()
			if err := n.Svc.Poll(); err != nil {
				w.live.mu.Lock()
				w.live.PollErr = append(w.live.PollErr, fmt.Errorf("%s: %w", n.Name, err))
				w.live.mu.Unlock()
			}
		}(n)
	}
}

// StopLive cancels the pollers and waits for them.
func (w *World) StopLive() []error {
	if w.live == nil || !w.live.started {
		return nil
	}
	for _, n := range w.Nodes {
		if n.Cancel != nil {
			n.Cancel()
		}
	}
	w.live.wg.Wait()
	w.live.started = false
	return w.live.PollErr
}

// RunLive plays the operators until the world is quiescent: every node has consumed the whole board
// and no operation the filter lets through is pending, observed twice more than one poll period apart.
func (w *World) RunLive(maxWait time.Duration) bool {
	w.StartLive()
	deadline := time.Now().Add(maxWait)
	failed := map[string]int{}
	calm := 0
	for time.Now().Before(deadline) {
		acted := false
		bl := w.Board.Len()
		behind := false
		for i, n := range w.Nodes {
			if int(n.Offset()) < bl {
				behind = true
			}
			if n.Cold == nil {
				continue
			}
			for _, op := range w.PendingOps(n) {
				if w.OpFilter != nil && !w.OpFilter(n, op) {
					continue
				}
				key := fmt.Sprint(i, "/", op.ID)
				if failed[key] >= 2 {
					continue
				}
				if err := w.HandleOp(n, cloneOperation(op)); err != nil {
					failed[key]++
					w.tracef("%s op %s refused: %v", n.Name, op.Type, err)
				}
				acted = true
			}
		}
		if acted || behind || w.Board.Len() != bl {
			calm = 0
			time.Sleep(50 * time.Millisecond)
			continue
		}
		calm++
		if calm >= 3 {
			return true
		}
		time.Sleep(600 * time.Millisecond)
	}
	return false
}

func cloneOperation(o *types.Operation) *types.Operation {
	c := *o
	return &c
}

// RealPollToEnd runs the node's real Poll() loop (its own recipient filter, its own order of calls) in a
// goroutine until the node's saved offset has reached boardLen, then cancels it. It reports whether the
// end was reached within maxWait (pacing only; callers treat a miss as inconclusive).
func (n *Node) RealPollToEnd(boardLen int, maxWait time.Duration) (bool, error) {
	errc := make(chan error, 1)
	go func() { errc <- n.Svc.Poll() }()
	deadline := time.Now().Add(maxWait)
	reached := false
	for time.Now().Before(deadline) {
		if off, err := n.State.LoadOffset(); err == nil && int(off) >= boardLen {
			reached = true
			break
		}
		select {
		case err := <-errc:
			return false, err
		case <-time.After(20 * time.Millisecond):
		}
	}
	if n.Cancel != nil {
		n.Cancel()
	}
	select {
	case err := <-errc:
		return reached, err
	case <-time.After(10 * time.Second):
		return reached, fmt.Errorf("Poll() did not return after its context was cancelled")
	}
}
