// Package sched holds the deterministic PRNG and the schedule helpers shared by all checks.
package sched

import (
	"os"
	"strconv"
)

// Rng is SplitMix64: tiny, seedable, value-determined (no wall clock anywhere).
type Rng struct{ s uint64 }

func New(seed uint64) *Rng { return &Rng{s: seed*0x9E3779B97F4A7C15 + 0x1234567} }

// Derive returns an independent stream for (seed, index...).
func Derive(seed uint64, idx ...uint64) *Rng {
	r := New(seed)
	for _, i := range idx {
		r.s ^= i * 0xD6E8FEB86659FD93
		r.Uint64()
	}
	return r
}

func (r *Rng) Uint64() uint64 {
	r.s += 0x9E3779B97F4A7C15
	z := r.s
	z = (z ^ (z >> 30)) * 0xBF58476D1CE4E5B9
	z = (z ^ (z >> 27)) * 0x94D049BB133111EB
	return z ^ (z >> 31)
}

func (r *Rng) Intn(n int) int {
	if n <= 0 {
		return 0
	}
	return int(r.Uint64() % uint64(n))
}

func (r *Rng) Bool() bool { return r.Uint64()&1 == 1 }

func (r *Rng) Bytes(n int) []byte {
	b := make([]byte, n)
	for i := 0; i < n; i += 8 {
		v := r.Uint64()
		for j := 0; j < 8 && i+j < n; j++ {
			b[i+j] = byte(v >> (8 * j))
		}
	}
	return b
}

func (r *Rng) Perm(n int) []int {
	p := make([]int, n)
	for i := range p {
		p[i] = i
	}
	for i := n - 1; i > 0; i-- {
		j := r.Intn(i + 1)
		p[i], p[j] = p[j], p[i]
	}
	return p
}

// Read implements io.Reader so the stream can seed ed25519 key generation.
func (r *Rng) Read(p []byte) (int, error) {
	copy(p, r.Bytes(len(p)))
	return len(p), nil
}

// SeedFromEnv reads VERIF_SEED (default 1).
func SeedFromEnv() uint64 {
	if v := os.Getenv("VERIF_SEED"); v != "" {
		if n, err := strconv.ParseUint(v, 10, 64); err == nil {
			return n
		}
		if n, err := strconv.ParseInt(v, 10, 64); err == nil {
			return uint64(n)
		}
	}
	return 1
}

// Subsets enumerates all subsets of {0..n-1} with size >= min, in a fixed order.
func Subsets(n, min int) [][]int {
	var out [][]int
	for mask := 0; mask < 1<<n; mask++ {
		var s []int
		for i := 0; i < n; i++ {
			if mask&(1<<i) != 0 {
				s = append(s, i)
			}
		}
		if len(s) >= min {
			out = append(out, s)
		}
	}
	return out
}
