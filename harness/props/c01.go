package props

import (
	"encoding/json"
	"fmt"
	"time"

	"github.com/corestario/kyber/sign/tbls"

	"github.com/lidofinance/dc4bc/client/types"
	"github.com/lidofinance/dc4bc/fsm/types/requests"

	"verifharness/oracle"
	"verifharness/sched"
	"verifharness/world"
)

// C01: reconstructed threshold signatures verify under the group key and agree.
func init() { Register("C01", "exploration", checkC01) }

type ntCase struct{ N, T int }

func ntCases(maxN int) []ntCase {
	var out []ntCase
	for n := 2; n <= maxN; n++ {
		for t := 2; t <= n; t++ {
			out = append(out, ntCase{n, t})
		}
	}
	return out
}

func randPayload(r *sched.Rng) []byte {
	switch r.Intn(7) {
	case 6:
		// a text file as editors and `echo` leave it, or a root whose last byte happens to be a line break
		return append(r.Bytes(4+r.Intn(28)), []string{"\n", "\r\n", "\n\n", "\r"}[r.Intn(4)]...)
	case 0:
		return []byte{byte(r.Intn(256))}
	case 1:
		return r.Bytes(1 + r.Intn(4096))
	case 2:
		return []byte(`{"a":"\u0000","b":[1,2,"` + string(r.Bytes(3)) + `"]}`)
	case 3:
		return append([]byte{0x00, 0xff, 0x00}, r.Bytes(29)...)
	default:
		return r.Bytes(8 + r.Intn(64))
	}
}

var fileNames = []string{"plain.txt", "with space.bin", "ünïcødé-файл", "a/b/../c", "dup", "x"}

func checkC01(c *Ctx) {
	c.Rule = "full ceremonies (real nodes + real airgapped machines) for (n,t) configurations under seeded random schedules; per ceremony 2-3 batches (explicit payloads, baked windows, one payload re-proposed with a different signer subset). Every signature value in every reconstruction broadcast, every node's store and every export is judged by prysm/blst against the harness-expanded payload and compared byte-for-byte per payload. On every channel the proposal on the board is compared with what the operator handed in (file name -> bytes; CLI directories contain sub-directories; payloads may end in line breaks); one long baked window (101..260 messages) per small (n,t). distinct = distinct (n,t,signer-subset,batch-kind) combinations that produced at least one judged signature"
	c.Assumptions = []string{"prysm/blst is the independent Ethereum BLS verifier", "airgapped.N (scrypt cost) lowered to 4: does not touch signing", "in-memory board with the file board's ID/offset assignment"}
	cases := ntCases(c.Pick(5, 5))
	if c.Thorough() {
		cases = append(cases, ntCase{6, 2}, ntCase{6, 4}, ntCase{6, 6}, ntCase{7, 2}, ntCase{7, 4}, ntCase{7, 7})
	}
	reps := c.Pick(6, 120)
	type job struct {
		nt  ntCase
		rep int
	}
	var jobs []job
	for _, nt := range cases {
		for r := 0; r < reps; r++ {
			jobs = append(jobs, job{nt, r})
		}
	}
	liveDone := make(chan struct{})
	go func() {
		defer close(liveDone)
		defer func() {
			if x := recover(); x != nil {
				c.Inconclusive("live world: harness panic: %v", x)
			}
		}()
		c01Live(c)
	}()
	Parallel(len(jobs), 16, func(i int) {
		jb := jobs[i]
		runC01Case(c, jb.nt.N, jb.nt.T, uint64(jb.rep))
	})
	<-liveDone
}

// c01Live: one world in which every node runs the repository's real Poll() loop (as the daemon does)
// on LevelDB, with the operators on the REST API: two key generations with different thresholds started
// back to back, then batches in both rounds. Judged at quiescence like every other ceremony.
func c01Live(c *Ctx) {
	seed := c.Seed*211 + 7
	r := sched.Derive(seed, 3)
	n := 3
	wit := map[string]interface{}{"family": "live Poll loops, two rounds", "n": n, "case_seed": seed, "operator_channel": "REST API"}
	w, err := world.NewWorld(world.Options{N: n, T: 2, Seed: seed, UseLevelDB: true, ViaHTTP: true})
	if err != nil {
		c.Inconclusive("live world: %v", err)
		return
	}
	defer w.Close()
	w.StartLive()
	ths := []int{2, 3}
	var ces []*Ceremony
	for k, t := range ths {
		id, err := w.StartDKG(k, t, now())
		if err != nil {
			c.Inconclusive("live world: start %d: %v", k, err)
			return
		}
		ces = append(ces, &Ceremony{W: w, N: n, T: t, Round: id})
	}
	if !w.RunLive(3 * time.Minute) {
		c.Inconclusive("live world: key generations not quiescent within the bound")
		return
	}
	keys := make([][]byte, len(ces))
	for k, ce := range ces {
		if !ce.AllIn(StIdle) {
			c.Inconclusive("live world: round %d ended %v (judged by C02/C05)", k, ce.States())
			return
		}
		if keys[k], _, err = ce.GroupKeyFromMachines(); err != nil {
			c.Inconclusive("live world: %v", err)
			return
		}
	}
	expected := []map[string]map[string]ExpectedMsg{{}, {}}
	complete := []map[string]bool{{}, {}}
	for bi, k := range []int{0, 1, 0, 1} {
		ce := ces[k]
		before := w.Board.Len()
		data := map[string][]byte{fmt.Sprintf("live-%d", bi): randPayload(r), fmt.Sprintf("live-%d-b", bi): randPayload(r)}
		if err := w.ProposeSign(r.Intn(n), ce.Round, data, nil); err != nil {
			c.Inconclusive("live world: proposal %d: %v", bi, err)
			return
		}
		if !w.RunLive(2 * time.Minute) {
			c.Inconclusive("live world: batch %d not quiescent within the bound", bi)
			return
		}
		for _, m := range w.Board.All()[before:] {
			if m.Event == EvSigningStart && m.DkgRoundID == ce.Round {
				if bid, msgs, e := ExpandProposal(m.Data); e == nil {
					expected[k][bid] = map[string]ExpectedMsg{}
					for _, x := range msgs {
						expected[k][bid][x.ID] = x
					}
					complete[k][bid] = true
				}
			}
		}
		c.Eval(1)
		c.Add("batches_signed_under_live_poll_loops", 1)
		c.Distinct(fmt.Sprintf("live|round%d|batch%d", k, bi))
	}
	if errs := w.StopLive(); len(errs) > 0 {
		c.Violate("C01/live-poll-loop-ended-with-an-error", fmt.Sprint(errs), wit)
	}
	for k, ce := range ces {
		j := newSigJudge(c, keys[k])
		ce.JudgeSignatures(c, j, expected[k], complete[k], wit)
		c.Add("signatures_verified", j.Verified)
		if j.Verified == 0 {
			c.Violate("C01/no-signature-produced", fmt.Sprintf("live world, round %d: no signature anywhere", k), wit)
		}
	}
}

func runC01Case(c *Ctx, n, t int, rep uint64) {
	seed := c.Seed*1000003 + uint64(n)*10007 + uint64(t)*101 + rep
	r := sched.Derive(seed, 1)
	wit := map[string]interface{}{"n": n, "t": t, "case_seed": seed}
	// every other ceremony is driven by operators who use the REST API (startDKG, getOperations,
	// approveDKGParticipation, handleProcessedOperationJSON, proposeSign*, getSignatures)
	viaHTTP := rep%2 == 1
	// ... and one in six by operators who use the shipped dc4bc_cli binary (child process per command)
	viaCLI := rep%6 == 5 && world.CLIBin() != ""
	wit["operator_channel"] = map[bool]string{false: "node service", true: "REST API"}[viaHTTP]
	if viaCLI {
		wit["operator_channel"] = "dc4bc_cli binary"
	}
	// every third ceremony: participants with unusual (legal) user names
	odd := rep%3 == 2
	wit["odd_user_names"] = odd
	ce, err := NewCeremonyWith(world.Options{N: n, T: t, Seed: seed, ViaHTTP: viaHTTP, ViaCLI: viaCLI, OddNames: odd}, world.RandomPolicy)
	if err != nil {
		c.Inconclusive("ceremony n=%d t=%d seed=%d: %v", n, t, seed, err)
		return
	}
	defer ce.Close()
	if !ce.AllIn(StIdle) {
		c.Inconclusive("key generation n=%d t=%d seed=%d ended in %v (judged by C02/C05)", n, t, seed, ce.States())
		return
	}
	key, poly, err := ce.GroupKeyFromMachines()
	if err != nil {
		c.Inconclusive("group key n=%d t=%d: %v (judged by C02)", n, t, err)
		return
	}
	j := newSigJudge(c, key)
	expected := map[string]map[string]ExpectedMsg{}
	complete := map[string]bool{}
	subsets := sched.Subsets(n, t)
	var repeat map[string][]byte
	batches := 2 + r.Intn(2)
	for b := 0; b < batches; b++ {
		spec := BatchSpec{Proposer: r.Intn(n), Signers: subsets[r.Intn(len(subsets))]}
		kind := "explicit"
		switch {
		case b == 1 && rep == 0 && n <= 3:
			// a long baked window (the documented use: hundreds of validators per batch), its length not a
			// round number
			lo := r.Intn(18000)
			spec.Range = &world.Range{Start: lo, End: lo + 101 + r.Intn(160)}
			kind = "baked-long"
			c.Add("messages_in_long_baked_batches", spec.Range.End-spec.Range.Start)
		case b == 1 && r.Intn(2) == 0:
			lo := []int{0, 18631 - 3, r.Intn(18600)}[r.Intn(3)]
			spec.Range = &world.Range{Start: lo, End: lo + 1 + r.Intn(3)}
			kind = "baked"
		case b == batches-1 && repeat != nil:
			spec.Data = repeat
			kind = "repeat"
		default:
			spec.Data = map[string][]byte{}
			k := 1 + r.Intn(3)
			for m := 0; m < k; m++ {
				spec.Data[fmt.Sprintf("%s-%d", fileNames[r.Intn(len(fileNames))], m)] = randPayload(r)
			}
			if r.Intn(3) == 0 { // duplicate payload under two names
				for _, v := range spec.Data {
					spec.Data["dup-of"] = v
					break
				}
			}
			if repeat == nil {
				repeat = spec.Data
			}
		}
		prop, err := ce.RunBatch(spec, world.RandomPolicy)
		if ce.ProposalMismatch != "" {
			c.Violate("C01/proposal-differs-from-what-was-handed-in", fmt.Sprintf("%s channel: %s", wit["operator_channel"], ce.ProposalMismatch), wit)
		}
		if err != nil {
			c.Inconclusive("batch n=%d t=%d seed=%d: %v", n, t, seed, err)
			return
		}
		bid, msgs, err := ExpandProposal(prop.Data)
		if err != nil {
			c.Inconclusive("expand: %v", err)
			return
		}
		expected[bid] = map[string]ExpectedMsg{}
		for _, m := range msgs {
			expected[bid][m.ID] = m
		}
		complete[bid] = true
		c.Eval(1)
		c.Distinct(fmt.Sprintf("n%d t%d S=%s %s", n, t, joinInts(spec.Signers), kind))
		if rep == 0 && b == 0 {
			c.Sample(map[string]interface{}{"n": n, "t": t, "signers": spec.Signers, "proposer": spec.Proposer, "kind": kind, "messages": len(msgs), "board_len": ce.W.Board.Len()})
		}
	}
	// one more batch answered by exactly t participants, one of whose answers was damaged on its way
	// from the machine (an entry missing, repeated, or carrying another message's id): whatever the
	// nodes reconstruct, broadcast or store for it is judged like everything else
	{
		kinds := []string{"entry-missing", "entry-repeated", "entry-under-other-id", "entries-swapped"}
		kind := kinds[r.Intn(len(kinds))]
		set := subsets[r.Intn(len(subsets))]
		victim := set[r.Intn(len(set))]
		damaged := 0
		ce.W.ResultHook = func(nd *world.Node, req, res *types.Operation) *types.Operation {
			if nd.Idx != victim || string(req.Type) != OpSigning || len(res.ResultMsgs) != 1 {
				return res
			}
			var pr requests.SigningProposalBatchPartialSignRequests
			if json.Unmarshal(res.ResultMsgs[0].Data, &pr) != nil || len(pr.PartialSigns) < 2 {
				return res
			}
			ps := pr.PartialSigns
			switch kind {
			case "entry-missing":
				pr.PartialSigns = ps[1:]
			case "entry-repeated":
				pr.PartialSigns = append(ps[1:], ps[1])
			case "entry-under-other-id":
				ps[0].MessageID = ps[1].MessageID
			case "entries-swapped":
				ps[0].Sign, ps[1].Sign = ps[1].Sign, ps[0].Sign
			}
			res.ResultMsgs[0].Data, _ = json.Marshal(pr)
			damaged++
			return res
		}
		data := map[string][]byte{}
		for m := 0; m < 3; m++ {
			data[fmt.Sprintf("damaged-%d", m)] = randPayload(r)
		}
		prop, err := ce.RunBatch(BatchSpec{Proposer: r.Intn(n), Signers: set, NoLate: true, Data: data}, world.RandomPolicy)
		ce.W.ResultHook = nil
		if prop != nil {
			if bid, msgs, e := ExpandProposal(prop.Data); e == nil {
				expected[bid] = map[string]ExpectedMsg{}
				for _, m := range msgs {
					expected[bid][m.ID] = m
				}
				complete[bid] = false
				c.Eval(1)
				c.Add("batches_with_a_damaged_answer", damaged)
				c.Distinct(fmt.Sprintf("n%d t%d damaged-answer %s", n, t, kind))
			}
		}
		if err != nil {
			c.Note("damaged-answer batch (%s) n=%d t=%d: %v", kind, n, t, err)
		}
		wit["damaged_answer"] = map[string]interface{}{"kind": kind, "signers": set, "damaged_signer": victim}
	}
	ce.JudgeSignatures(c, j, expected, complete, wit)
	c.Add("signatures_verified", j.Verified)
	c.Add("placeholder_entries_seen", j.Empty)
	c.Add("reconstruction_broadcasts", len(BoardMsgs(ce.W, ce.Round, EvSigRecon)))
	c.Add("ceremonies", 1)
	if viaCLI {
		c.Add("ceremonies_driven_through_the_dc4bc_cli_binary", 1)
		cliCalls := map[string]int{}
		for _, nd := range ce.W.Nodes {
			if nd.CLI != nil {
				for k, v := range nd.CLI.Calls {
					cliCalls[k] += v
				}
			}
		}
		for k, v := range cliCalls {
			c.Add("cli_commands "+k, v)
		}
	}
	if viaHTTP {
		c.Add("ceremonies_driven_through_the_rest_api", 1)
		calls := map[string]int{}
		for _, nd := range ce.W.Nodes {
			if nd.API != nil {
				for k, v := range nd.API.Calls {
					calls[k] += v
				}
			}
		}
		for k, v := range calls {
			c.Add("api_calls "+k, v)
		}
	}
	if j.Verified == 0 {
		c.Violate("C01/no-signature-produced", fmt.Sprintf("n=%d t=%d: batches answered by >=t participants produced no signature anywhere", n, t), wit)
		return
	}
	// negative controls: the oracle must be able to say no
	for _, msgs := range expected {
		for _, m := range msgs {
			sig := j.byMsg[oracle.Hash(string(m.Payload))]
			if sig == nil {
				continue
			}
			if ok, _ := oracle.VerifyG2(key, append([]byte("x"), m.Payload...), sig); ok {
				c.Violate("C01/oracle-negative-control", "signature verified for a different payload", wit)
			}
			c.Add("negative_controls", 1)
			// t-1 shares, combined as if the threshold were t-1, must not give a valid signature
			if t >= 2 {
				var shares [][]byte
				for i := 0; i < t-1; i++ {
					kr, err := Keyring(ce.W.Nodes[i], ce.Round)
					if err != nil || kr == nil {
						break
					}
					ps, err := tbls.Sign(oracle.NewSuite(), kr.Share, m.Payload)
					if err == nil {
						shares = append(shares, ps)
					}
				}
				if len(shares) == t-1 && t-1 >= 1 {
					full, err := tbls.Recover(oracle.NewSuite(), poly, m.Payload, shares, t-1, n)
					if err == nil {
						if ok, _ := oracle.VerifyG2(key, m.Payload, full); ok {
							c.Violate("C01/t-minus-1-shares-suffice", fmt.Sprintf("n=%d t=%d: %d shares combined into a valid signature", n, t, t-1), wit)
						}
						c.Add("negative_controls", 1)
					}
				}
			}
			return
		}
	}
}
