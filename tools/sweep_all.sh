#!/bin/bash
# usage: tools/sweep_all.sh <tier> <seed...>   — every check at the given seeds on the unchanged tree
cd /verif || exit 2
tier=$1; shift
for s in "$@"; do for id in C01 C02 C03 C04 C05 C06 C07 C08 C09 C10 C11 C12 C13 C14 C15 C16 C17 C18 C19 C20; do
  out=$(VERIF_SEED=$s ./check $id $tier 2>&1); rc=$?
  echo "rc=$rc $(echo "$out" | tail -1)"
  echo "$out" | grep '^VIOLATION\|harness panic\|BUILD-ERROR' | head -3
done; done
