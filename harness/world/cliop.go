package world

import (
	"context"
	"encoding/json"
	"fmt"
	"net/http/httptest"
	"os"
	"os/exec"
	"path/filepath"
	"regexp"
	"strings"
	"time"

	"github.com/lidofinance/dc4bc/client/types"
)

// CLIOp is the operator's tool chain as shipped: the dc4bc_cli binary (built from the tree under
// test) run as a child process per command against the node's REST API on a loopback port, with
// operations and results travelling as the JSON files the tools write and read.
type CLIOp struct {
	Bin   string // path of dc4bc_cli
	Addr  string // host:port of the node's REST API
	Dir   string // --json_files_folder
	srv   *httptest.Server
	Calls map[string]int
}

// CLIBin returns the dc4bc_cli binary the check script built, "" if there is none.
func CLIBin() string { return os.Getenv("VERIF_CLI_BIN") }

// ReinitializerBin returns the dkg_reinitializer binary the check script built, "" if none.
func ReinitializerBin() string { return os.Getenv("VERIF_REINIT_BIN") }

// NewCLIOp serves node n's REST API on a loopback port and returns the tool-chain operator for it.
func NewCLIOp(n *Node, dir string) (*CLIOp, error) {
	if CLIBin() == "" {
		return nil, fmt.Errorf("no dc4bc_cli binary (VERIF_CLI_BIN)")
	}
	if n.API == nil {
		return nil, fmt.Errorf("node has no REST API")
	}
	if err := os.MkdirAll(dir, 0o755); err != nil {
		return nil, err
	}
	c := &CLIOp{Bin: CLIBin(), Dir: dir, Calls: map[string]int{}}
	c.srv = httptest.NewServer(n.API.h)
	c.Addr = strings.TrimPrefix(c.srv.URL, "http://")
	return c, nil
}

// Rebind points the loopback server at the node's current REST API (after a rewire).
func (c *CLIOp) Rebind(n *Node) {
	if c.srv != nil && n.API != nil {
		c.srv.Config.Handler = n.API.h
	}
}

func (c *CLIOp) Close() {
	if c.srv != nil {
		c.srv.Close()
		c.srv = nil
	}
}

// CLIError is a command that exited non-zero.
type CLIError struct {
	Cmd    string
	Output string
}

func (e *CLIError) Error() string { return fmt.Sprintf("dc4bc_cli %s: %s", e.Cmd, e.Output) }

var errLine = regexp.MustCompile(`(?m)^Error: (.*)$`)

// Run executes one CLI command; stdin is fed to the process.
func (c *CLIOp) Run(stdin string, args ...string) (string, error) {
	c.Calls[args[0]]++
	ctx, cancel := context.WithTimeout(context.Background(), 2*time.Minute)
	defer cancel()
	full := append(append([]string{}, args...), "--listen_addr", c.Addr, "--json_files_folder", c.Dir)
	cmd := exec.CommandContext(ctx, c.Bin, full...)
	cmd.Stdin = strings.NewReader(stdin)
	cmd.Env = append(os.Environ(), "NO_COLOR=1")
	out, err := cmd.CombinedOutput()
	if ctx.Err() != nil {
		return string(out), fmt.Errorf("dc4bc_cli %s: no answer within two minutes (harness watchdog)", args[0])
	}
	if err != nil {
		msg := string(out)
		if m := errLine.FindStringSubmatch(msg); m != nil {
			msg = m[1]
		}
		return string(out), &CLIError{Cmd: args[0], Output: msg}
	}
	return string(out), nil
}

func (c *CLIOp) StartDKG(payload []byte) error {
	p := filepath.Join(c.Dir, fmt.Sprintf("start_dkg_%d.json", c.Calls["start_dkg"]))
	if err := os.WriteFile(p, payload, 0o600); err != nil {
		return err
	}
	_, err := c.Run("", "start_dkg", p)
	return err
}

// Approve: every other time through the interactive menu, otherwise by the direct command.
func (c *CLIOp) Approve(opID string) error {
	if c.Calls["approve_participation"]++; c.Calls["approve_participation"]%2 == 0 {
		out, err := c.SelectOperation(opID)
		if err == nil && strings.Contains(out, "Error:") {
			// the sub-command's failure is printed but does not change the tool's exit status
			if m := errLine.FindStringSubmatch(out); m != nil {
				return &CLIError{Cmd: "approve_participation", Output: m[1]}
			}
		}
		return err
	}
	c.Calls["approve_participation"]--
	_, err := c.Run("", "approve_participation", opID)
	return err
}

var savedTo = regexp.MustCompile(`json file was saved to: (.*)`)

var menuEntry = regexp.MustCompile(`(\d+)\)\s+DKG round ID: \S+\s+Operation ID: (\S+)`)
var ansi = regexp.MustCompile("\x1b\\[[0-9;]*m")

// SelectOperation runs the interactive `get_operations`, waits for its menu, and chooses opID the way
// an operator does (by typing the number the tool printed next to it). Returns the whole output.
func (c *CLIOp) SelectOperation(opID string) (string, error) {
	c.Calls["get_operations"]++
	ctx, cancel := context.WithTimeout(context.Background(), 2*time.Minute)
	defer cancel()
	cmd := exec.CommandContext(ctx, c.Bin, "get_operations", "--listen_addr", c.Addr, "--json_files_folder", c.Dir)
	cmd.Env = append(os.Environ(), "NO_COLOR=1")
	stdin, err := cmd.StdinPipe()
	if err != nil {
		return "", err
	}
	pr, pw, err := os.Pipe()
	if err != nil {
		return "", err
	}
	cmd.Stdout, cmd.Stderr = pw, pw
	if err := cmd.Start(); err != nil {
		pw.Close()
		pr.Close()
		return "", err
	}
	pw.Close()
	var out strings.Builder
	answered := false
	buf := make([]byte, 4096)
	for {
		n, rerr := pr.Read(buf)
		if n > 0 {
			out.Write(buf[:n])
			clean := ansi.ReplaceAllString(out.String(), "")
			if !answered && strings.Contains(clean, "Select operation and press Enter") {
				answered = true
				choice := ""
				for _, m := range menuEntry.FindAllStringSubmatch(clean, -1) {
					if m[2] == opID {
						choice = m[1]
					}
				}
				if choice == "" {
					_ = stdin.Close() // the operation is not on the menu: leave (EOF ends the tool)
				} else {
					_, _ = stdin.Write([]byte(choice + "\n"))
					_ = stdin.Close()
				}
			}
		}
		if rerr != nil {
			break
		}
	}
	pr.Close()
	werr := cmd.Wait()
	clean := ansi.ReplaceAllString(out.String(), "")
	if ctx.Err() != nil {
		return clean, fmt.Errorf("dc4bc_cli get_operations: no end within two minutes (harness watchdog)")
	}
	if werr != nil {
		msg := clean
		if m := errLine.FindStringSubmatch(msg); m != nil {
			msg = m[1]
		}
		return clean, &CLIError{Cmd: "get_operations", Output: msg}
	}
	if !answered || !strings.Contains(clean, "Processing operation "+opID) {
		return clean, &CLIError{Cmd: "get_operations", Output: "operation " + opID + " is not offered by the tool"}
	}
	return clean, nil
}

// FetchOperation selects opID in get_operations and returns the request file the tool wrote.
func (c *CLIOp) FetchOperation(opID string) (string, error) {
	out, err := c.SelectOperation(opID)
	if err != nil {
		return "", err
	}
	m := savedTo.FindStringSubmatch(out)
	if m == nil {
		return "", &CLIError{Cmd: "get_operations", Output: "no request file was written: " + lastLines(out, 3)}
	}
	return strings.TrimSpace(m[1]), nil
}

func lastLines(s string, n int) string {
	ls := strings.Split(strings.TrimSpace(s), "\n")
	if len(ls) > n {
		ls = ls[len(ls)-n:]
	}
	return strings.Join(ls, " | ")
}

// ReadOperationFile is what the airgapped prompt's read_operation does with the file.
func ReadOperationFile(path string) (*types.Operation, error) {
	bz, err := os.ReadFile(strings.Trim(path, " \n"))
	if err != nil {
		return nil, err
	}
	var op types.Operation
	if err := json.Unmarshal(bz, &op); err != nil {
		return nil, fmt.Errorf("failed to unmarshal Operation: %w", err)
	}
	return &op, nil
}

func (c *CLIOp) SubmitFile(resultPath string) error {
	_, err := c.Run("", "read_operation_result", resultPath)
	return err
}

func (c *CLIOp) ProposeBatch(dkgHex string, data map[string][]byte) error {
	d := filepath.Join(c.Dir, fmt.Sprintf("batch_%d", c.Calls["sign_batch_data"]))
	if err := os.MkdirAll(d, 0o755); err != nil {
		return err
	}
	for name, bz := range data {
		if err := os.WriteFile(filepath.Join(d, name), bz, 0o600); err != nil {
			return fmt.Errorf("file name not usable on disk: %w", err)
		}
	}
	// an operator's directory is rarely flat: sub-directories (sorting before, between and after the files)
	// are not part of the batch
	for _, sub := range []string{"!already-signed", "m-archive", "~old"} {
		if _, clash := data[sub]; clash {
			continue
		}
		if err := os.MkdirAll(filepath.Join(d, sub), 0o755); err == nil {
			_ = os.WriteFile(filepath.Join(d, sub, "inner.txt"), []byte("not part of the batch"), 0o600)
		}
	}
	_, err := c.Run("", "sign_batch_data", dkgHex, d)
	return err
}

func (c *CLIOp) ProposeBaked(dkgHex string, lo, hi int) error {
	_, err := c.Run("", "sign_baked", dkgHex, fmt.Sprint(lo), fmt.Sprint(hi))
	return err
}

func (c *CLIOp) Reinit(file string) error {
	_, err := c.Run("", "reinit_dkg", file)
	return err
}

// ReinitFileHash runs get_reinit_dkg_file_hash (what operators compare out of band).
func (c *CLIOp) ReinitFileHash(file string) (string, error) {
	out, err := c.Run("", "get_reinit_dkg_file_hash", file)
	return strings.TrimSpace(out), err
}

// ExportSignatures runs export_signatures and returns the path of the dump it wrote ("" if the
// tool reported no signatures).
func (c *CLIOp) ExportSignatures(dkgHex string) (string, error) {
	out, err := c.Run("", "export_signatures", dkgHex)
	if err != nil {
		return "", err
	}
	m := savedTo.FindStringSubmatch(out)
	if m == nil {
		return "", nil
	}
	return strings.TrimSpace(m[1]), nil
}
