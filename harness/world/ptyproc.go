package world

import (
	"bytes"
	"fmt"
	"os"
	"os/exec"
	"strings"
	"sync"
	"syscall"
	"time"
	"unsafe"
)

// PtyProc runs an interactive program on a pseudo-terminal (the airgapped prompt insists on a terminal:
// raw mode for its line editor, ReadPassword for the encryption password).
type PtyProc struct {
	cmd    *exec.Cmd
	master *os.File
	mu     sync.Mutex
	buf    bytes.Buffer
	mark   int
	exited chan struct{}
	err    error
}

func openPty() (*os.File, *os.File, error) {
	m, err := os.OpenFile("/dev/ptmx", os.O_RDWR|syscall.O_NOCTTY, 0)
	if err != nil {
		return nil, nil, err
	}
	var unlock int32
	if _, _, e := syscall.Syscall(syscall.SYS_IOCTL, m.Fd(), syscall.TIOCSPTLCK, uintptr(unsafe.Pointer(&unlock))); e != 0 {
		m.Close()
		return nil, nil, e
	}
	var n uint32
	if _, _, e := syscall.Syscall(syscall.SYS_IOCTL, m.Fd(), syscall.TIOCGPTN, uintptr(unsafe.Pointer(&n))); e != 0 {
		m.Close()
		return nil, nil, e
	}
	s, err := os.OpenFile(fmt.Sprintf("/dev/pts/%d", n), os.O_RDWR|syscall.O_NOCTTY, 0)
	if err != nil {
		m.Close()
		return nil, nil, err
	}
	return m, s, nil
}

// StartPty starts bin with args on a fresh pseudo-terminal.
func StartPty(bin string, args ...string) (*PtyProc, error) {
	m, s, err := openPty()
	if err != nil {
		return nil, err
	}
	cmd := exec.Command(bin, args...)
	cmd.Stdin, cmd.Stdout, cmd.Stderr = s, s, s
	cmd.SysProcAttr = &syscall.SysProcAttr{Setsid: true, Setctty: true, Ctty: 0}
	cmd.Env = append(os.Environ(), "TERM=dumb")
	if err := cmd.Start(); err != nil {
		m.Close()
		s.Close()
		return nil, err
	}
	s.Close()
	p := &PtyProc{cmd: cmd, master: m, exited: make(chan struct{})}
	go func() {
		b := make([]byte, 4096)
		for {
			n, err := m.Read(b)
			if n > 0 {
				p.mu.Lock()
				p.buf.Write(b[:n])
				p.mu.Unlock()
			}
			if err != nil {
				break
			}
		}
	}()
	go func() {
		p.err = cmd.Wait()
		close(p.exited)
	}()
	return p, nil
}

// Expect waits until the output produced since the last Expect contains one of the substrings; returns
// that output. If the process exits first, or the bound passes, an error is returned with what was seen.
func (p *PtyProc) Expect(timeout time.Duration, subs ...string) (string, error) {
	deadline := time.Now().Add(timeout)
	for {
		p.mu.Lock()
		out := string(p.buf.Bytes()[p.mark:])
		p.mu.Unlock()
		for _, s := range subs {
			if i := strings.Index(out, s); i >= 0 {
				p.mu.Lock()
				p.mark += i + len(s)
				p.mu.Unlock()
				return out[:i+len(s)], nil
			}
		}
		select {
		case <-p.exited:
			time.Sleep(20 * time.Millisecond)
			p.mu.Lock()
			out = string(p.buf.Bytes()[p.mark:])
			p.mu.Unlock()
			return out, &PtyExit{Err: p.err, Output: out}
		default:
		}
		if time.Now().After(deadline) {
			return out, fmt.Errorf("no %q within %s (harness watchdog); saw %q", subs, timeout, trimTail(out, 300))
		}
		time.Sleep(5 * time.Millisecond)
	}
}

// PtyExit: the program ended while the harness was waiting for its output.
type PtyExit struct {
	Err    error
	Output string
}

func (e *PtyExit) Error() string {
	return fmt.Sprintf("the process ended (%v): %s", e.Err, trimTail(e.Output, 400))
}

func trimTail(s string, n int) string {
	if len(s) > n {
		return "..." + s[len(s)-n:]
	}
	return s
}

func (p *PtyProc) Send(s string) error {
	_, err := p.master.Write([]byte(s))
	return err
}

func (p *PtyProc) Alive() bool {
	select {
	case <-p.exited:
		return false
	default:
		return true
	}
}

// Kill is `kill -9`.
func (p *PtyProc) Kill() {
	if p.cmd.Process != nil {
		_ = p.cmd.Process.Kill()
	}
	<-p.exited
	p.master.Close()
}
