package props

import (
	"crypto/ed25519"
	"crypto/sha256"
	"encoding/hex"
	"encoding/json"
	"fmt"
	"strings"
	"time"

	"github.com/lidofinance/dc4bc/client/types"
	"github.com/lidofinance/dc4bc/fsm/types/requests"
	"github.com/lidofinance/dc4bc/storage"

	"verifharness/oracle"
	"verifharness/sched"
	"verifharness/world"
)

// C10: a participant's contribution can only come from that participant, round and step.
func init() { Register("C10", "exploration", checkC10) }

// participantEntries projects everything a round records for participant p (times dropped).
func participantEntries(n *world.Node, round string, p int) string {
	bz := RawDump(n, round)
	if bz == nil {
		return "<absent>"
	}
	var v struct {
		State   string
		Payload map[string]json.RawMessage
	}
	if json.Unmarshal(bz, &v) != nil {
		return "ERR"
	}
	out := v.State + "|"
	for _, part := range []string{"SignatureProposalPayload", "DKGProposalPayload", "SigningProposalPayload"} {
		var q struct{ Quorum map[string]json.RawMessage }
		if len(v.Payload[part]) == 0 || json.Unmarshal(v.Payload[part], &q) != nil {
			continue
		}
		if e, ok := q.Quorum[fmt.Sprint(p)]; ok {
			s, _ := oracle.Project(e, oracle.ProjOpts{})
			out += part + "=" + s + "|"
		}
	}
	return out
}

func payloadParticipant(data []byte) (int, bool) {
	var v struct{ ParticipantId *int }
	if json.Unmarshal(data, &v) != nil || v.ParticipantId == nil {
		return 0, false
	}
	return *v.ParticipantId, true
}

var allEvents = []string{EvConfirm, EvDecline, EvCommit, EvCommitErr, EvDeal, EvDealErr, EvResponse, EvResponseErr, EvMasterKey, EvMasterKeyErr, EvSigningStart, EvPartialSign, EvPartialErr, EvSigRecon, "signature_reconstruction_failed"}

// negativeTwin returns the failure event of the phase a genuine contribution belongs to.
func negativeTwin(ev string) string {
	switch ev {
	case EvConfirm:
		return EvDecline
	case EvCommit:
		return EvCommitErr
	case EvDeal:
		return EvDealErr
	case EvResponse:
		return EvResponseErr
	case EvMasterKey:
		return EvMasterKeyErr
	case EvPartialSign:
		return EvPartialErr
	}
	return ""
}

func checkC10(c *Ctx) {
	c.Rule = "two key-generation rounds with the same participants run concurrently on one board (one message per poll, snapshot after every step), each followed by a signing batch. For every (genuine message g by participant P, consuming node) pair, in the exact state in which the node awaits it: (a) every other participant S posts the same payload - and the phase's failure event naming P - under its own name and signature: nothing recorded for P and not the round state may change; (b) the counterpart message of the other round (same sender, same event) is re-posted under this round's id, and g itself is re-posted under every other event name: must be rejected without any change. (b5/b6) the cross-event replays are repeated in every later state of the round and right after the node consumed the genuine message (finding keys tell replays before and after the genuine one apart). (b7) a stranger's own round (the participants' names registered with her key) posting signature broadcasts that name a real round: nothing in the real rounds may change. A round cancelled by a decline and proposed again under the same id for the others: the one left out must not be able to answer in the name of the participant who now holds his index. A forged message read again by the running node (the repository's own Poll loop) after the operator rewound its read position must be refused again. distinct = distinct (family, event, state) cases"
	c.Assumptions = []string{"MemState substituted for LevelDB", "re-posted messages keep their genuine signature (it covers the payload bytes)"}
	cfgs := []ntCase{{3, 2}, {2, 2}}
	if c.Thorough() {
		cfgs = append(cfgs, ntCase{2, 2}, ntCase{3, 3}, ntCase{4, 3})
	}
	Parallel(len(cfgs), 4, func(i int) { runC10(c, cfgs[i].N, cfgs[i].T, c.Seed*77+uint64(i)) })
	for i := 0; i < c.Pick(1, 4); i++ {
		c10Reproposal(c, c.Seed*79+uint64(i))
	}
	for i := 0; i < c.Pick(1, 3); i++ {
		c10RewoundLog(c, c.Seed*83+uint64(i))
	}
}

func runC10(c *Ctx, n, t int, seed uint64) {
	w, err := world.NewWorld(world.Options{N: n, T: t, Seed: seed})
	if err != nil {
		c.Inconclusive("world: %v", err)
		return
	}
	defer w.Close()
	rec := NewRecorder(w)
	ra, err1 := w.StartDKG(0, t, now())
	rb, err2 := w.StartDKG(1, t, now().Add(time.Second))
	if err1 != nil || err2 != nil {
		c.Inconclusive("start: %v %v", err1, err2)
		return
	}
	// anyone may post a reinitialisation message (it is not authenticated): an empty one for an unused
	// round id and a malformed one travel on the board too; neither may weaken what follows
	tailRejected := `{"dkg_id":"` + strings.Repeat("c", 64) + `","threshold":2,"participants":[],"messages":[{"id":"x","dkg_round_id":"` + strings.Repeat("c", 64) + `","offset":0,"event":"event_dkg_commit_confirm_received","data":"e30=","signature":"AA==","sender":"nobody","recipient":""}]}`
	for _, d := range []string{`{"dkg_id":"` + strings.Repeat("e", 64) + `","threshold":2,"participants":[],"messages":[]}`, `{"dkg_id":"","threshold":0}`, tailRejected} {
		rid := strings.Repeat("e", 64)
		if strings.Contains(d, `"dkg_id":""`) {
			rid = ""
		}
		if d == tailRejected {
			rid = strings.Repeat("c", 64)
		}
		_ = w.Board.Send(storage.Message{DkgRoundID: rid, Event: EvReinit, Data: []byte(d), SenderAddr: "anyone", Signature: []byte("x")})
	}
	if _, q := w.Run(world.OneAtATimePolicy, 10000); !q {
		c.Inconclusive("two-round reference run not quiescent")
		return
	}
	for _, r := range []string{ra, rb} {
		ce := &Ceremony{W: w, N: n, T: t, Round: r}
		if !ce.AllIn(StIdle) {
			c.Inconclusive("round %s: %v", r[:6], ce.States())
			return
		}
		if _, err := ce.RunBatch(BatchSpec{Proposer: 0, Data: map[string][]byte{"f": []byte("payload " + r[:4])}}, world.OneAtATimePolicy); err != nil {
			c.Inconclusive("batch: %v", err)
			return
		}
	}
	rec.Stop()
	all := w.Board.All()
	other := map[string]string{ra: rb, rb: ra}
	// counterpart index: (round, sender, event, recipient) -> message
	idx := map[string]storage.Message{}
	for _, m := range all {
		k := m.DkgRoundID + "|" + m.SenderAddr + "|" + m.Event + "|" + m.RecipientAddr
		if _, ok := idx[k]; !ok {
			idx[k] = m
		}
	}
	var openers []storage.Message
	for _, m := range all {
		if m.Event == EvInit {
			openers = append(openers, m)
		}
	}
	done := map[string]bool{}
	nameIdx := map[string]int{}
	for _, nd := range w.Nodes {
		nameIdx[nd.Name] = nd.Idx
	}
	for _, m := range rec.Moments {
		for v, nd := range w.Nodes {
			g := NextFor(all, m, v, nd.Name)
			if g == nil || exempt(g.Event) || g.Event == EvSigningStart {
				continue
			}
			pk := fmt.Sprintf("%d@%d", g.Offset, v)
			if done[pk] {
				continue
			}
			done[pk] = true
			nd.Mem.Restore(m.Snaps[v])
			stateName := NodeState(nd, g.DkgRoundID)
			P, hasP := payloadParticipant(g.Data)
			baseWit := func(extra map[string]interface{}) map[string]interface{} {
				wi := map[string]interface{}{"n": n, "t": t, "genuine_offset": g.Offset, "event": g.Event, "genuine_sender": g.SenderAddr, "node": nd.Name, "state": stateName}
				for k, v := range extra {
					wi[k] = v
				}
				return wi
			}
			// (a) another participant speaks in P's name
			if hasP && g.Event != EvSigRecon {
				for _, S := range w.Nodes {
					if S.Name == g.SenderAddr {
						continue
					}
					variants := []struct {
						ev   string
						data []byte
					}{{g.Event, g.Data}}
					if tw := negativeTwin(g.Event); tw != "" {
						var data []byte
						if tw == EvDecline {
							data = mkReq(requests.SignatureProposalParticipantRequest{ParticipantId: P, CreatedAt: now()})
						} else {
							data = mkReq(requests.DKGProposalConfirmationErrorRequest{ParticipantId: P, Error: requests.NewFSMError(fmt.Errorf("forged")), CreatedAt: now()})
						}
						variants = append(variants, struct {
							ev   string
							data []byte
						}{tw, data})
					}
					nTyped := len(variants)
					// the same claim in spellings a second JSON reader may treat differently from the first: the key in
					// another case, twice with different values, or left out (then the typed request reads 0)
					if g.Event != EvSigningStart {
						var fields map[string]json.RawMessage
						if json.Unmarshal(g.Data, &fields) == nil {
							if _, ok := fields["ParticipantId"]; ok {
								rest := func() string {
									var parts []string
									for _, k := range sortedKeys(fields) {
										if k != "ParticipantId" {
											kb, _ := json.Marshal(k)
											parts = append(parts, string(kb)+":"+string(fields[k]))
										}
									}
									return strings.Join(parts, ",")
								}()
								spell := []string{
									fmt.Sprintf(`{"participantid":%d,%s}`, P, rest),
									fmt.Sprintf(`{"PARTICIPANTID":%d,%s}`, P, rest),
									fmt.Sprintf(`{"ParticipantId":%d,"participantId":%d,%s}`, S.Idx, P, rest),
									fmt.Sprintf(`{"participantId":%d,"ParticipantId":%d,%s}`, P, S.Idx, rest),
								}
								if P == 0 {
									spell = append(spell, "{"+rest+"}")
								}
								for _, sp := range spell {
									variants = append(variants, struct {
										ev   string
										data []byte
									}{g.Event, []byte(sp)})
								}
							}
						}
					}
					for vi, va := range variants {
						forged := world.SignMsg(S, g.DkgRoundID, va.ev, va.data, g.RecipientAddr)
						if vi == 0 {
							// the same bytes also under P's own name (signature still S's): what P's own node and
							// every other node record for P must not move either
							named := forged
							named.SenderAddr = g.SenderAddr
							nd.Mem.Restore(m.Snaps[v])
							b0 := participantEntries(nd, g.DkgRoundID, P)
							err0, _, pan0 := applyAt(w, m, v, named)
							a0 := participantEntries(nd, g.DkgRoundID, P)
							c.Eval(1)
							c.Distinct(fmt.Sprintf("impersonation-under-own-name|%s|%s", va.ev, stateName))
							if pan0 == nil && b0 != a0 {
								c.Violate("C10/contribution-in-P's-name-signed-by-another-key:"+va.ev, fmt.Sprintf("%s naming participant %d, sent under %s's name but signed with %s's key: accepted=%v by %s; what it records for participant %d changed", va.ev, P, g.SenderAddr, S.Name, err0 == nil, nd.Name, P), baseWit(map[string]interface{}{"signed_by": S.Name}))
							}
						}
						nd.Mem.Restore(m.Snaps[v])
						before := participantEntries(nd, g.DkgRoundID, P)
						err, diff, pan := applyAt(w, m, v, forged)
						after := participantEntries(nd, g.DkgRoundID, P)
						if vi >= nTyped && before != after {
							// a spelling variant may legitimately be read as S's own contribution: then its effect on P's
							// record must be exactly the effect of S contributing under its own id (control run)
							var own map[string]json.RawMessage
							_ = json.Unmarshal(g.Data, &own)
							own["ParticipantId"] = json.RawMessage(fmt.Sprint(S.Idx))
							ownBz, _ := json.Marshal(own)
							nd.Mem.Restore(m.Snaps[v])
							_, _, _ = applyAt(w, m, v, world.SignMsg(S, g.DkgRoundID, va.ev, ownBz, g.RecipientAddr))
							if participantEntries(nd, g.DkgRoundID, P) == after {
								after = before
								c.Add("spelling_variants_read_as_the_senders_own_contribution", 1)
							}
						}
						c.Eval(1)
						c.Distinct(fmt.Sprintf("impersonation|%s|%s", va.ev, stateName))
						if pan != nil {
							c.Add("panics_seen_(judged_by_C18)", 1)
							continue
						}
						if before != after {
							c.Violate("C10/participant-id-not-bound-to-sender:"+va.ev, fmt.Sprintf("%s, signed and sent by %s, naming participant %d (%s): accepted=%v; what %s records for participant %d (or the round state) changed", va.ev, S.Name, P, g.SenderAddr, err == nil, nd.Name, P), baseWit(map[string]interface{}{"forger": S.Name, "forged_event": va.ev, "changed": diff}))
						}
						c.Add("impersonations_tried", 1)
					}
				}
			}
			// (b1) counterpart of the other round re-posted under this round
			if cp, ok := idx[other[g.DkgRoundID]+"|"+g.SenderAddr+"|"+g.Event+"|"+g.RecipientAddr]; ok {
				replay := cp
				replay.DkgRoundID = g.DkgRoundID
				err, diff, pan := applyAt(w, m, v, replay)
				c.Eval(1)
				c.Distinct(fmt.Sprintf("cross-round|%s|%s", g.Event, stateName))
				c.Add("cross_round_replays_tried", 1)
				if pan == nil && (err == nil || len(diff) > 0) {
					c.Violate("C10/cross-round-replay-accepted:"+g.Event, fmt.Sprintf("%s's genuine %s of the other round, re-posted under this round's id, was accepted=%v by %s in %s (changed %v)", g.SenderAddr, g.Event, err == nil, nd.Name, stateName, diff), baseWit(map[string]interface{}{"replayed_offset": cp.Offset}))
				}
			}
			// (b3) g re-posted under round identifiers that differ from its own only by whitespace, case or
			// padding: they name no round, so nothing is registered there and nothing existing may move
			for _, rid := range roundIDLookalikes(g.DkgRoundID) {
				replay := *g
				replay.DkgRoundID = rid
				err, diff, pan := applyAt(w, m, v, replay)
				c.Eval(1)
				c.Distinct(fmt.Sprintf("lookalike-round|%s|%s", g.Event, stateName))
				c.Add("lookalike_round_replays_tried", 1)
				if pan == nil && (err == nil || len(diff) > 0) {
					c.Violate("C10/replay-under-lookalike-round-id-accepted:"+g.Event, fmt.Sprintf("%s's genuine %s re-posted under round id %q was accepted=%v by %s in %s (changed %v)", g.SenderAddr, g.Event, rid, err == nil, nd.Name, stateName, diff), baseWit(map[string]interface{}{"round_id": rid}))
				}
			}
			// (b4) the (unauthenticated) proposals that opened the two rounds, genuine and with every key
			// replaced by a stranger's, re-posted under such identifiers: they may open a round of that
			// name, but every existing round and operation stays as it is
			for _, op := range openers {
				for _, rid := range roundIDLookalikes(op.DkgRoundID) {
					for fi, msg := range []storage.Message{op, strangerProposal(op)} {
						msg.DkgRoundID = rid
						nd.Mem.Restore(m.Snaps[v])
						before := m.Snaps[v]
						var pan interface{}
						func() {
							defer func() { pan = recover() }()
							_ = nd.Svc.ProcessMessage(msg)
						}()
						after := nd.Mem.Snapshot()
						w.Board.Truncate(len(all))
						c.Eval(1)
						c.Distinct(fmt.Sprintf("lookalike-opening|%d|%s", fi, stateName))
						c.Add("lookalike_round_openings_tried", 1)
						if pan != nil {
							c.Add("panics_seen_(judged_by_C18)", 1)
							continue
						}
						if pd := protectedDiff(before, after, rid); len(pd) > 0 {
							c.Violate("C10/opening-proposal-under-lookalike-round-id-changed-existing-round", fmt.Sprintf("an opening proposal (%s) posted under round id %q changed %v on %s (round %s was in %s)", []string{"the genuine one re-posted", "a stranger's, with her own keys"}[fi], rid, pd, nd.Name, trunc(g.DkgRoundID, 8), stateName), baseWit(map[string]interface{}{"round_id": rid, "forged_keys": fi == 1}))
						}
					}
				}
			}
			// (b4') an (unauthenticated) reinitialisation message that names THIS round, which the node already
			// holds, registers a stranger's key for every participant and carries g unsigned in its embedded log:
			// nothing recorded for any participant of the round may change
			{
				_, spub := fakeKey("c10-stranger", 0), fakeKey("c10-stranger", 1)[:32]
				unsigned := *g
				unsigned.Signature = nil
				re := types.ReDKG{DKGID: g.DkgRoundID, Threshold: t, Messages: []storage.Message{unsigned}}
				for _, pn := range w.Nodes {
					re.Participants = append(re.Participants, types.Participant{Name: pn.Name, NewCommPubKey: spub, OldCommPubKey: pn.KeyPair.Pub, DKGPubKey: fakeKey("dkg", pn.Idx)})
				}
				bz, _ := json.Marshal(re)
				wrap := storage.Message{ID: "c10-reinit-live", DkgRoundID: g.DkgRoundID, Event: EvReinit, Data: bz, SenderAddr: "stranger", Signature: []byte("none")}
				nd.Mem.Restore(m.Snaps[v])
				before := m.Snaps[v]
				var pan interface{}
				func() {
					defer func() { pan = recover() }()
					_ = nd.Svc.ProcessMessage(wrap)
				}()
				after := nd.Mem.Snapshot()
				w.Board.Truncate(len(all))
				c.Eval(1)
				c.Distinct(fmt.Sprintf("reinit-naming-the-live-round|%s|%s", g.Event, stateName))
				c.Add("reinit_messages_naming_a_round_the_node_holds", 1)
				if pan != nil {
					c.Add("panics_seen_(judged_by_C18)", 1)
				} else if pd := protectedDiff(before, after, ""); len(pd) > 0 {
					c.Violate("C10/reinit-message-over-a-live-round-changed-it", fmt.Sprintf("an unauthenticated reinit_dkg message naming round %s (which %s holds, in %s), carrying %s's %s unsigned, changed %v", trunc(g.DkgRoundID, 8), nd.Name, stateName, g.SenderAddr, g.Event, pd), baseWit(map[string]interface{}{"embedded": g.Event}))
				}
				if chk, ok := nd.Svc.(interface{ GetSkipCommKeysVerification() bool }); ok && chk.GetSkipCommKeysVerification() {
					if sk, ok := nd.Svc.(interface{ SetSkipCommKeysVerification(bool) }); ok {
						sk.SetSkipCommKeysVerification(false) // judged by C09; keep this exploration meaningful
					}
				}
			}
			// (b2) g re-posted under every other event name
			for _, ev := range allEvents {
				if ev == g.Event {
					continue
				}
				replay := *g
				replay.Event = ev
				err, diff, pan := applyAt(w, m, v, replay)
				c.Eval(1)
				c.Distinct(fmt.Sprintf("cross-event|%s->%s|%s", g.Event, ev, stateName))
				c.Add("cross_event_replays_tried", 1)
				if pan != nil {
					c.Add("panics_seen_(judged_by_C18)", 1)
					continue
				}
				if ev == "signature_reconstruction_failed" && err == nil && len(diff) == 0 {
					continue // only logged by the node, no effect
				}
				if err == nil || len(diff) > 0 {
					c.Violate("C10/cross-event-replay-accepted:"+g.Event+"->"+ev, fmt.Sprintf("%s's genuine %s re-posted as %s was accepted=%v by %s in %s (changed %v)", g.SenderAddr, g.Event, ev, err == nil, nd.Name, stateName, diff), baseWit(map[string]interface{}{"as_event": ev}))
				}
			}
		}
	}
	// (b5) the same cross-event replays later on: a message of one step re-posted under the name of a step
	// the round reaches afterwards (first moment of every distinct state of the round on the node)
	if n == 3 || c.Thorough() {
		for v, nd := range w.Nodes {
			for _, rd := range []string{ra, rb} {
				seen := map[string]*Moment{}
				var order []string
				for _, m := range rec.Moments {
					nd.Mem.Restore(m.Snaps[v])
					st := NodeState(nd, rd)
					if _, ok := seen[st]; !ok && st != "" {
						seen[st] = m
						order = append(order, st)
					}
				}
				for _, g := range all {
					if g.DkgRoundID != rd || exempt(g.Event) || g.Event == EvSigningStart || (g.RecipientAddr != "" && g.RecipientAddr != nd.Name) {
						continue
					}
					for _, st := range order {
						m := seen[st]
						if int(g.Offset) >= m.BoardLen {
							continue // not yet on the board at that moment
						}
						for _, ev := range allEvents {
							if ev == g.Event {
								continue
							}
							replay := g
							replay.Event = ev
							err, diff, pan := applyAt(w, m, v, replay)
							c.Eval(1)
							c.Distinct(fmt.Sprintf("cross-event-later|%s->%s|%s", g.Event, ev, st))
							c.Add("cross_event_replays_in_later_states", 1)
							if pan != nil {
								c.Add("panics_seen_(judged_by_C18)", 1)
								continue
							}
							if ev == "signature_reconstruction_failed" && err == nil && len(diff) == 0 {
								continue
							}
							if err == nil || len(diff) > 0 {
								key := "C10/cross-event-replay-accepted:"
								if int(g.Offset) < offsetOf(m.Snaps[v]) {
									key = "C10/cross-event-replay-accepted-after-the-genuine-one:"
								}
								c.Violate(key+g.Event+"->"+ev, fmt.Sprintf("%s's genuine %s (offset %d) re-posted as %s was accepted=%v by %s in %s (changed %v)", g.SenderAddr, g.Event, g.Offset, ev, err == nil, nd.Name, st, diff), map[string]interface{}{"n": n, "t": t, "genuine_offset": g.Offset, "event": g.Event, "genuine_sender": g.SenderAddr, "node": nd.Name, "state": st, "as_event": ev})
							}
						}
					}
				}
			}
		}
	}
	// (b6) a message of participant P re-posted under every other event name right AFTER the node consumed
	// the genuine one (P's contribution is recorded, the step is still open for the others): what P said
	// once may not count a second time as something else
	{
		doneB6 := map[string]bool{}
		for _, m := range rec.Moments {
			for v, nd := range w.Nodes {
				upto := offsetOf(m.Snaps[v])
				if upto > m.BoardLen {
					upto = m.BoardLen
				}
				// the last two messages this node has consumed
				var last []storage.Message
				for i := upto - 1; i >= 0 && len(last) < 2; i-- {
					p := all[i]
					if exempt(p.Event) || p.Event == EvSigningStart || (p.RecipientAddr != "" && p.RecipientAddr != nd.Name) {
						continue
					}
					last = append(last, p)
				}
				for _, p := range last {
					pk := fmt.Sprintf("%d@%d", p.Offset, v)
					if doneB6[pk] {
						continue
					}
					doneB6[pk] = true
					nd.Mem.Restore(m.Snaps[v])
					st := NodeState(nd, p.DkgRoundID)
					for _, ev := range allEvents {
						if ev == p.Event {
							continue
						}
						replay := p
						replay.Event = ev
						err, diff, pan := applyAt(w, m, v, replay)
						c.Eval(1)
						c.Distinct(fmt.Sprintf("cross-event-just-after|%s->%s|%s", p.Event, ev, st))
						c.Add("cross_event_replays_right_after_the_genuine_message", 1)
						if pan != nil {
							c.Add("panics_seen_(judged_by_C18)", 1)
							continue
						}
						if ev == "signature_reconstruction_failed" && err == nil && len(diff) == 0 {
							continue
						}
						if err == nil || len(diff) > 0 {
							c.Violate("C10/cross-event-replay-accepted-after-the-genuine-one:"+p.Event+"->"+ev, fmt.Sprintf("%s's genuine %s (offset %d), already consumed by %s, re-posted as %s was accepted=%v in %s (changed %v)", p.SenderAddr, p.Event, p.Offset, nd.Name, ev, err == nil, st, diff), map[string]interface{}{"n": n, "t": t, "genuine_offset": p.Offset, "event": p.Event, "genuine_sender": p.SenderAddr, "node": nd.Name, "state": st, "as_event": ev})
						}
					}
				}
			}
		}
	}
	// (b7) a stranger opens a round of her own in which the participants' NAMES are registered with HER key
	// (the opening proposal is not authenticated), then speaks on that round: signature broadcasts whose
	// payload names a real round, answers, error reports. Whatever she is entitled to inside her own round,
	// nothing recorded in the real rounds (rounds, operations, signature stores) may change.
	if len(rec.Moments) > 0 && len(openers) > 0 {
		last := rec.Moments[len(rec.Moments)-1]
		_, spriv, _ := ed25519.GenerateKey(sched.Derive(7, 7)) // the key strangerProposal registers
		for v, nd := range w.Nodes {
			nd.Mem.Restore(last.Snaps[v])
			sp := strangerProposal(openers[0])
			x := fmt.Sprintf("%064x", 0xC10B7+v)
			sp.DkgRoundID = x
			func() {
				defer func() { _ = recover() }()
				_ = nd.Svc.ProcessMessage(sp)
			}()
			w.Board.Truncate(len(all))
			if NodeState(nd, x) == "" {
				c.Add("stranger_rounds_refused", 1)
				continue
			}
			before := nd.Mem.Snapshot()
			for _, rd := range []string{ra, rb} {
				for batch, msgs := range SigStore(nd, rd) {
					for _, victim := range w.Nodes {
						var forged []map[string]interface{}
						for mid := range msgs {
							forged = append(forged, map[string]interface{}{"File": "f", "BatchID": batch, "MessageID": mid, "SrcPayload": []byte("stranger"), "Signature": []byte("not a signature, 96 bytes would not make it one"), "Username": victim.Name, "DKGRoundID": rd})
						}
						m := storage.Message{ID: "b7", DkgRoundID: x, Event: EvSigRecon, Data: mkReq(forged), SenderAddr: victim.Name}
						m.Signature = ed25519.Sign(spriv, m.Bytes())
						nd.Mem.Restore(before)
						var pan interface{}
						func() {
							defer func() { pan = recover() }()
							_ = nd.Svc.ProcessMessage(m)
						}()
						after := nd.Mem.Snapshot()
						w.Board.Truncate(len(all))
						c.Eval(1)
						c.Distinct(fmt.Sprintf("stranger-round|signature-broadcast-naming-a-real-round|%s", NodeState(nd, rd)))
						c.Add("stranger_round_messages_naming_a_real_round", 1)
						if pan != nil {
							c.Add("panics_seen_(judged_by_C18)", 1)
							continue
						}
						if pd := protectedDiff(before, after, x); len(pd) > 0 {
							c.Violate("C10/message-authenticated-in-one-round-changed-another", fmt.Sprintf("a signature broadcast on round %s (a stranger's round in which %q is registered with her key), whose payload names round %s, changed %v on %s", trunc(x, 8), victim.Name, trunc(rd, 8), pd, nd.Name), map[string]interface{}{"n": n, "t": t, "node": nd.Name, "claimed_participant": victim.Name, "real_round": rd, "batch": batch})
						}
					}
				}
			}
			nd.Mem.Restore(last.Snaps[v])
		}
	}
	c.Sample(map[string]interface{}{"n": n, "t": t, "board_len": len(all), "moments": len(rec.Moments), "pairs": len(done)})
}

// roundIDLookalikes are identifiers a careless normalisation would fold onto id.
func roundIDLookalikes(id string) []string {
	return []string{id + " ", id + "\n", " " + id, "\t" + id + "\r\n", strings.ToUpper(id), id + "\x00", "0x" + id}
}

// strangerProposal is the opening proposal with every participant's keys replaced by one stranger's.
func strangerProposal(op storage.Message) storage.Message {
	var v map[string]interface{}
	if json.Unmarshal(op.Data, &v) != nil {
		return op
	}
	pub, _, _ := ed25519.GenerateKey(sched.Derive(7, 7))
	if ps, ok := v["Participants"].([]interface{}); ok {
		for _, p := range ps {
			if pm, ok := p.(map[string]interface{}); ok {
				pm["PubKey"] = []byte(pub)
			}
		}
	}
	out := op
	out.Data, _ = json.Marshal(v)
	out.SenderAddr = "stranger"
	out.Signature = []byte("none")
	return out
}

// c10Reproposal: a round is opened for [P0, S, P2, P3], S declines (the round is cancelled), and the same
// round id is proposed again for [P0, P2, P3]. Whatever becomes of the second proposal, S - no longer invited -
// must not be able to answer in the name of the participant who now holds "his" index, and nothing recorded
// for the honest participants may change through messages signed by S.
func c10Reproposal(c *Ctx, seed uint64) {
	w, err := world.NewWorld(world.Options{N: 4, T: 2, Seed: seed, NoCold: false})
	if err != nil {
		c.Inconclusive("re-proposal world: %v", err)
		return
	}
	defer w.Close()
	S := 1
	p1 := w.InitPayload(2, now())
	id := sha256.Sum256(p1)
	round := hex.EncodeToString(id[:])
	prop1 := world.SignMsg(w.Nodes[0], round, EvInit, p1, "")
	decline := world.SignMsg(w.Nodes[S], round, EvDecline, mkReq(requests.SignatureProposalParticipantRequest{ParticipantId: S, CreatedAt: now()}), "")
	p2 := w.InitPayload(2, now().Add(time.Second), w.Nodes[0], w.Nodes[2], w.Nodes[3])
	prop2 := world.SignMsg(w.Nodes[0], round, EvInit, p2, "")
	for _, v := range []int{0, 2} {
		nd := w.Nodes[v]
		run := func(m storage.Message) (err error) {
			defer func() {
				if p := recover(); p != nil {
					err = fmt.Errorf("PANIC %v", p)
				}
			}()
			return nd.Svc.ProcessMessage(m)
		}
		if err := run(prop1); err != nil {
			c.Inconclusive("re-proposal: first proposal refused: %v", err)
			return
		}
		_ = run(decline)
		st1 := NodeState(nd, round)
		before := nd.Mem.Snapshot()
		err2 := run(prop2)
		mid := nd.Mem.Snapshot()
		wit := map[string]interface{}{"node": nd.Name, "state_after_decline": st1, "second_proposal_error": fmt.Sprint(err2), "state_after_second_proposal": NodeState(nd, round)}
		c.Eval(1)
		c.Distinct("re-proposal|second-proposal|" + st1)
		if pd := protectedDiff(before, mid, ""); len(pd) > 0 {
			c.Violate("C10/opening-proposal-for-an-existing-round-changed-it", fmt.Sprintf("round %s was cancelled by %s's decline; a second opening proposal under the same id (another participant list) changed %v on %s", trunc(round, 8), w.Nodes[S].Name, pd, nd.Name), wit)
		}
		// S answers as the participant who holds index 1 in the second list (signed with S's own key)
		for _, ev := range []string{EvConfirm, EvDecline} {
			forged := world.SignMsg(w.Nodes[S], round, ev, mkReq(requests.SignatureProposalParticipantRequest{ParticipantId: 1, CreatedAt: now().Add(2 * time.Second)}), "")
			nd.Mem.Restore(mid)
			errF := run(forged)
			after := nd.Mem.Snapshot()
			c.Eval(1)
			c.Distinct("re-proposal|ex-participant-answers|" + ev)
			if errF == nil || len(world.DiffMaps(mid, after, world.Topic+"_offset")) > 0 {
				c.Violate("C10/ex-participant-acts-in-anothers-name", fmt.Sprintf("%s (invited by the first proposal only) sent %s for participant #1 of the re-proposed round, signed with his own key: accepted=%v, changed %v", w.Nodes[S].Name, ev, errF == nil, world.DiffMaps(mid, after, world.Topic+"_offset")), wit)
			}
		}
		c.Add("re-proposed_rounds_judged", 1)
	}
}

// c10RewoundLog: a message in P's name under S's signature is refused when the running node first reads it.
// The operator then rewinds the read position of that running node (save_offset 0; the repository's own
// Poll() loop is running the whole time) so that the log is read again: the forged message must be refused
// again - nothing recorded in the round may differ from before the rewind - and P's genuine message must
// still be accepted afterwards.
func c10RewoundLog(c *Ctx, seed uint64) {
	w, err := world.NewWorld(world.Options{N: 3, T: 2, Seed: seed})
	if err != nil {
		c.Inconclusive("rewound-log world: %v", err)
		return
	}
	defer w.Close()
	v := w.Nodes[0]
	round, err := w.StartDKG(0, 2, now())
	if err != nil {
		c.Inconclusive("rewound-log world: %v", err)
		return
	}
	P, S := w.Nodes[1], w.Nodes[2]
	forged := world.SignMsg(S, round, EvConfirm, mkReq(requests.SignatureProposalParticipantRequest{ParticipantId: P.Idx, CreatedAt: now()}), "")
	forged.SenderAddr = P.Name
	_ = w.Board.Send(forged)
	wit := map[string]interface{}{"family": "forged message read again after the read position was rewound on the running node", "claimed_participant": P.Name, "signed_by": S.Name, "case_seed": seed}
	errc := make(chan error, 1)
	go func() { errc <- v.Svc.Poll() }()
	stop := func() {
		if v.Cancel != nil {
			v.Cancel()
		}
		select {
		case <-errc:
		case <-time.After(10 * time.Second):
		}
	}
	defer stop()
	waitOff := func(target int) bool {
		for i := 0; i < 3000; i++ { // pacing only: a miss is inconclusive
			if off, err := v.State.LoadOffset(); err == nil && int(off) >= target {
				return true
			}
			time.Sleep(10 * time.Millisecond)
		}
		return false
	}
	if !waitOff(w.Board.Len()) {
		c.Inconclusive("rewound-log world: the Poll loop did not reach the end of the board")
		return
	}
	time.Sleep(50 * time.Millisecond)
	offKey := world.Topic + "_offset"
	before := v.Mem.Snapshot()
	projBefore := Projection(v, round, oracle.ProjOpts{})
	for rewinds := 0; rewinds < 2; rewinds++ {
		if err := viaREST(v).SaveOffset(0); err != nil {
			c.Inconclusive("rewound-log world: save_offset: %v", err)
			return
		}
		// the loop reads the whole board again
		time.Sleep(30 * time.Millisecond)
		if !waitOff(w.Board.Len()) {
			c.Inconclusive("rewound-log world: the Poll loop did not reach the end of the board after the rewind")
			return
		}
		time.Sleep(50 * time.Millisecond)
		c.Eval(1)
		c.Add("logs_read_again_by_a_running_node_after_a_rewind", 1)
		c.Distinct(fmt.Sprintf("rewound-log|rewind=%d", rewinds+1))
		after := v.Mem.Snapshot()
		if p := Projection(v, round, oracle.ProjOpts{}); p != projBefore {
			c.Violate("C10/forged-message-effective-after-rewind", fmt.Sprintf("a confirmation in %s's name signed by %s was refused at first; after the operator rewound the read position of the running node (rewind %d) the round changed: %s", P.Name, S.Name, rewinds+1, diffLines(projBefore, p)), wit)
			return
		}
		if d := world.DiffMaps(before, after, offKey); len(d) > 0 {
			c.Violate("C10/forged-message-effective-after-rewind", fmt.Sprintf("reading the same log again on the running node changed %v", d), wit)
			return
		}
	}
	// P's own confirmation is still welcome
	_ = w.Board.Send(world.SignMsg(P, round, EvConfirm, mkReq(requests.SignatureProposalParticipantRequest{ParticipantId: P.Idx, CreatedAt: now()}), ""))
	if !waitOff(w.Board.Len()) {
		c.Inconclusive("rewound-log world: the Poll loop did not take the genuine confirmation")
		return
	}
	time.Sleep(50 * time.Millisecond)
	if p := Projection(v, round, oracle.ProjOpts{}); p == projBefore {
		c.Violate("C10/genuine-message-refused-after-forgery", fmt.Sprintf("%s's own confirmation changed nothing after the forged one had been read (twice more after rewinds)", P.Name), wit)
	}
}
