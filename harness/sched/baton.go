package sched

import (
	"bytes"
	"runtime"
	"strconv"
	"sync"
	"time"
)

// Goid returns the current goroutine's id (parsed from runtime.Stack).
func Goid() int64 {
	b := make([]byte, 64)
	b = b[:runtime.Stack(b, false)]
	b = bytes.TrimPrefix(b, []byte("goroutine "))
	i := bytes.IndexByte(b, ' ')
	if i < 0 {
		return -1
	}
	n, _ := strconv.ParseInt(string(b[:i]), 10, 64)
	return n
}

// Baton is a controlled scheduler for two activities (0 and 1) running in goroutines of their own.
// Every instrumented call first asks for the baton (Point); the controller grants it according to
// a plan: run activity `First`, and pre-empt the running activity after Plan[0] of its points,
// then the other after Plan[1] of its points, ... When the plan is used up (or an activity ends)
// the running activity runs to completion, then the other.
//
// If the baton holder blocks inside the system under test (a real mutex held by the parked
// activity) a watchdog hands the baton back; this affects scheduling only, never a verdict.
type Baton struct {
	mu      sync.Mutex
	cond    *sync.Cond
	role    map[int64]int
	running int // who holds the baton
	done    [2]bool
	waiting [2]bool // parked at a point / at entry, waiting for the baton
	plan    []int
	segLeft int
	// Trace records the grant order: sequence of activity ids, one per granted point.
	Trace []byte
	// Points counts granted points per activity.
	Points [2]int
	// Preemptions actually performed according to the plan.
	Preemptions int
	// ForcedSwitches: hand-overs because the holder was blocked on a lock of the system under test.
	ForcedSwitches int
	progress       int64
	stop           chan struct{}
}

func NewBaton(first int, plan []int) *Baton {
	b := &Baton{role: map[int64]int{}, running: first, plan: append([]int{}, plan...), stop: make(chan struct{})}
	b.cond = sync.NewCond(&b.mu)
	b.nextSegment()
	go b.watchdog()
	return b
}

func (b *Baton) watchdog() {
	last := int64(-1)
	idle := 0
	for {
		select {
		case <-b.stop:
			return
		case <-time.After(time.Millisecond):
		}
		b.mu.Lock()
		if b.done[0] && b.done[1] {
			b.mu.Unlock()
			return
		}
		if b.progress == last {
			idle++
		} else {
			idle = 0
			last = b.progress
		}
		other := 1 - b.running
		if idle >= 4 && b.waiting[other] && !b.done[other] && !b.waiting[b.running] && !b.done[b.running] {
			b.ForcedSwitches++
			b.running = other
			b.progress++
			idle = 0
			b.cond.Broadcast()
		}
		b.mu.Unlock()
	}
}

// Stop ends the watchdog.
func (b *Baton) Stop() {
	b.mu.Lock()
	defer b.mu.Unlock()
	select {
	case <-b.stop:
	default:
		close(b.stop)
	}
}

func (b *Baton) nextSegment() {
	if len(b.plan) > 0 {
		b.segLeft = b.plan[0]
		b.plan = b.plan[1:]
	} else {
		b.segLeft = -1 // run to completion
	}
}

func (b *Baton) waitTurn(id int) {
	b.waiting[id] = true
	for b.running != id {
		b.cond.Wait()
	}
	b.waiting[id] = false
	b.progress++
}

// Enter registers the calling goroutine as activity id and waits for its first turn.
func (b *Baton) Enter(id int) {
	b.mu.Lock()
	b.role[Goid()] = id
	b.cond.Broadcast()
	b.waitTurn(id)
	b.mu.Unlock()
}

// Exit marks the activity finished and hands the baton over.
func (b *Baton) Exit(id int) {
	b.mu.Lock()
	b.done[id] = true
	b.progress++
	if b.running == id {
		b.running = 1 - id
	}
	b.cond.Broadcast()
	b.mu.Unlock()
}

// Point is a scheduling point of the calling goroutine. Goroutines that are not one of the two
// activities pass through.
func (b *Baton) Point() {
	b.mu.Lock()
	id, ok := b.role[Goid()]
	if !ok {
		b.mu.Unlock()
		return
	}
	b.waitTurn(id)
	// pre-empt before this point if the segment is used up and the other can still run
	if b.segLeft == 0 && !b.done[1-id] {
		b.Preemptions++
		b.running = 1 - id
		b.nextSegment()
		b.cond.Broadcast()
		b.waitTurn(id)
	} else if b.segLeft == 0 {
		b.nextSegment()
	}
	if b.segLeft > 0 {
		b.segLeft--
	}
	b.Trace = append(b.Trace, byte('0'+id))
	b.Points[id]++
	b.progress++
	b.mu.Unlock()
}

// Progress is a counter that moves whenever an activity is granted a point, enters or ends.
func (b *Baton) Progress() int64 {
	b.mu.Lock()
	defer b.mu.Unlock()
	return b.progress
}

// Pending returns the goroutine ids of the activities that have entered and not ended.
func (b *Baton) Pending() []int64 {
	b.mu.Lock()
	defer b.mu.Unlock()
	var out []int64
	for g, id := range b.role {
		if !b.done[id] {
			out = append(out, g)
		}
	}
	return out
}

// GoroutineStates returns, for the given goroutine ids, the wait state printed in the header of
// the runtime's goroutine dump ("sync.Mutex.Lock", "sync.Cond.Wait", "running", ...) and the stack.
func GoroutineStates(ids []int64) (states map[int64]string, stacks map[int64]string) {
	buf := make([]byte, 1<<20)
	for {
		n := runtime.Stack(buf, true)
		if n < len(buf) {
			buf = buf[:n]
			break
		}
		buf = make([]byte, 2*len(buf))
	}
	want := map[int64]bool{}
	for _, g := range ids {
		want[g] = true
	}
	states, stacks = map[int64]string{}, map[int64]string{}
	for _, blk := range bytes.Split(buf, []byte("\n\n")) {
		if !bytes.HasPrefix(blk, []byte("goroutine ")) {
			continue
		}
		rest := blk[len("goroutine "):]
		sp := bytes.IndexByte(rest, ' ')
		if sp < 0 {
			continue
		}
		g, err := strconv.ParseInt(string(rest[:sp]), 10, 64)
		if err != nil || !want[g] {
			continue
		}
		st := ""
		if o := bytes.IndexByte(rest, '['); o >= 0 {
			if c := bytes.IndexAny(rest[o:], ",]"); c > 0 {
				st = string(rest[o+1 : o+c])
			}
		}
		states[g] = st
		stacks[g] = string(blk)
	}
	return
}

// LockWait tells whether a goroutine wait state is "parked on a mutex".
func LockWait(state string) bool {
	switch state {
	case "sync.Mutex.Lock", "sync.RWMutex.Lock", "sync.RWMutex.RLock", "semacquire":
		return true
	}
	return false
}

// AwaitOrDeadlock waits for done. It returns deadlocked=true (with the stacks) when every activity
// that has not ended is parked on a mutex of the system under test, nothing has moved, and this is
// observed on `confirm` consecutive samples; it returns hung=true when `limit` passes otherwise.
func (b *Baton) AwaitOrDeadlock(done <-chan struct{}, limit time.Duration) (deadlocked bool, stacks string, hung bool) {
	const step = 250 * time.Millisecond
	const confirm = 12 // 3 s of identical observations
	start := time.Now()
	last := int64(-1)
	same := 0
	for {
		select {
		case <-done:
			return false, "", false
		case <-time.After(step):
		}
		p := b.Progress()
		pend := b.Pending()
		all := len(pend) > 0
		st, sk := GoroutineStates(pend)
		for _, g := range pend {
			if !LockWait(st[g]) {
				all = false
			}
		}
		if all && p == last {
			same++
		} else {
			same = 0
		}
		last = p
		if same >= confirm {
			var out []string
			for _, g := range pend {
				out = append(out, sk[g])
			}
			return true, joinStacks(out), false
		}
		if time.Since(start) > limit {
			return false, "", true
		}
	}
}

func joinStacks(s []string) string {
	out := ""
	for i, x := range s {
		if i > 0 {
			out += "\n\n"
		}
		out += x
	}
	return out
}
