package world

import (
	"fmt"
	"reflect"
	"syscall"
	"unsafe"

	pedersen "github.com/corestario/kyber/share/dkg/pedersen"
	"github.com/syndtr/goleveldb/leveldb"

	"github.com/lidofinance/dc4bc/airgapped"
	"github.com/lidofinance/dc4bc/dkg"
)

// Neither LevelDBState nor airgapped.Machine nor the key store has a Close(); thousands of worlds
// per check would exhaust file descriptors. The harness closes the unexported *leveldb.DB handles
// of instances it has finished with (never of one still in use).
func closeDBField(obj interface{}, field string) {
	defer func() { _ = recover() }()
	v := reflect.ValueOf(obj)
	if v.Kind() != reflect.Ptr || v.IsNil() {
		return
	}
	f := v.Elem().FieldByName(field)
	if !f.IsValid() || f.Kind() != reflect.Ptr || f.IsNil() {
		return
	}
	db := *(**leveldb.DB)(unsafe.Pointer(f.UnsafeAddr()))
	if db != nil {
		_ = db.Close()
	}
}

// RaiseFDLimit lifts RLIMIT_NOFILE as far as the kernel allows.
func RaiseFDLimit() {
	var lim syscall.Rlimit
	if syscall.Getrlimit(syscall.RLIMIT_NOFILE, &lim) != nil {
		return
	}
	for _, want := range []uint64{1 << 20, 1 << 18, 1 << 16, lim.Max} {
		l := syscall.Rlimit{Cur: want, Max: want}
		if want < lim.Max {
			l.Max = lim.Max
		}
		if syscall.Setrlimit(syscall.RLIMIT_NOFILE, &l) == nil {
			return
		}
	}
}

// TamperDealerShare reaches into machine m's kyber instance of `round` and replaces the plaintext
// share it is about to deal to participant index `victim` by a share of another polynomial (share+1),
// leaving the commitments as broadcast: the classic verifiable-secret-sharing cheat. To be called
// between the machine's commits and deals steps.
func TamperDealerShare(m *airgapped.Machine, round string, victim int) (err error) {
	defer func() {
		if r := recover(); r != nil {
			err = fmt.Errorf("tamper: %v", r)
		}
	}()
	f := reflect.ValueOf(m).Elem().FieldByName("dkgInstances")
	if !f.IsValid() {
		return fmt.Errorf("Machine has no dkgInstances field")
	}
	insts := *(*map[string]*dkg.DKG)(unsafe.Pointer(f.UnsafeAddr()))
	d, ok := insts[round]
	if !ok || d == nil {
		return fmt.Errorf("machine holds no instance for round %s", round)
	}
	fi := reflect.ValueOf(d).Elem().FieldByName("instance")
	if !fi.IsValid() {
		return fmt.Errorf("dkg.DKG has no instance field")
	}
	gen := *(**pedersen.DistKeyGenerator)(unsafe.Pointer(fi.UnsafeAddr()))
	if gen == nil {
		return fmt.Errorf("kyber instance not initialised yet")
	}
	plain, err := gen.GetDealer().PlaintextDeal(victim)
	if err != nil {
		return err
	}
	plain.SecShare.V = plain.SecShare.V.Clone().Add(plain.SecShare.V, plain.SecShare.V.Clone().One())
	return nil
}

// CloseColdDB closes the key store (LevelDB handle) of a running machine: every later read or write
// of the machine fails the way it does when the operator's storage medium goes away under it.
func CloseColdDB(m *airgapped.Machine) { closeDBField(m, "db") }
