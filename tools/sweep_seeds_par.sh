#!/bin/bash
# usage: tools/sweep_seeds_par.sh <streams> — like sweep_seeds.sh, but in <streams> parallel streams, each with
# a scratch worktree of /repo (VERIF_REPO) and a snapshot of /verif as check root; /repo itself is not touched.
# Output: one line per seed on stdout ("caught <name> (by ..)" / "MISSED <name> (tried ..)").
N=${1:-3}
cd /verif || exit 2
ls -d seeded/C*/ | sed 's|seeded/||; s|/||' > /root/scratch/par_all.txt
for k in $(seq 1 $N); do
  awk -v n=$N -v k=$k 'NR%n==k%n' /root/scratch/par_all.txt > /root/scratch/par_$k.txt
  WT=/tmp/wt-s$k; SNAP=/root/scratch/snapP$k
  git -C /repo worktree remove --force $WT 2>/dev/null; git -C /repo worktree add -q --detach $WT HEAD
  mkdir -p $SNAP; rsync -a --delete --exclude work --exclude bin --exclude seeded --exclude evidence --exclude replays --exclude .git /verif/ $SNAP/
  (
    while read name; do
      id=${name%%-*}; ids="$id"
      fire=$(python3 -c "import json;m=json.load(open('/verif/seeded/$name/meta.json'));f=m.get('checks_that_fire',[]);print(' '.join(f) if f and '$id' not in f else '')")
      [ -n "$fire" ] && ids="$fire"
      git -C $WT checkout -q -- . ; git -C $WT clean -fdq
      if ! git -C $WT apply /verif/seeded/$name/patch.diff 2>/dev/null; then echo "NOAPPLY $name"; continue; fi
      caught=""
      for x in $ids; do
        ( cd $SNAP && VERIF_REPO=$WT timeout 1500 ./check $x quick >/root/scratch/par_out_$k.log 2>&1 ); rc=$?
        [ "$rc" = "1" ] && caught="$caught $x" && break
      done
      if [ -n "$caught" ]; then echo "caught  $name (by$caught)"; else echo "MISSED  $name (tried $ids)"; fi
    done < /root/scratch/par_$k.txt
    git -C $WT checkout -q -- . ; git -C $WT clean -fdq
  ) > /root/scratch/par_result_$k.log 2>&1 &
done
wait
cat /root/scratch/par_result_*.log
for k in $(seq 1 $N); do git -C /repo worktree remove --force /tmp/wt-s$k 2>/dev/null; rm -rf /root/scratch/snapP$k; done
