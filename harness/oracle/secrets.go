package oracle

import (
	"crypto/sha512"

	"github.com/corestario/kyber"
	"github.com/corestario/kyber/pairing/bls12381"
	"github.com/corestario/kyber/share"
	"github.com/corestario/kyber/util/random"
	"golang.org/x/crypto/pbkdf2"
	"lukechampine.com/frand"
)

// Re-derivation of a machine's secrets from the mnemonic the harness chose. Every re-derivation is
// validated against public values by its users before it is searched for or used.

// SeedFromMnemonic: BIP-39 style PBKDF2 exactly as the machine stores it (salt "mnemonic", 2048, 32 bytes).
func SeedFromMnemonic(mnemonic string) []byte {
	return pbkdf2.Key([]byte(mnemonic), []byte("mnemonic"), 2048, 32, sha512.New)
}

// LongTermKey: first draw of the suite's seeded stream.
func LongTermKey(seed []byte) kyber.Scalar {
	s := bls12381.NewBLS12381Suite(seed)
	return s.Scalar().Pick(s.RandomStream())
}

// DealerPoly: the secret polynomial a dealer seeded with `readerSeed` draws for threshold t.
func DealerPoly(readerSeed []byte, t int) *share.PriPoly {
	suite := NewSuite()
	stream := random.New(frand.NewCustom(readerSeed, 32, 20))
	secret := suite.Scalar().Pick(stream)
	return share.NewPriPoly(suite, t, secret, stream)
}

func ScalarBytes(s kyber.Scalar) []byte {
	b, err := s.MarshalBinary()
	if err != nil {
		panic(err)
	}
	return b
}
