package world

import (
	"context"
	"crypto/ed25519"
	"fmt"
	"os"
	"path/filepath"
	"sync"

	"github.com/tyler-smith/go-bip39"

	"github.com/lidofinance/dc4bc/airgapped"
	"github.com/lidofinance/dc4bc/client/config"
	"github.com/lidofinance/dc4bc/client/modules/keystore"
	"github.com/lidofinance/dc4bc/client/modules/state"
	oprepo "github.com/lidofinance/dc4bc/client/repositories/operation"
	sigrepo "github.com/lidofinance/dc4bc/client/repositories/signature"
	"github.com/lidofinance/dc4bc/client/services"
	"github.com/lidofinance/dc4bc/client/services/fsmservice"
	"github.com/lidofinance/dc4bc/client/services/node"
	"github.com/lidofinance/dc4bc/client/services/operation"
	"github.com/lidofinance/dc4bc/client/services/signature"
	"github.com/lidofinance/dc4bc/storage"

	"verifharness/sched"
)

const Topic = "vtopic"
const Password = "verif-password"

// MemKeyStore implements keystore.KeyStore in memory.
type MemKeyStore struct {
	mu sync.Mutex
	m  map[string]*keystore.KeyPair
}

func (k *MemKeyStore) PutKeys(u string, kp *keystore.KeyPair) error {
	k.mu.Lock()
	defer k.mu.Unlock()
	if k.m == nil {
		k.m = map[string]*keystore.KeyPair{}
	}
	k.m[u] = kp
	return nil
}

func (k *MemKeyStore) LoadKeys(u, _ string) (*keystore.KeyPair, error) {
	k.mu.Lock()
	defer k.mu.Unlock()
	kp, ok := k.m[u]
	if !ok {
		return nil, fmt.Errorf("no key pair found for user %s", u)
	}
	return kp, nil
}

// RecLogger records the node's log lines (the "Collected enough partial signatures" line is an
// observation point of C06).
type RecLogger struct {
	mu    sync.Mutex
	Name  string
	Lines []string
	Keep  bool
}

func (l *RecLogger) Log(format string, args ...interface{}) {
	if !l.Keep {
		return
	}
	l.mu.Lock()
	l.Lines = append(l.Lines, fmt.Sprintf(format, args...))
	l.mu.Unlock()
}

func (l *RecLogger) Take() []string {
	l.mu.Lock()
	defer l.mu.Unlock()
	out := l.Lines
	l.Lines = nil
	return out
}

// Node is one participant: the real hot node service on decorated state/board plus its airgapped
// machine.
type Node struct {
	Idx     int
	Name    string
	KeyPair *keystore.KeyPair
	Keys    keystore.KeyStore // MemKeyStore, or the real LevelDB key store after a crash-restart

	Mem   *MemState           // non-nil when running on the in-memory store
	LDB   *state.LevelDBState // non-nil when running on LevelDB
	DBDir string
	State *RecState
	NB    *NodeBoard

	Svc    node.NodeService
	FSM    fsmservice.FSMService
	Ops    operation.OperationService
	Sigs   signature.SignatureService
	Logger *RecLogger
	Cancel context.CancelFunc
	// TornNext, if set, makes the next CrashRestart come up on a database whose journal ends inside the
	// record of this write (a process killed in the middle of a state write).
	TornNext *TornWrite
	Ctx    context.Context

	Restarts int
	// handles of abandoned instances (after a crash-restart), closed with the world
	oldLDB  []*state.LevelDBState
	oldCold []*airgapped.Machine
	oldKS   []*keystore.LevelDBKeyStore

	Cold     *airgapped.Machine
	ColdDir  string
	Mnemonic string

	// ResultCache: operation id -> result operation as produced by the machine the first time
	// (an operator re-submitting after a crash re-sends the same file).
	ResultCache map[string][]byte

	// UseAPI: the operator talks to this node through the repository's REST API (see HTTPOp); API is
	// rebuilt whenever the services are rewired (restart).
	UseAPI bool
	API    *HTTPOp
	// CLI, when set, is the dc4bc_cli tool chain in front of API (see CLIOp).
	CLI *CLIOp
	// Proc, when set, replaces Cold: this participant's machine is the cmd/airgapped binary running as its
	// own process (see ProcMachine); ColdPub is the DKG public key it printed.
	Proc    *ProcMachine
	ColdPub []byte
}

// NodeOpts configures wiring of one hot node.
type NodeOpts struct {
	UseLevelDB bool
	Dir        string // work dir for this node (LevelDB state, airgapped DB)
	// ViaProvider: construct through services.CreateServiceProviderWithCfg first (real start-up
	// sequence, real durable effects), then wire decorated services on the State it opened.
	ViaProvider bool
	CommSeed    uint64
	Mnemonic    string
	ViaHTTP     bool
}

// WireHot (re)builds the hot node services on top of st/board, exactly in the order
// services.CreateServiceProviderWithCfg uses, minus Kafka.
func (n *Node) WireHot(inner state.State, board Board) error {
	n.State = NewRecState(inner, Topic)
	n.NB = &NodeBoard{Inner: board, Owner: n.Name}
	return n.wireServices()
}

func (n *Node) wireServices() error {
	sigRepo := sigrepo.NewSignatureRepo(n.State)
	opRepo, err := oprepo.NewOperationRepo(n.State, Topic)
	if err != nil {
		return fmt.Errorf("NewOperationRepo: %w", err)
	}
	n.FSM = fsmservice.NewFSMService(n.State, n.NB, Topic)
	n.Sigs = signature.NewSignatureService(sigRepo)
	n.Ops = operation.NewOperationService(opRepo)
	if n.Logger == nil {
		n.Logger = &RecLogger{Name: n.Name}
	}
	sp := services.ServiceProvider{}
	sp.SetLogger(n.Logger)
	sp.SetState(n.State)
	sp.SetKeyStore(n.Keys)
	sp.SetStorage(n.NB)
	sp.SetFSMService(n.FSM)
	sp.SetOperationService(n.Ops)
	sp.SetSignatureService(n.Sigs)
	if n.Cancel != nil {
		n.Cancel()
	}
	n.Ctx, n.Cancel = context.WithCancel(context.Background())
	cfg := config.Config{Username: n.Name, KafkaStorageConfig: &config.KafkaStorageConfig{Topic: Topic}}
	svc, err := node.NewNode(n.Ctx, &cfg, &sp)
	if err != nil {
		return fmt.Errorf("NewNode: %w", err)
	}
	n.Svc = svc
	if n.UseAPI {
		calls := map[string]int{}
		if n.API != nil {
			calls = n.API.Calls
		}
		if n.API, err = NewHTTPOp(n); err != nil {
			return fmt.Errorf("REST API: %w", err)
		}
		n.API.Calls = calls
		if n.CLI != nil {
			n.CLI.Rebind(n)
		}
	}
	return nil
}

// MnemonicFor derives a valid BIP-39 mnemonic from the seed stream.
func MnemonicFor(r *sched.Rng) string {
	m, err := bip39.NewMnemonic(r.Bytes(32))
	if err != nil {
		panic(err)
	}
	return m
}

// OpenCold opens (or creates) an airgapped machine on dir with the node's mnemonic and password.
func OpenCold(dir, mnemonic, password string) (*airgapped.Machine, error) {
	am, err := airgapped.NewMachine(dir)
	if err != nil {
		return nil, err
	}
	am.SetEncryptionKey([]byte(password))
	if mnemonic != "" {
		if err := am.SetBaseSeed(mnemonic); err != nil {
			return nil, err
		}
	}
	if err := am.InitKeys(); err != nil {
		return nil, err
	}
	am.SetResultFolder(filepath.Dir(dir))
	return am, nil
}

// NewNode builds participant idx with deterministic keys.
func NewNode(idx int, name string, seed uint64, board Board, opt NodeOpts) (*Node, error) {
	cs := seed
	if opt.CommSeed != 0 {
		cs = opt.CommSeed
	}
	r := sched.Derive(cs, 0xA11CE, uint64(idx))
	pub, priv, err := ed25519.GenerateKey(r)
	if err != nil {
		return nil, err
	}
	n := &Node{Idx: idx, Name: name, KeyPair: &keystore.KeyPair{Pub: pub, Priv: priv}, Keys: &MemKeyStore{},
		ResultCache: map[string][]byte{}, UseAPI: opt.ViaHTTP}
	_ = n.Keys.PutKeys(name, n.KeyPair)
	n.Mnemonic = MnemonicFor(sched.Derive(seed, 0xC01D, uint64(idx)))
	if opt.Mnemonic != "" {
		n.Mnemonic = opt.Mnemonic
	}
	var inner state.State
	if opt.UseLevelDB {
		n.DBDir = filepath.Join(opt.Dir, fmt.Sprintf("hot_%d", idx))
		ldb, err := state.NewLevelDBState(n.DBDir, Topic)
		if err != nil {
			return nil, err
		}
		n.LDB = ldb
		inner = ldb
	} else {
		n.Mem = NewMemState(Topic)
		inner = n.Mem
	}
	if err := n.WireHot(inner, board); err != nil {
		return nil, err
	}
	if opt.Dir != "" {
		n.ColdDir = filepath.Join(opt.Dir, fmt.Sprintf("cold_%d", idx), "db")
		if err := os.MkdirAll(filepath.Dir(n.ColdDir), 0o755); err != nil {
			return nil, err
		}
		n.Cold, err = OpenCold(n.ColdDir, n.Mnemonic, Password)
		if err != nil {
			return nil, err
		}
	}
	return n, nil
}

// Offset returns the node's saved offset.
func (n *Node) Offset() uint64 {
	o, _ := n.State.LoadOffset()
	return o
}

// PollResult describes the handling of one board message by one node.
type PollResult struct {
	Msg       storage.Message
	Addressed bool
	Err       error
}

// PollStep performs exactly what one tick of BaseNodeService.Poll performs, restricted to board
// positions < upto (upto<=0: everything). It returns what happened per message.
func (n *Node) PollStep(upto int) ([]PollResult, error) {
	offset, err := n.State.LoadOffset()
	if err != nil {
		return nil, fmt.Errorf("failed to LoadOffset: %w", err)
	}
	n.NB.Limit = upto
	msgs, err := n.NB.GetMessages(offset)
	n.NB.Limit = 0
	if err != nil {
		return nil, fmt.Errorf("failed to GetMessages: %w", err)
	}
	var out []PollResult
	for _, m := range msgs {
		pr := PollResult{Msg: m}
		if m.RecipientAddr == "" || m.RecipientAddr == n.Name {
			pr.Addressed = true
			pr.Err = n.Svc.ProcessMessage(m)
		}
		_ = n.State.SaveOffset(m.Offset + 1)
		out = append(out, pr)
	}
	return out, nil
}

func signEd(n *Node, bz []byte) []byte { return ed25519.Sign(n.KeyPair.Priv, bz) }

// CloseHandles closes the LevelDB handles of this node's instances (world teardown).
func (n *Node) CloseHandles() {
	for _, l := range append(n.oldLDB, n.LDB) {
		if l != nil {
			closeDBField(l, "stateDb")
		}
	}
	for _, m := range append(n.oldCold, n.Cold) {
		if m != nil {
			closeDBField(m, "db")
		}
	}
	for _, ks := range n.oldKS {
		closeDBField(ks, "keystoreDb")
	}
	n.oldLDB, n.oldCold, n.LDB, n.Cold, n.oldKS = nil, nil, nil, nil, nil
}

// AbandonCold keeps the old machine handle for teardown and installs a new one.
func (n *Node) AbandonCold(nm *airgapped.Machine) {
	if n.Cold != nil {
		n.oldCold = append(n.oldCold, n.Cold)
	}
	n.Cold = nm
}
