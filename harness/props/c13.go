package props

import (
	"encoding/json"
	"fmt"
	"regexp"
	"sort"
	"strings"
	"sync"

	"github.com/lidofinance/dc4bc/client/types"

	"verifharness/oracle"
	"verifharness/world"
)

// C13: a hot node killed at any instant resumes without losing messages or operations.
func init() { Register("C13", "fault_enumeration", checkC13) }

var hexRe = regexp.MustCompile(`[0-9a-f]{16,}`)

func effClass(op, key string) string {
	return op + ":" + hexRe.ReplaceAllString(key, "<id>")
}

// crashPlan arms a crash of the victim before its k-th durable effect (1-based).
type crashPlan struct {
	mu      sync.Mutex
	count   int
	at      int // 0 = never
	fired   bool
	classes []string // class of every effect seen (reference run)
	last    string
	// the effect the crash prevented (for the torn-write variant)
	nextOp, nextKey string
	nextVal         []byte
}

func (p *crashPlan) gate(op, key string, val []byte) string {
	switch op {
	case "set", "del", "saveoffset", "send", "reset":
	default:
		return ""
	}
	p.mu.Lock()
	defer p.mu.Unlock()
	p.count++
	cl := effClass(op, key)
	if op == "saveoffset" {
		cl = "saveoffset"
	}
	if op == "send" {
		cl = "send"
	}
	p.classes = append(p.classes, cl)
	if p.at != 0 && p.count == p.at && !p.fired {
		p.fired = true
		p.nextOp, p.nextKey, p.nextVal = op, key, append([]byte{}, val...)
		panic(world.CrashSentinel{At: p.at})
	}
	p.last = cl
	return ""
}

func pendingIDs(shadow map[string][]byte) []string {
	var ops, del map[string]*types.Operation
	_ = json.Unmarshal(shadow[world.Topic+"_operations"], &ops)
	_ = json.Unmarshal(shadow[world.Topic+"_deleted_operations"], &del)
	var out []string
	for id := range ops {
		if _, gone := del[id]; !gone {
			out = append(out, id)
		}
	}
	sort.Strings(out)
	return out
}

type c13Outcome struct {
	Effects   int
	Classes   []string
	Crashed   bool
	Where     string
	Violation string
	Detail    string
	Board     int
	// StoreShape: per node, the signature store reduced to what does not depend on the run's random
	// identifiers: per batch and message the sorted list of (broadcasting user, has-signature).
	StoreShape string
	Torn       string // set when the restart came up on a journal ending inside a record
}

func guarded(f func()) (crashed bool) {
	defer func() {
		if r := recover(); r != nil {
			if _, ok := r.(world.CrashSentinel); ok {
				crashed = true
				return
			}
			panic(r)
		}
	}()
	f()
	return false
}

// runC13 plays one full key generation + one signed batch with the victim on LevelDB; crashes[i]
// is the effect index (counted from the previous restart) before which the i-th crash happens.
// torn > 0: the kill does not fall before effect k but in the middle of it - when effect k is a state
// write, its journal record is cut (torn selects where, see world.TornWrite).
func runC13Torn(seed uint64, n, t, victim int, crashes []int, torn int) c13Outcome {
	c13Torn.Store(seed, torn)
	defer c13Torn.Delete(seed)
	return runC13(seed, n, t, victim, crashes)
}

var c13Torn sync.Map // case seed -> cut selector (keeps runC13's signature for its other callers)

func runC13(seed uint64, n, t, victim int, crashes []int) c13Outcome {
	out := c13Outcome{}
	w, err := world.NewWorld(world.Options{N: n, T: t, Seed: seed, UseLevelDB: true})
	if err != nil {
		out.Violation, out.Detail = "inconclusive", err.Error()
		return out
	}
	defer w.Close()
	ce := &Ceremony{W: w, N: n, T: t}
	v := w.Nodes[victim]
	plan := &crashPlan{}
	arm := func() {
		if len(crashes) > 0 {
			plan.count, plan.at, plan.fired = 0, crashes[0], false
			crashes = crashes[1:]
		} else {
			plan.at = 0
		}
		v.State.SetGate(plan.gate)
		v.NB.SetGate(plan.gate)
	}
	arm()
	restart := func() bool {
		out.Crashed = true
		next := "end"
		if len(plan.classes) > 0 {
			next = plan.classes[len(plan.classes)-1]
		}
		where := plan.last + "->" + next
		if out.Where == "" {
			out.Where = where
		} else if where == "set:vtopic_fsm_state->set:vtopic_operations" || !strings.Contains(out.Where, "set:vtopic_fsm_state->set:vtopic_operations") && len(out.Where) < 200 {
			// several crashes in one run: the failure is attributed to the known lossy window when one of
			// the crashes hit it, otherwise to the whole list of crash points
			if where == "set:vtopic_fsm_state->set:vtopic_operations" {
				out.Where = where
			} else {
				out.Where += " + " + where
			}
		}
		pre := v.State.Shadow()
		prePending := pendingIDs(pre)
		preOffset := offsetOf(pre)
		if cut, ok := c13Torn.Load(seed); ok && plan.nextOp == "set" && plan.nextKey != "" {
			v.TornNext = &world.TornWrite{Key: plan.nextKey, Val: plan.nextVal, Cut: cut.(int)}
			out.Torn = fmt.Sprintf("write of %s (%d bytes) cut, selector %d", effClass("set", plan.nextKey), len(plan.nextVal), cut.(int))
			plan.nextOp = ""
		}
		if err := v.CrashRestart(w.Board, w.Dir); err != nil {
			out.Violation, out.Detail = "C13/restart-fails", err.Error()
			return false
		}
		post := v.State.Shadow()
		if got := int(v.Offset()); got != preOffset {
			out.Violation, out.Detail = "C13/offset-after-restart-differs", fmt.Sprintf("saved %d, after restart %d (crash %s)", preOffset, got, where)
			return false
		}
		var postPending []string
		for _, o := range w.PendingOps(v) {
			postPending = append(postPending, o.ID)
		}
		sort.Strings(postPending)
		if strings.Join(prePending, ",") != strings.Join(postPending, ",") {
			lost, back := 0, 0
			pm := map[string]bool{}
			for _, id := range postPending {
				pm[id] = true
			}
			for _, id := range prePending {
				if !pm[id] {
					lost++
				}
				delete(pm, id)
			}
			back = len(pm)
			if lost > 0 {
				out.Violation = "C13/pending-operation-lost-by-restart"
			} else {
				out.Violation = "C13/retired-operation-offered-again-after-restart"
			}
			out.Detail = fmt.Sprintf("pending before the kill %d, after restart %d (lost %d, reappeared %d); crash %s", len(prePending), len(postPending), lost, back, where)
			return false
		}
		_ = post
		// "applies every message exactly once in effect": a result the operator already delivered for an
		// operation that is retired must still be refused after the restart, and nothing may be posted
		pend := map[string]bool{}
		for _, id := range postPending {
			pend[id] = true
		}
		for id, bz := range v.ResultCache {
			if pend[id] {
				continue
			}
			var res types.Operation
			if json.Unmarshal(bz, &res) != nil || res.Event == "" {
				continue
			}
			boardBefore := w.Board.Len()
			err := v.Svc.ProcessOperation(world.OpToDTO(&res))
			if err == nil || w.Board.Len() != boardBefore {
				out.Violation = "C13/retired-operation-answerable-again-after-restart"
				out.Detail = fmt.Sprintf("after the restart the already delivered result of retired operation %s (%s) was accepted=%v and %d message(s) were posted again; crash %s", id[:6], res.Type, err == nil, w.Board.Len()-boardBefore, where)
				return false
			}
		}
		arm()
		return true
	}
	// macro steps, each re-tried by the "operator" after a crash if its effect is not on the board
	step := func(done func() bool, do func()) bool {
		for tries := 0; tries < 6; tries++ {
			if done() {
				return true
			}
			if guarded(do) {
				if !restart() {
					return false
				}
			}
		}
		return done()
	}
	quiesce := func() bool {
		for tries := 0; tries < 8; tries++ {
			q := false
			if guarded(func() { _, q = w.Run(world.EagerPolicy, 6000) }) {
				if !restart() {
					return false
				}
				continue
			}
			return q
		}
		return false
	}
	ok := step(func() bool { return len(BoardMsgs(w, "", EvInit)) > 0 }, func() {
		ce.Round, _ = w.StartDKG(victim, t, now())
	})
	if !ok || out.Violation != "" {
		if out.Violation == "" {
			out.Violation, out.Detail = "C13/ceremony-does-not-reach-reference-outcome", "opening proposal never posted"
		}
		return out
	}
	if ce.Round == "" {
		ce.Round = BoardMsgs(w, "", EvInit)[0].DkgRoundID
	}
	if !quiesce() && out.Violation == "" {
		out.Violation, out.Detail = "C13/ceremony-does-not-reach-reference-outcome", "no quiescence in key generation"
	}
	if out.Violation != "" {
		return out
	}
	if !ce.AllIn(StIdle) {
		out.Violation, out.Detail = "C13/ceremony-does-not-reach-reference-outcome", fmt.Sprintf("after key generation: %v (crash %s)", ce.States(), out.Where)
		return out
	}
	ok = step(func() bool { return len(BoardMsgs(w, ce.Round, EvSigningStart)) > 0 }, func() {
		_ = w.ProposeSign(victim, ce.Round, map[string][]byte{"doc": []byte("to be signed")}, nil)
	})
	if out.Violation != "" {
		return out
	}
	if !ok || !quiesce() {
		if out.Violation == "" {
			out.Violation, out.Detail = "C13/ceremony-does-not-reach-reference-outcome", fmt.Sprintf("signing did not finish (crash %s)", out.Where)
		}
		return out
	}
	// reference outcome: everybody idle, same public view, a valid signature stored everywhere
	if !ce.AllIn(StIdle) {
		out.Violation, out.Detail = "C13/ceremony-does-not-reach-reference-outcome", fmt.Sprintf("after signing: %v (crash %s)", ce.States(), out.Where)
		return out
	}
	key, _, err := ce.GroupKeyFromMachines()
	if err != nil {
		out.Violation, out.Detail = "C13/ceremony-does-not-reach-reference-outcome", err.Error()
		return out
	}
	p0 := Projection(w.Nodes[0], ce.Round, oracle.ProjOpts{DropDeals: true})
	for _, nd := range w.Nodes {
		if p := Projection(nd, ce.Round, oracle.ProjOpts{DropDeals: true}); p != p0 {
			out.Violation, out.Detail = "C13/nodes-disagree-after-recovery", oracle.FirstDiff(p0, p)
			return out
		}
		if int(nd.Offset()) != w.Board.Len() {
			out.Violation, out.Detail = "C13/offset-behind-board-at-quiescence", fmt.Sprintf("%s offset %d board %d", nd.Name, nd.Offset(), w.Board.Len())
			return out
		}
		valid := 0
		for _, msgs := range SigStore(nd, ce.Round) {
			for _, entries := range msgs {
				for _, e := range entries {
					if len(e.Signature) > 0 {
						if okv, _ := oracle.VerifyG2(key, e.SrcPayload, e.Signature); okv {
							valid++
						}
					}
				}
			}
		}
		if valid == 0 {
			out.Violation, out.Detail = "C13/ceremony-does-not-reach-reference-outcome", fmt.Sprintf("%s stores no valid signature for the batch (crash %s)", nd.Name, out.Where)
			return out
		}
	}
	var shape []string
	for _, nd := range w.Nodes {
		var batches []string
		for _, msgs := range SigStore(nd, ce.Round) {
			var ms []string
			for _, entries := range msgs {
				var es []string
				for _, e := range entries {
					es = append(es, fmt.Sprintf("%s:%v", e.Username, len(e.Signature) > 0))
				}
				sort.Strings(es)
				ms = append(ms, "["+strings.Join(es, " ")+"]")
			}
			sort.Strings(ms)
			batches = append(batches, "{"+strings.Join(ms, " ")+"}")
		}
		sort.Strings(batches)
		shape = append(shape, nd.Name+"="+strings.Join(batches, " "))
	}
	out.StoreShape = strings.Join(shape, "; ")
	out.Effects = plan.count
	out.Classes = plan.classes
	out.Board = w.Board.Len()
	return out
}

func checkC13(c *Ctx) {
	c.Rule = "fault enumeration: a reference run (full key generation + one signed batch, victim on real LevelDB, stepped Poll) yields the victim's sequence of durable effects (state Set/Delete/SaveOffset, board Send). For every effect index k the run is repeated with a kill before effect k (= after effect k-1): the database directory is copied as it is on disk, the old instance abandoned, and the node restarted on the copy through services.CreateServiceProviderWithCfg. Judged right after restart (offset == last saved, pending operations == pending before the kill) and at the end (every node signing-idle, same public projection, valid signature stored, offset == board length). Victim = every node, n in {2,3}; thorough adds double crashes. A live-mode part runs the real Poll() against gated decorators and checks its trace shape. The first nine effect indices of every reference run are enumerated in the quick tier too. Kills in the middle of a state write: for state-write effects (every fifth in quick, all in thorough) the restart comes up on a copy whose journal ends inside the record of that write (cut one byte short / in the middle / after a few bytes), produced with the library's default options like LevelDBState.Set. Clean stops: the victim's real Poll() loop fetches a batch of several messages and the stop (context cancel) is requested after the k-th acknowledgement; restart, then the ceremony must finish. Real process: the shipped dc4bc_d binary on a private state directory (board unreachable, progress through POST /saveOffset) is stopped with SIGTERM and killed with SIGKILL (idle, and while offsets are being saved) and restarted on the same directories; it must come up and report the last acknowledged (or in-flight) offset. distinct = distinct (n, victim, crash-point class) judged"
	c.Assumptions = []string{"a torn journal record is produced by truncating the journal inside the record (a write(2) cut short); partial sector writes inside earlier records are not modelled", "stepped Poll performs exactly the calls of BaseNodeService.Poll; the conformance part checks that shape on the real Poll", "operators re-submit the cached result file after a crash"}
	type job struct {
		n, t, victim int
		crashes      []int
		ref          int
		torn         int // 0: kill before the effect; 1..3: kill in the middle of it (state writes)
	}
	type refk struct{ n, t, victim int }
	var refs []refk
	for _, nt := range []ntCase{{2, 2}, {3, 2}} {
		for v := 0; v < nt.N; v++ {
			refs = append(refs, refk{nt.N, nt.T, v})
		}
	}
	if c.Thorough() {
		for v := 0; v < 3; v++ {
			refs = append(refs, refk{3, 3, v})
		}
	}
	refOut := make([]c13Outcome, len(refs))
	Parallel(len(refs), 8, func(i int) {
		r := refs[i]
		refOut[i] = runC13(c.Seed*13+uint64(i), r.n, r.t, r.victim, nil)
	})
	var jobs []job
	stride := c.Pick(3, 1)
	for i, r := range refs {
		o := refOut[i]
		if o.Violation != "" {
			c.Violate("C13/reference-run-fails", fmt.Sprintf("n=%d victim=%d without any crash: %s %s", r.n, r.victim, o.Violation, o.Detail), nil)
			continue
		}
		c.Add("reference_effects", o.Effects)
		c.Sample(map[string]interface{}{"n": r.n, "t": r.t, "victim": r.victim, "durable_effects_in_reference_run": o.Effects, "board_len": o.Board, "effect_classes_head": o.Classes[:min(12, len(o.Classes))]})
		for k := 1 + i%stride; k <= o.Effects+1; k += stride {
			jobs = append(jobs, job{r.n, r.t, r.victim, []int{k}, i, 0})
		}
		// the start of the log (opening proposal, first answers: offset still 0 or small) is enumerated at every
		// index in the quick tier too: what a restart makes of a nearly empty store differs from the general case
		for k := 1; k <= 9 && k <= o.Effects && stride > 1; k++ {
			if (k-1-i%stride)%stride != 0 {
				jobs = append(jobs, job{r.n, r.t, r.victim, []int{k}, i, 0})
			}
		}
		// kills in the middle of a state write: the journal of the state database ends inside the record
		// (all writes in thorough, every fifth in quick, cut at three different places in turn)
		tornSeen := 0
		for k := 1; k <= len(o.Classes); k++ {
			if !strings.HasPrefix(o.Classes[k-1], "set:") {
				continue
			}
			tornSeen++
			if stride > 1 && (tornSeen+i)%5 != 0 {
				continue
			}
			jobs = append(jobs, job{r.n, r.t, r.victim, []int{k}, i, 1 + tornSeen%3})
		}
		// directed witness of the open finding: the first fsm_state -> operations window of the run
		for k := 1; k < len(o.Classes) && stride > 1; k++ {
			if o.Classes[k-1] == "set:vtopic_fsm_state" && o.Classes[k] == "set:vtopic_operations" {
				jobs = append(jobs, job{r.n, r.t, r.victim, []int{k + 1}, i, 0})
				break
			}
		}
		if c.Thorough() {
			rg := c.Rng(13, uint64(i))
			for d := 0; d < 40; d++ {
				k1 := 1 + rg.Intn(o.Effects)
				jobs = append(jobs, job{r.n, r.t, r.victim, []int{k1, 1 + rg.Intn(12)}, i, 0})
			}
			for d := 0; d < 10; d++ {
				jobs = append(jobs, job{r.n, r.t, r.victim, []int{1 + rg.Intn(o.Effects), 1 + rg.Intn(10), 1 + rg.Intn(10)}, i, 0})
			}
		}
	}
	var mu sync.Mutex
	whereSeen := map[string]int{}
	Parallel(len(jobs), 16, func(i int) {
		jb := jobs[i]
		var o c13Outcome
		if jb.torn > 0 {
			o = runC13Torn(c.Seed*13+uint64(i)*7+1, jb.n, jb.t, jb.victim, jb.crashes, jb.torn)
			if o.Crashed && o.Torn != "" {
				c.Add("restarts_on_a_journal_ending_inside_a_record", 1)
			}
		} else {
			o = runC13(c.Seed*13+uint64(i)*7+1, jb.n, jb.t, jb.victim, jb.crashes)
		}
		c.Eval(1)
		if o.Violation == "inconclusive" {
			c.Inconclusive("%s", o.Detail)
			return
		}
		if !o.Crashed {
			c.Add("runs_where_the_crash_point_was_not_reached", 1)
			return
		}
		mu.Lock()
		whereSeen[o.Where]++
		mu.Unlock()
		// (a kill in the middle of write k is the crash point "before write k" as far as finding keys go: the
		// record is dropped on recovery; what differs is the start-up on a damaged journal)
		c.Distinct(fmt.Sprintf("n%d v%d %s x%d torn=%v", jb.n, jb.victim, o.Where, len(jb.crashes), o.Torn != ""))
		if o.Violation != "" {
			c.Violate(o.Violation+":"+o.Where, o.Detail, map[string]interface{}{"n": jb.n, "t": jb.t, "victim": jb.victim, "kill_before_effect": jb.crashes, "crash_point": o.Where, "torn_write": o.Torn})
		} else if ref := refOut[jb.ref].StoreShape; o.StoreShape != ref {
			// applied exactly once in effect: who is recorded how often in the signature store is the same
			// as in the run without a crash
			c.Violate("C13/signature-store-differs-from-crash-free-run:"+o.Where, fmt.Sprintf("after recovery: %s; without a crash: %s", o.StoreShape, ref), map[string]interface{}{"n": jb.n, "t": jb.t, "victim": jb.victim, "kill_before_effect": jb.crashes, "crash_point": o.Where})
		} else {
			c.Add("signature_stores_equal_to_crash_free_run", 1)
		}
	})
	c.Set("crash_point_classes", whereSeen)
	c.Add("crash_runs", len(jobs))
	c.Exhaustive = stride == 1 // every effect index of every reference run
	pollConformance(c)
	c13CleanStop(c)
	c13RealDaemon(c)
}

func min(a, b int) int {
	if a < b {
		return a
	}
	return b
}
