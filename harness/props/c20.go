package props

import (
	"bytes"
	"crypto/ed25519"
	"crypto/sha256"
	"encoding/hex"
	"encoding/json"
	"fmt"
	"time"

	"github.com/lidofinance/dc4bc/client/api/dto"
	"github.com/lidofinance/dc4bc/client/services/node"
	"github.com/lidofinance/dc4bc/client/types"
	"github.com/lidofinance/dc4bc/fsm/types/requests"
	"github.com/lidofinance/dc4bc/pkg/utils"
	"github.com/lidofinance/dc4bc/storage"

	"verifharness/oracle"
	"verifharness/sched"
	"verifharness/world"
)

// C20: reinitialising from a log dump reproduces the original key material and state.
func init() { Register("C20", "exploration", checkC20) }

// stripTo014 removes what a v0.1.4 log lacks: self-confirmations and the polynomial in the key announcements.
func stripTo014(orig *types.ReDKG) (*types.ReDKG, error) {
	out := &types.ReDKG{DKGID: orig.DKGID, Threshold: orig.Threshold, Participants: orig.Participants}
	var off uint64
	for _, m := range orig.Messages {
		if m.Event == EvDeal && m.SenderAddr == m.RecipientAddr {
			continue
		}
		if m.Event == EvMasterKey {
			var r requests.DKGProposalMasterKeyConfirmationRequest
			if err := json.Unmarshal(m.Data, &r); err != nil {
				return nil, err
			}
			r.PubPolyBz = nil
			m.Data, _ = json.Marshal(r)
		}
		m.Offset = off
		off++
		out.Messages = append(out.Messages, m)
	}
	return node.GetAdaptedReDKG(out)
}

// captureReinitHashes records, per node, the confirmation hash the node attached to the reinit
// operation it hands to its operator (Operation.ExtraData of the request).
func captureReinitHashes(w *world.World) map[string][]byte {
	out := map[string][]byte{}
	prev := w.ResultHook
	w.ResultHook = func(nd *world.Node, req, res *types.Operation) *types.Operation {
		if string(req.Type) == EvReinit {
			out[nd.Name] = append([]byte{}, req.ExtraData...)
		}
		if prev != nil {
			return prev(nd, req, res)
		}
		return res
	}
	return out
}

func checkC20(c *Ctx) {
	c.Rule = "original ceremonies for (n,t), n<=4, under random delivery (some with an interleaved second round, signing and junk on the board) are reinitialised on fresh nodes with fresh communication keys and fresh machines from the same mnemonics through the real procedure (GenerateReDKGMessage, optionally stripped to the v0.1.4 shape + GetAdaptedReDKG, ReInitDKG, reinit operation through every machine, result back); plus the recorded v0.1.4 log of the repository with its mnemonics. Dumps in which an abandoned earlier attempt invited one participant under another communication key. Half of the v0.1.4-shaped dumps begin with well-formed deal messages of a foreign round sent by non-participants. Oracle: every node signing-idle with the original participants, threshold and public polynomial; every machine's share equals the original; a batch signed afterwards verifies (prysm) under the original group key; the confirmation hash is identical on all nodes and changes under every single-field edit of the reinit file. Half of the reinitialisations restart the restored machines before the reinit operation, a third enter set_seed a second time on them. Two fifths: one operator finishes his reinit and proposes a batch before the others return their reinit results. The reinit message must carry exactly the new key handed in for every participant name. distinct = distinct (scenario, n, t) reinitialisations + distinct edited fields"
	c.Assumptions = []string{"the dump contains the target round's complete key generation before the first signing proposal (the arrangement the tooling supports)", "the v0.1.4 log is judged against the group key announced in the log itself"}
	// machines log their operations (so that a restart + replay after the reinitialisation is possible)
	world.UseOpLog = true
	defer func() { world.UseOpLog = false }()
	RestartRestoredMachines = func(commSeed uint64) bool { return commSeed%2 == 0 }
	defer func() { RestartRestoredMachines = nil }()
	RepeatSetSeed = func(commSeed uint64) bool { return commSeed%3 == 1 }
	defer func() { RepeatSetSeed = nil }()
	LateReinitResults = func(commSeed uint64) bool { return commSeed%5 < 2 }
	defer func() { LateReinitResults = nil }()
	type job struct {
		n, t  int
		shape string // plain | adapted014 | interleaved | later-proposal | second-ceremony
		rep   int
	}
	var jobs []job
	for _, nt := range ntCases(c.Pick(3, 4)) {
		for _, sh := range []string{"plain", "adapted014", "interleaved", "later-proposal", "second-ceremony", "earlier-attempt-other-key"} {
			for r := 0; r < c.Pick(3, 20); r++ {
				if sh == "earlier-attempt-other-key" && r >= c.Pick(1, 6) {
					continue
				}
				jobs = append(jobs, job{nt.N, nt.T, sh, r})
			}
		}
	}
	Parallel(len(jobs), 12, func(i int) {
		jb := jobs[i]
		runC20(c, jb.n, jb.t, jb.shape, c.Seed*127+uint64(i))
	})
	runC20Recorded(c, false)
	if world.CLIBin() != "" {
		runC20Recorded(c, true)
	}
}

func runC20(c *Ctx, n, t int, shape string, seed uint64) {
	wit := map[string]interface{}{"n": n, "t": t, "shape": shape, "case_seed": seed}
	r := sched.Derive(seed, 20)
	// every other case: operators (original ceremony and reinitialisation) use the REST API
	viaHTTP := seed%2 == 1
	wit["operator_channel"] = map[bool]string{false: "node service", true: "REST API"}[viaHTTP]
	// one in four of those: the shipped tool chain as child processes (board dump as CSV -> dkg_reinitializer
	// -> reinit.json -> dc4bc_cli reinit_dkg; operations and results as files through dc4bc_cli)
	viaCLI := viaHTTP && shape != "adapted014" && seed%8 == 3 && world.CLIBin() != ""
	if viaCLI {
		wit["operator_channel"] = "dc4bc_cli + dkg_reinitializer binaries"
	}
	w, err := world.NewWorld(world.Options{N: n, T: t, Seed: seed, ViaHTTP: viaHTTP, ViaCLI: viaCLI, OddNames: seed%3 == 1})
	if err != nil {
		c.Inconclusive("world: %v", err)
		return
	}
	if viaCLI {
		c.Add("reinitialisations_through_the_shipped_binaries", 1)
	} else if viaHTTP {
		c.Add("reinitialisations_through_the_rest_api", 1)
	}
	old := &Ceremony{W: w, N: n, T: t}
	defer old.Close()
	if shape == "interleaved" {
		// junk and a foreign round's opening on the board before and during the target round
		_ = w.Board.Send(storage.Message{DkgRoundID: "junk", Event: "bogus", Data: []byte("junk"), SenderAddr: "nobody", Signature: []byte("x")})
	}
	if shape == "earlier-attempt-other-key" {
		// an abandoned attempt stands in the dump before the real round: the same people, but one of them was
		// invited with another communication key (he replaced it before the second attempt); the attempt never
		// got past the confirmations. The reinitialisation must register everybody's NEW key for the real round.
		var req requests.SignatureProposalParticipantsListRequest
		if err := json.Unmarshal(w.InitPayload(t, now().Add(-2*time.Minute)), &req); err != nil {
			c.Inconclusive("earlier attempt: %v", err)
			return
		}
		k := int(seed+1) % n
		sd := sha256.Sum256([]byte(fmt.Sprintf("replaced-key-%d", seed)))
		req.Participants[k].PubKey = ed25519.NewKeyFromSeed(sd[:]).Public().(ed25519.PublicKey)
		bz, _ := json.Marshal(req)
		if err := w.Nodes[0].Svc.StartDKG(&dto.StartDkgDTO{Payload: bz}); err != nil {
			c.Inconclusive("earlier attempt: %v", err)
			return
		}
		w.Run(world.RandomPolicy, 40*n)
		wit["participant_invited_with_another_key_in_an_earlier_attempt"] = w.Nodes[k].Name
		c.Add("dumps_with_an_earlier_attempt_under_another_key", 1)
	}
	if shape == "second-ceremony" {
		// the ceremony that is reinitialised later is not the first one these machines ran
		if _, err := w.StartDKG((int(seed)+1)%n, t, now().Add(-time.Minute)); err != nil {
			c.Inconclusive("earlier ceremony: %v", err)
			return
		}
		if _, q := w.Run(world.RandomPolicy, 8000); !q {
			c.Inconclusive("earlier ceremony: no quiescence")
			return
		}
		c.Add("originals_that_were_the_machines_second_ceremony", 1)
	}
	if shape == "adapted014" && seed%2 == 0 {
		// another ceremony shares the board: well-formed deal messages of a foreign round, sent by people who
		// take no part in the target round, stand in the dump before the target round's own deals. Nodes skip
		// them (other round id); the adaptation of the v0.1.4 log must still serve every participant.
		for k, who := range []string{"mallory", "trent"} {
			d, _ := json.Marshal(requests.DKGProposalDealConfirmationRequest{ParticipantId: k, Deal: []byte("foreign-deal"), CreatedAt: now()})
			_ = w.Board.Send(storage.Message{DkgRoundID: "f0f0f0f0f0f0f0f0" + oracle.Hash(who), Event: EvDeal, Data: d, SenderAddr: who, RecipientAddr: "peggy", Signature: []byte("foreign")})
		}
		wit["foreign_rounds_deals_before_the_target_round"] = true
		c.Add("v014_dumps_with_a_foreign_rounds_deals_first", 1)
	}
	old.Round, err = w.StartDKG(int(seed)%n, t, now())
	if err != nil {
		c.Inconclusive("start: %v", err)
		return
	}
	steps := 0
	policy := func(w *world.World, acts []world.Action) (*world.Action, int) {
		steps++
		if shape == "interleaved" && steps%11 == 0 {
			_ = w.Board.Send(storage.Message{DkgRoundID: old.Round, Event: EvCommit, Data: []byte(`{"ParticipantId":0}`), SenderAddr: "nobody", Signature: []byte("bad")})
		}
		return world.RandomPolicy(w, acts)
	}
	if _, q := w.Run(policy, 8000); !q || !old.AllIn(StIdle) {
		c.Inconclusive("original ceremony: %v", old.States())
		return
	}
	origKey, origPoly, err := old.GroupKeyFromMachines()
	if err != nil {
		c.Inconclusive("orig key: %v", err)
		return
	}
	origShares := map[string][]byte{}
	for _, nd := range w.Nodes {
		kr, _ := Keyring(nd, old.Round)
		origShares[nd.Name] = oracle.ScalarBytes(kr.Share.V)
	}
	origView := View(w.Nodes[0], old.Round)
	// signing after the key generation (the dump is cut at the first signing proposal by the tool)
	if _, err := old.RunBatch(BatchSpec{Proposer: 0, Data: map[string][]byte{"before": []byte("reinit")}}, world.RandomPolicy); err != nil {
		c.Inconclusive("orig batch: %v", err)
		return
	}
	if shape == "later-proposal" {
		// after the round began signing somebody opened another round on the same board (here: abandoned
		// after a few steps); the dump carries it behind the first signing proposal
		if _, err := w.StartDKG((int(seed)+1)%n, t, now().Add(time.Minute)); err != nil {
			c.Inconclusive("later proposal: %v", err)
			return
		}
		w.Run(world.RandomPolicy, 2+r.Intn(3*n))
		c.Add("dumps_with_a_later_round_opened_after_signing_began", 1)
	}
	var adapt func(*types.ReDKG) (*types.ReDKG, error)
	if shape == "adapted014" {
		adapt = stripTo014
	}
	ce, re, err := ReinitFrom(old, seed+4242, adapt, world.RandomPolicy)
	c.Eval(1)
	c.Distinct(fmt.Sprintf("reinit|%s|n%d t%d", shape, n, t))
	if err != nil {
		c.Violate("C20/reinitialisation-does-not-complete", err.Error(), wit)
		return
	}
	defer ce.Close()
	if ce.MachinesRestartedFirst {
		wit["restored_machines_restarted_before_the_reinit_operation"] = true
		c.Add("reinitialisations_on_machines_restarted_after_restore", 1)
	}
	if ce.EarlyBatch {
		wit["batch_proposed_before_the_other_operators_returned_their_reinit_results"] = true
		c.Add("reinitialisations_with_an_early_batch", 1)
		if !ce.AllIn(StIdle) {
			c.Violate("C20/not-signing-ready-after-reinit", fmt.Sprintf("one operator finished his reinit and proposed a batch before the others returned their reinit results; at quiescence the nodes are in %v", ce.States()), wit)
			return
		}
	}
	if ce.SeedSetTwice {
		wit["mnemonic_entered_twice_on_the_restored_machines"] = true
		c.Add("reinitialisations_on_machines_whose_seed_was_set_twice", 1)
	}
	judgeReinit(c, ce, re, origKey, oracle.CommitsBytes(origPoly), origShares, origView, wit, r)
}

func judgeReinit(c *Ctx, ce *Ceremony, re *types.ReDKG, origKey []byte, origCommits [][]byte, origShares map[string][]byte, origView *dumpView, wit map[string]interface{}, r *sched.Rng) {
	restartAfter := r.Intn(2) == 0 || wit["shape"] == "plain"
	w := ce.W
	if !ce.AllIn(StIdle) {
		c.Violate("C20/node-not-signing-ready-after-reinit", fmt.Sprint(ce.States()), wit)
		return
	}
	for _, nd := range w.Nodes {
		v := View(nd, ce.Round)
		if v == nil {
			c.Violate("C20/round-missing-after-reinit", nd.Name, wit)
			return
		}
		if origView != nil {
			if v.Payload.Threshold != origView.Payload.Threshold {
				c.Violate("C20/threshold-differs-after-reinit", fmt.Sprintf("%s: %d vs %d", nd.Name, v.Payload.Threshold, origView.Payload.Threshold), wit)
			}
			if fmt.Sprint(v.Payload.IDs) != fmt.Sprint(origView.Payload.IDs) {
				c.Violate("C20/participants-differ-after-reinit", fmt.Sprintf("%s: %v vs %v", nd.Name, v.Payload.IDs, origView.Payload.IDs), wit)
			}
		}
		// the node must now verify messages under the NEW communication keys
		for _, p := range w.Nodes {
			if !bytes.Equal(v.Payload.PubKeys[p.Name], p.KeyPair.Pub) {
				c.Violate("C20/communication-key-not-replaced", fmt.Sprintf("%s holds an old key for %s", nd.Name, p.Name), wit)
			}
		}
		hp, err := HotPoly(nd, ce.Round)
		if err != nil {
			c.Violate("C20/no-public-polynomial-after-reinit", fmt.Sprintf("%s: %v", nd.Name, err), wit)
			continue
		}
		if !eqCommits(oracle.CommitsBytes(hp), origCommits) {
			c.Violate("C20/public-polynomial-differs-from-original", nd.Name, wit)
		}
		kr, err := Keyring(nd, ce.Round)
		if err != nil || kr == nil {
			c.Violate("C20/machine-without-share-after-reinit", fmt.Sprintf("%s: %v", nd.Name, err), wit)
			continue
		}
		if origShares != nil && !bytes.Equal(oracle.ScalarBytes(kr.Share.V), origShares[nd.Name]) {
			c.Violate("C20/share-differs-from-original", nd.Name, wit)
		}
		if !bytes.Equal(oracle.PointBytes(kr.PubPoly.Commit()), origKey) {
			c.Violate("C20/group-key-differs-from-original", nd.Name, wit)
		}
	}
	// confirmation hash: identical on every node
	hs := ce.ReinitHashes
	var h0 []byte
	for name, h := range hs {
		if h0 == nil {
			h0 = h
		} else if !bytes.Equal(h0, h) {
			c.Violate("C20/confirmation-hash-differs-between-nodes", name, wit)
		}
	}
	if len(hs) != len(w.Nodes) || len(h0) == 0 {
		c.Violate("C20/confirmation-hash-missing", fmt.Sprintf("%d of %d nodes recorded one", len(hs), len(w.Nodes)), wit)
	}
	// ... and equal to what `dc4bc_cli get_reinit_dkg_file_hash` prints for the file the operators hold
	if ce.ReinitFile != "" && w.Nodes[0].CLI != nil && len(h0) > 0 {
		got, err := w.Nodes[0].CLI.ReinitFileHash(ce.ReinitFile)
		c.Eval(1)
		if err != nil {
			c.Violate("C20/tool-cannot-hash-the-reinit-file", err.Error(), wit)
		} else if got != hex.EncodeToString(h0) {
			c.Violate("C20/confirmation-hash-differs-from-the-tool's", fmt.Sprintf("nodes show %x, get_reinit_dkg_file_hash prints %s", h0, got), wit)
		} else {
			c.Add("confirmation_hashes_equal_to_the_cli_tool's", 1)
		}
	}
	// the operators' machines are restarted after the reinitialisation (closed, reopened from the database,
	// operation log replayed as the manual prescribes) before anything is signed
	if restartAfter {
		for i, nd := range w.Nodes {
			rerr, _, _, err := restartMachine(w, nd, ce.Round, 1000+i)
			if err != nil {
				c.Violate("C20/machine-restart-after-reinit-fails", err.Error(), wit)
				return
			}
			if rerr != nil {
				c.Violate("C20/operation-log-replay-after-reinit-fails", fmt.Sprintf("%s: %v", nd.Name, rerr), wit)
				return
			}
		}
		c.Add("machines_restarted_after_reinit", len(w.Nodes))
	}
	// signatures produced afterwards verify under the ORIGINAL group key
	prop, err := ce.RunBatch(BatchSpec{Proposer: len(w.Nodes) - 1, Data: map[string][]byte{"after": r.Bytes(20)}}, world.RandomPolicy)
	if err != nil {
		c.Violate("C20/signing-after-reinit-does-not-finish", err.Error(), wit)
		return
	}
	bid, msgs, _ := ExpandProposal(prop.Data)
	valid := 0
	for _, nd := range w.Nodes {
		for _, m := range msgs {
			for _, e := range SigStore(nd, ce.Round)[bid][m.ID] {
				if len(e.Signature) == 0 {
					continue
				}
				if ok, _ := oracle.VerifyG2(origKey, m.Payload, e.Signature); ok {
					valid++
				} else {
					c.Violate("C20/signature-after-reinit-invalid-under-original-key", nd.Name, wit)
				}
			}
		}
	}
	if valid == 0 {
		c.Violate("C20/no-signature-after-reinit", "", wit)
	}
	c.Add("signatures_after_reinit_verified", valid)
	// hash sensitivity to single-field edits of the file
	base, _ := json.Marshal(re)
	baseHash, err := types.CalcStartReInitDKGMessageHash(base)
	if err != nil {
		c.Violate("C20/hash-of-genuine-file-fails", err.Error(), wit)
		return
	}
	if !bytes.Equal(baseHash, h0) {
		c.Violate("C20/hash-on-node-differs-from-hash-of-file", hex.EncodeToString(h0)+" vs "+hex.EncodeToString(baseHash), wit)
	}
	// "with fresh communication keys": the message the tool (or library) built carries, for every participant,
	// exactly the new key that was handed in for that name
	for _, p := range re.Participants {
		for _, nd := range ce.W.Nodes {
			if nd.Name == p.Name && !bytes.Equal(p.NewCommPubKey, nd.KeyPair.Pub) {
				c.Violate("C20/reinit-message-lacks-a-participants-new-key", fmt.Sprintf("participant %q: the reinit message carries a new communication key of %d bytes that is not the key handed in for that name", p.Name, len(p.NewCommPubKey)), wit)
			}
		}
	}
	flip := func(b []byte) []byte {
		if len(b) == 0 {
			return []byte{1}
		}
		out := append([]byte{}, b...)
		out[len(out)/2] ^= 1
		return out
	}
	edits := 0
	tryEdit := func(field string, f func(x *types.ReDKG)) {
		var x types.ReDKG
		_ = json.Unmarshal(base, &x)
		f(&x)
		bz, _ := json.Marshal(&x)
		h, err := types.CalcStartReInitDKGMessageHash(bz)
		edits++
		c.Eval(1)
		c.Distinct("edit|" + field)
		if err == nil && bytes.Equal(h, baseHash) {
			c.Violate("C20/hash-insensitive-to:"+field, "the confirmation hash is unchanged by an edit of "+field, wit)
		}
	}
	tryEdit("dkg_id", func(x *types.ReDKG) { x.DKGID += "0" })
	tryEdit("threshold", func(x *types.ReDKG) { x.Threshold++ })
	for i := range re.Participants {
		i := i
		tryEdit("participant.name", func(x *types.ReDKG) { x.Participants[i].Name += "x" })
		tryEdit("participant.dkg_pub_key", func(x *types.ReDKG) { x.Participants[i].DKGPubKey = flip(x.Participants[i].DKGPubKey) })
		tryEdit("participant.old_comm_pub_key", func(x *types.ReDKG) { x.Participants[i].OldCommPubKey = flip(x.Participants[i].OldCommPubKey) })
		tryEdit("participant.new_comm_pub_key", func(x *types.ReDKG) { x.Participants[i].NewCommPubKey = flip(x.Participants[i].NewCommPubKey) })
	}
	tryEdit("participants.dropped", func(x *types.ReDKG) { x.Participants = x.Participants[1:] })
	tryEdit("participants.swapped", func(x *types.ReDKG) { x.Participants[0], x.Participants[1] = x.Participants[1], x.Participants[0] })
	for i := range re.Messages {
		i := i
		if i > 6 && i%5 != 0 {
			continue
		}
		tryEdit("message.data", func(x *types.ReDKG) { x.Messages[i].Data[len(x.Messages[i].Data)/2] ^= 1 })
		if len(re.Messages[i].Signature) > 0 {
			tryEdit("message.signature", func(x *types.ReDKG) { x.Messages[i].Signature[0] ^= 1 })
		}
		tryEdit("message.sender", func(x *types.ReDKG) { x.Messages[i].SenderAddr += "x" })
		tryEdit("message.recipient", func(x *types.ReDKG) { x.Messages[i].RecipientAddr += "x" })
		tryEdit("message.event", func(x *types.ReDKG) { x.Messages[i].Event += "x" })
		tryEdit("message.round", func(x *types.ReDKG) { x.Messages[i].DkgRoundID += "x" })
		tryEdit("message.offset", func(x *types.ReDKG) { x.Messages[i].Offset += 1000 })
	}
	if len(re.Messages) > 3 {
		// a message nobody sent, put in front of a genuine one under the identifier of an earlier entry (the
		// identifier is neither signed nor meaningful to the replay): the file is a different one
		tryEdit("messages.inserted-under-a-reused-id", func(x *types.ReDKG) {
			at := len(x.Messages) / 2
			forged := x.Messages[at]
			forged.ID = x.Messages[0].ID
			forged.Data = flip(forged.Data)
			x.Messages = append(x.Messages[:at], append([]storage.Message{forged}, x.Messages[at:]...)...)
		})
	}
	tryEdit("messages.dropped-last", func(x *types.ReDKG) { x.Messages = x.Messages[:len(x.Messages)-1] })
	tryEdit("messages.swapped", func(x *types.ReDKG) { x.Messages[1], x.Messages[2] = x.Messages[2], x.Messages[1] })
	c.Add("file_edits_tried", edits)
	c.Add("reinitialisations_judged", 1)
	if _, ok := wit["sampled"]; !ok && c.Get("reinitialisations_judged") <= 2 {
		c.Sample(map[string]interface{}{"case": wit, "messages_in_file": len(re.Messages), "edits": edits, "hash": hex.EncodeToString(baseHash)})
	}
}

const recordedLogPath = "/repo/client/test_data/0_1_4_log.csv"

var recordedMnemonics = map[string]string{
	"swelf":     "cigar family price stove waste reform midnight ceiling panic guitar team merge noble cycle table biology begin consider rally pair spend weapon perfect vague",
	"callmepak": "panic shuffle tell injury pass bamboo play eye diet play industry banner law poet west chase library print shed image jeans degree fabric like",
	"ratik":     "wage danger sword copper alone jelly hollow gaze mouse picnic eternal april drink fashion invite mansion follow cover crucial apology salmon destroy repair add",
	"sotnikov":  "fever tongue elite spice relief nominee barrel yellow word tissue about urban library clap access forward flame seat remove cradle chimney problem cream twelve",
}

// runC20Recorded reinitialises the v0.1.4 log recorded in the repository.
func runC20Recorded(c *Ctx, tools bool) {
	msgs, err := utils.ReadLogMessages(recordedLogPath, ';', true, 4)
	if err != nil {
		c.Inconclusive("recorded log: %v", err)
		return
	}
	names := []string{"swelf", "callmepak", "ratik", "sotnikov"}
	var mn []string
	for _, n := range names {
		mn = append(mn, recordedMnemonics[n])
	}
	viaCLI := tools && world.CLIBin() != "" && world.ReinitializerBin() != ""
	w, err := world.NewWorld(world.Options{N: 4, T: 2, Seed: c.Seed * 131, Names: names, Mnemonics: mn, ViaCLI: viaCLI})
	if err != nil {
		c.Inconclusive("recorded world: %v", err)
		return
	}
	keys := map[string][]byte{}
	for _, nd := range w.Nodes {
		keys[nd.Name] = nd.KeyPair.Pub
	}
	var re *types.ReDKG
	ce := &Ceremony{W: w, N: 4}
	defer ce.Close()
	if viaCLI {
		// exactly the documented procedure: the repository's CSV dump -> dkg_reinitializer (adapting from
		// 0.1.4) -> dc4bc_cli reinit_dkg
		cli := w.Nodes[0].CLI
		re, _, ce.ReinitFile, err = RunReinitializer(cli.Dir, recordedLogPath, keys, true)
		if err != nil {
			c.Violate("C20/reinitialisation-does-not-complete", "recorded 0.1.4 log: "+err.Error(), map[string]interface{}{"shape": "recorded v0.1.4 log through the binaries"})
			return
		}
		ce.T, ce.Round = re.Threshold, re.DKGID
		ce.ReinitHashes = captureReinitHashes(w)
		if err := cli.Reinit(ce.ReinitFile); err != nil {
			c.Inconclusive("reinit_dkg: %v", err)
			return
		}
		c.Add("reinitialisations_through_the_shipped_binaries", 1)
	} else {
		re, err = types.GenerateReDKGMessage(msgs, keys)
		if err != nil {
			c.Inconclusive("generate: %v", err)
			return
		}
		re, err = node.GetAdaptedReDKG(re)
		if err != nil {
			c.Inconclusive("adapt: %v", err)
			return
		}
		ce.T, ce.Round = re.Threshold, re.DKGID
		ce.ReinitHashes = captureReinitHashes(w)
		bz, _ := json.Marshal(re)
		if err := w.Nodes[0].Svc.ReInitDKG(&dto.ReInitDKGDTO{ID: re.DKGID, Payload: bz}); err != nil {
			c.Inconclusive("reinit post: %v", err)
			return
		}
	}
	w.Run(world.RandomPolicy, 6000)
	c.Eval(1)
	c.Distinct(fmt.Sprintf("reinit|recorded-0.1.4|tools=%v", viaCLI))
	// the original group key is the one announced in the recorded log
	var origKey []byte
	for _, m := range msgs {
		if m.Event == EvMasterKey {
			var r requests.DKGProposalMasterKeyConfirmationRequest
			if json.Unmarshal(m.Data, &r) == nil {
				origKey = r.MasterKey
			}
		}
	}
	wit := map[string]interface{}{"shape": "recorded v0.1.4 log", "n": 4, "t": re.Threshold}
	if origKey == nil {
		c.Inconclusive("recorded log carries no key announcement")
		return
	}
	if !ce.AllIn(StIdle) {
		c.Violate("C20/node-not-signing-ready-after-reinit", fmt.Sprint(ce.States()), wit)
		return
	}
	_, poly, err := ce.GroupKeyFromMachines()
	if err != nil {
		c.Violate("C20/machine-without-share-after-reinit", err.Error(), wit)
		return
	}
	judgeReinit(c, ce, re, origKey, oracle.CommitsBytes(poly), nil, nil, wit, sched.Derive(c.Seed, 2014))
}
