package main

import (
	"fmt"
	"os"

	"verifharness/props"
)

func main() {
	if len(os.Args) < 2 {
		fmt.Fprintln(os.Stderr, "usage: verifd check <Cxx> [quick|thorough] | worker ... | smoke")
		os.Exit(2)
	}
	os.Exit(props.Main(os.Args[1:]))
}
