package props

import (
	"bytes"
	"encoding/json"
	"fmt"
	"os"
	"path/filepath"
	"strings"
	"time"

	"github.com/lidofinance/dc4bc/airgapped"
	"github.com/lidofinance/dc4bc/client/types"

	"verifharness/oracle"
	"verifharness/world"
)

// c12RejectedThenRestart: an operation the machine REJECTS is part of its history too. Before a genuine
// step operation the victim's machine is handed a damaged version of it (one participant's entry dropped
// from the payload - an operator carrying an outdated file); whatever the machine makes of it, a machine
// restarted and replayed at that point must answer the genuine operation exactly like the machine that
// never stopped: same result event, same stored share.
func c12RejectedThenRestart(c *Ctx, seed uint64) {
	n, t, victim := 3, 2, 0
	for _, step := range []string{OpDeals, OpResponses, OpMasterKey} {
		wit := map[string]interface{}{"family": "rejected operation, then restart + replay", "n": n, "t": t, "victim": victim, "damaged_step": step, "case_seed": seed}
		w, err := world.NewWorld(world.Options{N: n, T: t, Seed: seed})
		if err != nil {
			c.Inconclusive("rejected-then-restart: world: %v", err)
			return
		}
		func() {
			defer w.Close()
			ce := &Ceremony{W: w, N: n, T: t}
			fired := false
			var extra []*world.Node
			defer func() {
				for _, x := range extra {
					x.CloseHandles()
				}
			}()
			w.ColdHook = func(nd *world.Node, op *types.Operation) (*types.Operation, error) {
				if nd.Idx != victim || string(op.Type) != step || fired || nd.Cold == nil {
					return nil, nil
				}
				fired = true
				var entries []json.RawMessage
				if json.Unmarshal(op.Payload, &entries) != nil || len(entries) < 2 {
					c.Inconclusive("rejected-then-restart: payload of %s is not a list", step)
					return nil, nil
				}
				damaged := *op
				damaged.Payload, _ = json.Marshal(entries[:len(entries)-1])
				dres, derr := w.ColdResult(nd, &damaged, true)
				wit["damaged_operation_outcome"] = fmt.Sprintf("%v / %v", func() interface{} {
					if dres != nil {
						return dres.Event
					}
					return nil
				}(), derr)
				// the restarted twin: database as it is on disk, real constructors, replay
				newDir := filepath.Join(w.Dir, fmt.Sprintf("cold_rejected_%s", step), "db")
				_ = os.MkdirAll(filepath.Dir(newDir), 0o755)
				if err := world.CopyDir(nd.ColdDir, newDir); err != nil {
					c.Inconclusive("rejected-then-restart: copy: %v", err)
					return nil, nil
				}
				_ = os.Remove(filepath.Join(newDir, "LOCK"))
				amB, err := airgapped.NewMachine(newDir)
				if err != nil {
					c.Inconclusive("rejected-then-restart: open: %v", err)
					return nil, nil
				}
				b := &world.Node{Idx: nd.Idx, Name: nd.Name, Cold: amB, ColdDir: newDir}
				extra = append(extra, b)
				amB.SetEncryptionKey([]byte(world.Password))
				if err := amB.InitKeys(); err != nil {
					c.Inconclusive("rejected-then-restart: keys: %v", err)
					return nil, nil
				}
				amB.SetResultFolder(filepath.Dir(newDir))
				replayErr := amB.ReplayOperationsLog(op.DKGIdentifier)
				wit["replay_error"] = fmt.Sprint(replayErr)
				resA, errA := w.ColdResult(nd, op, true)
				resB, errB := w.ColdResult(b, op, true)
				c.Eval(1)
				c.Distinct("rejected-then-restart|" + step)
				evOf := func(r *types.Operation, e error) string {
					if e != nil {
						return "error"
					}
					return string(r.Event)
				}
				wit["never_stopped"] = fmt.Sprintf("%s / %v", evOf(resA, errA), errA)
				wit["restarted"] = fmt.Sprintf("%s / %v", evOf(resB, errB), errB)
				if evOf(resA, errA) != evOf(resB, errB) {
					c.Violate("C12/restarted-machine-answers-differently-after-a-rejected-operation", fmt.Sprintf("after a damaged %s operation the machine that never stopped answers the genuine one with %s, the machine restarted and replayed at that point with %s", step, evOf(resA, errA), evOf(resB, errB)), wit)
				} else if step == OpMasterKey {
					ka, _ := Keyring(nd, op.DKGIdentifier)
					kb, _ := Keyring(b, op.DKGIdentifier)
					if (ka == nil) != (kb == nil) || (ka != nil && !bytes.Equal(oracle.ScalarBytes(ka.Share.V), oracle.ScalarBytes(kb.Share.V))) {
						c.Violate("C12/restarted-machine-answers-differently-after-a-rejected-operation", fmt.Sprintf("after a damaged %s operation: share stored by the machine that never stopped: %v, by the restarted one: %v (or they differ)", step, ka != nil, kb != nil), wit)
					}
				}
				c.Add("rejected_operation_then_restart_cases", 1)
				if errA != nil {
					return nil, errA
				}
				return resA, nil
			}
			if ce.Round, err = w.StartDKG(0, t, now()); err != nil {
				c.Inconclusive("rejected-then-restart: start: %v", err)
				return
			}
			w.Run(world.EagerPolicy, 6000)
			if !fired {
				c.Inconclusive("rejected-then-restart: no %s operation reached the victim", step)
			}
		}()
	}
}

// c12TwoRoundsInFlight: one machine takes part in two key generations at the same time (two rounds opened
// before either has finished). It is stopped in the middle and restarted; the operator replays the log of
// each round, one after the other (`replay_operations_log` takes one round). Both ceremonies must finish
// with consistent key material, as they do without the restart.
func c12TwoRoundsInFlight(c *Ctx, seed uint64) {
	n, t, victim := 2+int(seed%2), 2, 0
	for _, step := range []string{OpDeals, OpResponses, OpMasterKey} {
		for _, order := range []string{"A-then-B", "B-then-A", "A-then-B after the log of a finished rehearsal round was dropped"} {
			rehearsal := strings.HasSuffix(order, "dropped")
			if rehearsal && step != OpResponses {
				continue
			}
			wit := map[string]interface{}{"family": "two rounds in flight on one machine, restart + one replay per round", "n": n, "t": t, "victim": victim, "restart_before_first": step, "replay_order": order, "case_seed": seed}
			w, err := world.NewWorld(world.Options{N: n, T: t, Seed: seed})
			if err != nil {
				c.Inconclusive("two rounds in flight: world: %v", err)
				return
			}
			func() {
				defer w.Close()
				var ces [2]*Ceremony
				rehearsalRound := ""
				if rehearsal {
					// a rehearsal round completed on the same machines before; its log is dropped later
					// (drop_operations_log <round>) - the operator tidies up right before the restart
					id, err := w.StartDKG(0, t, now().Add(-time.Minute))
					if err != nil {
						c.Inconclusive("two rounds in flight: rehearsal: %v", err)
						return
					}
					if _, q := w.Run(world.RandomPolicy, 8000); !q || !(&Ceremony{W: w, N: n, T: t, Round: id}).AllIn(StIdle) {
						c.Inconclusive("two rounds in flight: the rehearsal round does not finish")
						return
					}
					rehearsalRound = id
				}
				for k := 0; k < 2; k++ {
					id, err := w.StartDKG(k%n, t, now().Add(time.Duration(k)*time.Second))
					if err != nil {
						c.Inconclusive("two rounds in flight: start: %v", err)
						return
					}
					ces[k] = &Ceremony{W: w, N: n, T: t, Round: id}
				}
				fired := false
				var replayErrs []string
				w.ColdHook = func(nd *world.Node, op *types.Operation) (*types.Operation, error) {
					if nd.Idx != victim || string(op.Type) != step || fired || nd.Cold == nil {
						return nil, nil
					}
					fired = true
					if rehearsalRound != "" {
						if err := nd.Cold.DropOperationsLog(rehearsalRound); err != nil {
							replayErrs = append(replayErrs, fmt.Sprintf("drop_operations_log %s: %v", trunc(rehearsalRound, 6), err))
						}
						c.Add("logs_of_a_finished_round_dropped_before_a_restart", 1)
					}
					first, second := ces[0].Round, ces[1].Round
					if order == "B-then-A" {
						first, second = second, first
					}
					rerr, _, _, err := restartMachine(w, nd, first, 7000)
					if err != nil {
						return nil, fmt.Errorf("restart: %w", err)
					}
					if rerr != nil {
						replayErrs = append(replayErrs, fmt.Sprintf("%s: %v", trunc(first, 6), rerr))
					}
					if err := nd.Cold.ReplayOperationsLog(second); err != nil {
						replayErrs = append(replayErrs, fmt.Sprintf("%s: %v", trunc(second, 6), err))
					}
					return nil, nil
				}
				_, q := w.Run(world.RandomPolicy, 12000)
				c.Eval(1)
				c.Distinct(fmt.Sprintf("two-rounds-in-flight|%s|%s", step, order))
				c.Add("two_rounds_in_flight_cases", 1)
				wit["replay_errors"] = replayErrs
				if !fired {
					c.Inconclusive("two rounds in flight: no %s operation reached the victim", step)
					return
				}
				for k, ce := range ces {
					if !q || !ce.AllIn(StIdle) {
						c.Violate("C12/ceremony-with-restarts-does-not-finish", fmt.Sprintf("two rounds in flight, machine %d restarted before its first %s and both logs replayed (%s): round %d ends %v; trace tail %v", victim, step, order, k, ce.States(), tailStrings(w.Trace, 3)), wit)
						return
					}
					if !judgeKeyMaterial(c, ce, "C12/two-rounds-in-flight", wit) {
						return
					}
				}
			}()
		}
	}
}
