package props

import (
	"bytes"
	"encoding/json"
	"fmt"
	"os"
	"path/filepath"
	"strings"
	"time"

	"github.com/lidofinance/dc4bc/airgapped"
	"github.com/lidofinance/dc4bc/client/types"

	"verifharness/oracle"
	"verifharness/sched"
	"verifharness/world"
)

// C12: an airgapped machine restarted mid-ceremony and replayed continues identically.
func init() { Register("C12", "fault_enumeration", checkC12) }

type c12Final struct {
	Commits [][]byte // group polynomial
	Share   []byte
	ShareI  int
	PubKey  []byte
	Commit  []byte // the machine's own published commitments (commit message payload)
}

type c12Restart struct {
	Node int
	Step string // operation type before which the restart happens
	Mode string // between | computed-not-logged | logged-no-result-file
}

// commitOf extracts the published commitments from a commit message payload (its timestamp is the
// node's operation timestamp and differs between runs).
func commitOf(data []byte) []byte {
	var r struct{ Commit []byte }
	_ = json.Unmarshal(data, &r)
	return r.Commit
}

func opLogLen(dir, round string) int {
	m, err := world.DumpLevelDB(dir)
	if err != nil {
		return -1
	}
	var log map[string][]json.RawMessage
	if json.Unmarshal(m["operations_log"], &log) != nil {
		return -1
	}
	return len(log[round])
}

// restartMachine: copy the database as it is on disk, open it with the real constructors and replay.
func restartMachine(w *world.World, n *world.Node, round string, seq int) (replayErr error, logBefore, logAfter int, err error) {
	newDir := filepath.Join(filepath.Dir(filepath.Dir(n.ColdDir)), fmt.Sprintf("cold_%d_r%d", n.Idx, seq), "db")
	if err = os.MkdirAll(filepath.Dir(newDir), 0o755); err != nil {
		return
	}
	if err = world.CopyDir(n.ColdDir, newDir); err != nil {
		return
	}
	logBefore = opLogLen(newDir, round)
	var am *airgapped.Machine
	am, err = airgapped.NewMachine(newDir)
	if err != nil {
		return
	}
	am.SetEncryptionKey([]byte(world.Password))
	if err = am.InitKeys(); err != nil {
		return
	}
	am.SetResultFolder(filepath.Dir(newDir))
	n.AbandonCold(am)
	n.ColdDir = newDir
	replayErr = am.ReplayOperationsLog(round)
	logAfter = opLogLen(newDir, round)
	return
}

// prior: the same machines complete an earlier round first; restarts and the twin concern the second.
func runC12(seed uint64, n, t int, createdAt time.Time, restarts []c12Restart, twin int, prior bool) (finals []c12Final, round string, notes []string, viol [][2]string) {
	w, err := world.NewWorld(world.Options{N: n, T: t, Seed: seed})
	if err != nil {
		notes = append(notes, err.Error())
		return
	}
	defer w.Close()
	ce := &Ceremony{W: w, N: n, T: t}
	seq := 0
	pending := append([]c12Restart{}, restarts...)
	var twinOps []types.Operation
	ownCommit := map[int][]byte{}
	armed := !prior
	w.ColdHook = func(nd *world.Node, op *types.Operation) (*types.Operation, error) {
		if !armed {
			return nil, nil
		}
		if nd.Idx == twin {
			twinOps = append(twinOps, *op)
		}
		var mine *c12Restart
		for i := range pending {
			if pending[i].Node == nd.Idx && pending[i].Step == string(op.Type) {
				r := pending[i]
				pending = append(pending[:i], pending[i+1:]...)
				mine = &r
				break
			}
		}
		if mine == nil {
			return nil, nil
		}
		in, _ := world.JSONRoundTrip(op)
		switch mine.Mode {
		case "computed-not-logged":
			// the handler ran in the process that then died; nothing was logged
			_, _ = nd.Cold.GetOperationResult(*in)
		case "logged-no-result-file":
			nd.Cold.SetResultFolder(filepath.Join(w.Dir, "does-not-exist"))
			if _, err := nd.Cold.ProcessOperation(*in, true); err == nil {
				notes = append(notes, "result file unexpectedly written")
			}
		}
		seq++
		rerr, lb, la, err := restartMachine(w, nd, ce.Round, seq)
		if err != nil {
			viol = append(viol, [2]string{"C12/restart-fails", fmt.Sprintf("node %d before %s (%s): %v", nd.Idx, mine.Step, mine.Mode, err)})
			return nil, err
		}
		if rerr != nil && !strings.Contains(rerr.Error(), "operation log not found") {
			viol = append(viol, [2]string{"C12/replay-fails", fmt.Sprintf("node %d before %s (%s): %v", nd.Idx, mine.Step, mine.Mode, rerr)})
		}
		if lb < 0 || la < 0 {
			notes = append(notes, "operation log could not be read from a directory copy (measurement skipped)")
		} else if la != lb {
			viol = append(viol, [2]string{"C12/operation-log-changed-by-replay", fmt.Sprintf("node %d: %d entries before replay, %d after", nd.Idx, lb, la)})
		}
		if mine.Mode == "logged-no-result-file" {
			// the operator takes the result file the replay has just written
			path := filepath.Join(filepath.Dir(nd.ColdDir), in.Filename()+"_result.json")
			bz, err := os.ReadFile(path)
			if err != nil {
				viol = append(viol, [2]string{"C12/replay-wrote-no-result-file", fmt.Sprintf("node %d step %s: %v", nd.Idx, mine.Step, err)})
				return nil, nil
			}
			var res types.Operation
			if err := json.Unmarshal(bz, &res); err != nil {
				viol = append(viol, [2]string{"C12/replayed-result-file-unparsable", err.Error()})
				return nil, nil
			}
			return &res, nil
		}
		return nil, nil
	}
	w.ResultHook = func(nd *world.Node, req, res *types.Operation) *types.Operation {
		if string(req.Type) == OpCommits && len(res.ResultMsgs) == 1 {
			ownCommit[nd.Idx] = commitOf(res.ResultMsgs[0].Data)
		}
		return res
	}
	world.UseOpLog = true
	if prior {
		pr, err := w.StartDKG(n-1, t, createdAt.Add(-time.Hour))
		if err != nil {
			notes = append(notes, err.Error())
			return
		}
		if _, q := w.Run(world.EagerPolicy, 6000); !q || !(&Ceremony{W: w, N: n, T: t, Round: pr}).AllIn(StIdle) {
			notes = append(notes, "earlier round did not finish")
			return
		}
		armed = true
	}
	ce.Round, err = w.StartDKG(0, t, createdAt)
	if err != nil {
		notes = append(notes, err.Error())
		return
	}
	round = ce.Round
	_, q := w.Run(world.EagerPolicy, 6000)
	if !q || !ce.AllIn(StIdle) {
		viol = append(viol, [2]string{"C12/ceremony-with-restarts-does-not-finish", fmt.Sprintf("states %v, restarts %v", ce.States(), restarts)})
		return
	}
	if len(pending) > 0 {
		notes = append(notes, fmt.Sprintf("restart points never reached: %v", pending))
	}
	for _, nd := range w.Nodes {
		kr, err := Keyring(nd, ce.Round)
		if err != nil || kr == nil {
			viol = append(viol, [2]string{"C12/no-keyring-after-ceremony", fmt.Sprintf("%s: %v", nd.Name, err)})
			return
		}
		finals = append(finals, c12Final{Commits: oracle.CommitsBytes(kr.PubPoly), Share: oracle.ScalarBytes(kr.Share.V), ShareI: kr.Share.I, PubKey: oracle.PointBytes(nd.Cold.GetPubKey()), Commit: ownCommit[nd.Idx]})
	}
	// twin: a second machine from the same mnemonic fed the same operations
	if twin >= 0 {
		dir := filepath.Join(w.Dir, "twin", "db")
		_ = os.MkdirAll(filepath.Dir(dir), 0o755)
		tm, err := world.OpenCold(dir, w.Nodes[twin].Mnemonic, world.Password)
		if err != nil {
			notes = append(notes, "twin: "+err.Error())
			return
		}
		tn := &world.Node{Idx: twin, Cold: tm, ColdDir: dir}
		defer tn.CloseHandles()
		var tCommit []byte
		for _, op := range twinOps {
			res, err := tm.GetOperationResult(op)
			if err != nil {
				viol = append(viol, [2]string{"C12/twin-machine-refuses-what-the-original-accepted", err.Error()})
				return
			}
			if string(op.Type) == OpCommits && len(res.ResultMsgs) == 1 {
				tCommit = commitOf(res.ResultMsgs[0].Data)
			}
		}
		kr, err := Keyring(tn, ce.Round)
		if err != nil || kr == nil {
			viol = append(viol, [2]string{"C12/twin-machine-has-no-keyring", fmt.Sprint(err)})
			return
		}
		f := finals[twin]
		if !bytes.Equal(oracle.PointBytes(tm.GetPubKey()), f.PubKey) {
			viol = append(viol, [2]string{"C12/twin-machines-differ:long-term-key", ""})
		}
		if !bytes.Equal(tCommit, f.Commit) {
			viol = append(viol, [2]string{"C12/twin-machines-differ:commitments", ""})
		}
		if !bytes.Equal(oracle.ScalarBytes(kr.Share.V), f.Share) || !eqCommits(oracle.CommitsBytes(kr.PubPoly), f.Commits) {
			viol = append(viol, [2]string{"C12/twin-machines-differ:share-or-polynomial", ""})
		}
	}
	return
}

func checkC12(c *Ctx) {
	c.Rule = "fault enumeration over restart points of the airgapped machine: before each of the four key-generation steps ('between'), inside a step after the result was computed but before it was logged, and after it was logged but before the result file was written (unwritable result folder); restart = copy of the database directory as on disk, NewMachine, SetEncryptionKey, InitKeys, ReplayOperationsLog. Every single (participant, step, mode) point for n<=3 (quick) / n<=4 (thorough), plus seeded runs with 2-3 restarts. Oracle: every machine's final share and group polynomial and published commitments are byte-equal to an uninterrupted reference run with the same mnemonics and opening proposal; the operation log does not change across a replay; a twin machine from the same mnemonic fed the same operations agrees on long-term key, commitments, share. A second part (child process) drives the shipped cmd/airgapped binary through its prompt on a pseudo-terminal: SIGKILL before steps, restart, replay_operations_log, same comparison. A damaged (rejected) step operation fed before a restart: the restarted+replayed machine and the one that never stopped must answer the genuine operation alike. distinct = distinct (n,t,restart set) One of the two-rounds cases drops the log of a finished rehearsal round (drop_operations_log) right before the restart."
	c.Assumptions = []string{"deal ciphertexts are not compared (ECIES ephemeral keys are not constrained by the property)", "the machine's LevelDB writes are atomic per Put"}
	defer func() { world.UseOpLog = false }()
	steps := []string{OpCommits, OpDeals, OpResponses, OpMasterKey}
	modes := []string{"between", "computed-not-logged", "logged-no-result-file"}
	createdAt := now()
	for _, nt := range ntCases(c.Pick(3, 4)) {
		n, t := nt.N, nt.T
		seed := c.Seed*101 + uint64(n*10+t)
		ref, _, notes, viol := runC12(seed, n, t, createdAt, nil, 0, false)
		if len(viol) > 0 || len(ref) != n {
			c.Violate("C12/reference-run-fails", fmt.Sprint(viol, notes), nil)
			continue
		}
		// the same with an earlier completed round on the same machines (a machine is used for many rounds)
		refPrior, _, notes, viol := runC12(seed, n, t, createdAt, nil, 0, true)
		if len(viol) > 0 || len(refPrior) != n {
			c.Violate("C12/reference-run-fails", fmt.Sprint("after an earlier round: ", viol, notes), nil)
			continue
		}
		var jobs [][]c12Restart
		for p := 0; p < n; p++ {
			for _, s := range steps {
				for _, m := range modes {
					jobs = append(jobs, []c12Restart{{p, s, m}})
				}
			}
		}
		r := sched.Derive(seed, 12)
		multi := c.Pick(30, 300)
		for k := 0; k < multi; k++ {
			cnt := 2 + r.Intn(2)
			var rs []c12Restart
			seen := map[string]bool{}
			for len(rs) < cnt {
				x := c12Restart{r.Intn(n), steps[r.Intn(4)], modes[r.Intn(3)]}
				key := fmt.Sprintf("%d/%s", x.Node, x.Step)
				if !seen[key] {
					seen[key] = true
					rs = append(rs, x)
				}
			}
			jobs = append(jobs, rs)
		}
		// the worlds share the global UseOpLog switch but nothing else
		Parallel(len(jobs), 16, func(i int) {
			rs := jobs[i]
			prior := i%3 == 2
			ref := ref
			if prior {
				ref = refPrior
				c.Add("restarted_runs_on_machines_that_completed_an_earlier_round", 1)
			}
			got, _, notes, viol := runC12(seed, n, t, createdAt, rs, i%n, prior)
			c.Eval(1)
			c.Distinct(fmt.Sprintf("n%d t%d %v prior=%v", n, t, rs, prior))
			wit := map[string]interface{}{"n": n, "t": t, "restarts": rs, "notes": notes, "machines_completed_an_earlier_round": prior}
			for _, v := range viol {
				c.Violate(v[0], v[1], wit)
			}
			if len(viol) > 0 || len(got) != n {
				return
			}
			for p := 0; p < n; p++ {
				if !bytes.Equal(got[p].Share, ref[p].Share) || got[p].ShareI != ref[p].ShareI {
					c.Violate("C12/private-share-differs-from-uninterrupted-run", fmt.Sprintf("participant %d", p), wit)
				}
				if !eqCommits(got[p].Commits, ref[p].Commits) {
					c.Violate("C12/group-polynomial-differs-from-uninterrupted-run", fmt.Sprintf("participant %d", p), wit)
				}
				if !bytes.Equal(got[p].Commit, ref[p].Commit) {
					c.Violate("C12/republished-commitments-differ", fmt.Sprintf("participant %d", p), wit)
				}
				if !bytes.Equal(got[p].PubKey, ref[p].PubKey) {
					c.Violate("C12/long-term-key-differs", fmt.Sprintf("participant %d", p), wit)
				}
			}
			c.Add("restarted_runs_equal_to_reference", 1)
			if i < 2 {
				c.Sample(wit)
			}
		})
	}
	c.Exhaustive = true
	// rejected operations are history too
	for i := 0; i < c.Pick(1, 4); i++ {
		c12RejectedThenRestart(c, c.Seed*229+uint64(i))
	}
	// two rounds in flight on one machine
	for i := 0; i < c.Pick(1, 4); i++ {
		c12TwoRoundsInFlight(c, c.Seed*233+uint64(i))
	}
	// the same with the shipped binary as a real process (SIGKILL, restart, replay_operations_log)
	c.RunPartInChild("c12proc", "C12/real-binary-part-died")
}
