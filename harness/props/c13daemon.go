package props

import (
	"bytes"
	"fmt"
	"io"
	"net"
	"net/http"
	"os"
	"os/exec"
	"path/filepath"
	"regexp"
	"strconv"
	"strings"
	"sync"
	"syscall"
	"time"

	"verifharness/sched"
	"verifharness/world"
)

// c13RealDaemon: the shipped daemon (cmd/dc4bc_d, built from the tree under test) as a real process on a
// private state directory. Its board (Kafka) is unreachable, which the daemon tolerates - it sees no
// messages - so the durable progress is made through its local API (POST /saveOffset, acknowledged
// requests). The process is stopped cleanly (SIGTERM) and killed (SIGKILL at an instant drawn from the
// seed, while a client keeps posting offsets) and started again on the same directories, several times.
// Oracle: every restart comes up and serves its API without any manual clean-up; the offset it reports is
// the last acknowledged one (or the one in flight when the kill hit).
func c13RealDaemon(c *Ctx) {
	bin := os.Getenv("VERIF_DAEMON_BIN")
	if bin == "" {
		c.Note("real-daemon part skipped: no dc4bc_d binary (./check builds it)")
		return
	}
	dir, err := os.MkdirTemp(world.WorkRoot(), "c13daemon-")
	if err != nil {
		c.Inconclusive("real daemon: %v", err)
		return
	}
	defer os.RemoveAll(dir)
	r := sched.Derive(c.Seed, 1313)
	wit := map[string]interface{}{"family": "the real dc4bc_d process: SIGTERM / SIGKILL and restart on the same directories"}
	if out, err := exec.Command(bin, "gen_keys", "--username", "alice", "--key_store_dbdsn", filepath.Join(dir, "key_store")).CombinedOutput(); err != nil {
		c.Inconclusive("real daemon: gen_keys: %v %s", err, trunc(string(out), 200))
		return
	}
	l, err := net.Listen("tcp", "127.0.0.1:0")
	if err != nil {
		c.Inconclusive("real daemon: no loopback port: %v", err)
		return
	}
	addr := l.Addr().String()
	l.Close()
	type daemon struct {
		cmd    *exec.Cmd
		out    *bytes.Buffer
		mu     sync.Mutex
		exited chan struct{}
	}
	start := func() *daemon {
		d := &daemon{out: &bytes.Buffer{}, exited: make(chan struct{})}
		d.cmd = exec.Command(bin, "start", "--username", "alice",
			"--key_store_dbdsn", filepath.Join(dir, "key_store"), "--state_dbdsn", filepath.Join(dir, "state"),
			"--listen_addr", addr, "--storage_dbdsn", "127.0.0.1:1", "--storage_topic", "veriftopic",
			"--kafka_consumer_group", "alice_group", "--kafka_read_duration", "500ms", "--kafka_timeout", "500ms")
		d.cmd.Dir = dir
		w := lockedBuf{&d.mu, d.out}
		d.cmd.Stdout, d.cmd.Stderr = w, w
		if err := d.cmd.Start(); err != nil {
			return nil
		}
		go func() { _ = d.cmd.Wait(); close(d.exited) }()
		return d
	}
	output := func(d *daemon) string {
		d.mu.Lock()
		defer d.mu.Unlock()
		return trunc(tail(d.out.String(), 600), 600)
	}
	client := &http.Client{Timeout: 5 * time.Second}
	waitUp := func(d *daemon) (up bool, exited bool) {
		for i := 0; i < 600; i++ {
			select {
			case <-d.exited:
				return false, true
			default:
			}
			if resp, err := client.Get("http://" + addr + "/getUsername"); err == nil {
				resp.Body.Close()
				return true, false
			}
			time.Sleep(50 * time.Millisecond)
		}
		return false, false
	}
	num := regexp.MustCompile(`[0-9]+`)
	getOffset := func() (int, error) {
		resp, err := client.Get("http://" + addr + "/getOffset")
		if err != nil {
			return -1, err
		}
		defer resp.Body.Close()
		bz, _ := io.ReadAll(resp.Body)
		m := num.FindString(string(bz))
		if m == "" {
			return -1, fmt.Errorf("unexpected answer %q", trunc(string(bz), 80))
		}
		return strconv.Atoi(m)
	}
	saveOffset := func(k int) error {
		resp, err := client.Post("http://"+addr+"/saveOffset", "application/json", strings.NewReader(fmt.Sprintf(`{"offset": %d}`, k)))
		if err != nil {
			return err
		}
		defer resp.Body.Close()
		_, _ = io.Copy(io.Discard, resp.Body)
		if resp.StatusCode != 200 {
			return fmt.Errorf("status %d", resp.StatusCode)
		}
		return nil
	}
	stop := func(d *daemon, sig syscall.Signal) {
		_ = d.cmd.Process.Signal(sig)
		select {
		case <-d.exited:
		case <-time.After(15 * time.Second):
			_ = d.cmd.Process.Kill()
			<-d.exited
		}
	}
	d := start()
	if d == nil {
		c.Inconclusive("real daemon: cannot start the process")
		return
	}
	defer func() {
		if d != nil {
			_ = d.cmd.Process.Kill()
			<-d.exited
		}
	}()
	if up, _ := waitUp(d); !up {
		c.Inconclusive("real daemon: the first start does not come up: %s", output(d))
		return
	}
	acked := 0
	lives := c.Pick(4, 12)
	for life := 0; life < lives; life++ {
		how := []string{"SIGKILL while offsets are being saved", "SIGTERM", "SIGKILL while idle"}[life%3]
		inflight := acked
		switch how {
		case "SIGTERM", "SIGKILL while idle":
			for k := 0; k < 3; k++ {
				if err := saveOffset(acked + 1); err == nil {
					acked++
				}
			}
			inflight = acked
			if how == "SIGTERM" {
				stop(d, syscall.SIGTERM)
			} else {
				stop(d, syscall.SIGKILL)
			}
		default:
			// a client keeps saving offsets; the kill falls somewhere among the requests
			killAfter := time.Duration(5+r.Intn(60)) * time.Millisecond
			done := make(chan struct{})
			var mu sync.Mutex
			go func() {
				defer close(done)
				for k := 0; k < 400; k++ {
					mu.Lock()
					inflight = acked + 1
					mu.Unlock()
					if err := saveOffset(acked + 1); err != nil {
						return
					}
					mu.Lock()
					acked++
					mu.Unlock()
				}
			}()
			time.Sleep(killAfter)
			stop(d, syscall.SIGKILL)
			<-done
		}
		c.Eval(1)
		c.Distinct("real-daemon|" + how)
		c.Add("real_daemon_restarts "+how, 1)
		d = start()
		if d == nil {
			c.Inconclusive("real daemon: cannot start the process again")
			return
		}
		up, exited := waitUp(d)
		w := map[string]interface{}{"life": life, "stopped_by": how, "last_acknowledged_offset": acked, "daemon_output_tail": output(d)}
		for k, v := range wit {
			w[k] = v
		}
		if !up {
			if exited {
				c.Violate("C13/restart-fails:real-daemon", fmt.Sprintf("after %s the daemon, started again on the same directories, exits instead of resuming: %s", how, trunc(output(d), 300)), w)
			} else {
				c.Inconclusive("real daemon: restart after %s did not answer within the bound", how)
			}
			d = nil
			return
		}
		got, err := getOffset()
		if err != nil {
			c.Inconclusive("real daemon: getOffset: %v", err)
			return
		}
		if got != acked && got != inflight {
			c.Violate("C13/offset-after-restart-differs:real-daemon", fmt.Sprintf("after %s: last acknowledged offset %d (in flight %d), the restarted daemon reports %d", how, acked, inflight, got), w)
			return
		}
		acked = got
	}
}

type lockedBuf struct {
	mu  *sync.Mutex
	buf *bytes.Buffer
}

func (w lockedBuf) Write(p []byte) (int, error) {
	w.mu.Lock()
	defer w.mu.Unlock()
	return w.buf.Write(p)
}
