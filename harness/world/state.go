package world

import (
	"bytes"
	"crypto/sha256"
	"encoding/binary"
	"encoding/hex"
	"fmt"
	"sort"
	"sync"

	"github.com/syndtr/goleveldb/leveldb"

	"github.com/lidofinance/dc4bc/client/modules/state"
)

// MemState is a plain-map implementation of state.State with the same observable semantics as
// LevelDBState (Get returns nil,nil for a missing key; GetOrError returns leveldb.ErrNotFound).
// It makes a world snapshot a map copy.
type MemState struct {
	mu    sync.Mutex
	topic string
	kv    map[string][]byte
	// Resets counts Reset calls (each one swaps to a fresh empty store, like LevelDBState.Reset).
	Resets int
}

func NewMemState(topic string) *MemState {
	s := &MemState{topic: topic, kv: map[string][]byte{}}
	s.kv[string(state.MakeCompositeKey(topic, state.OffsetKey))] = make([]byte, 8)
	return s
}

func (s *MemState) Get(key string) ([]byte, error) {
	s.mu.Lock()
	defer s.mu.Unlock()
	v, ok := s.kv[key]
	if !ok {
		return nil, nil
	}
	return append([]byte{}, v...), nil
}

func (s *MemState) GetOrError(key string) ([]byte, error) {
	s.mu.Lock()
	defer s.mu.Unlock()
	v, ok := s.kv[key]
	if !ok {
		return nil, leveldb.ErrNotFound
	}
	return append([]byte{}, v...), nil
}

func (s *MemState) Set(key string, value []byte) error {
	s.mu.Lock()
	defer s.mu.Unlock()
	s.kv[key] = append([]byte{}, value...)
	return nil
}

func (s *MemState) Delete(key string) error {
	s.mu.Lock()
	defer s.mu.Unlock()
	delete(s.kv, key)
	return nil
}

func (s *MemState) Reset(string) (string, error) {
	s.mu.Lock()
	defer s.mu.Unlock()
	s.kv = map[string][]byte{}
	s.kv[string(state.MakeCompositeKey(s.topic, state.OffsetKey))] = make([]byte, 8)
	s.Resets++
	return "mem", nil
}

func (s *MemState) SaveOffset(o uint64) error {
	bz := make([]byte, 8)
	binary.LittleEndian.PutUint64(bz, o)
	return s.Set(string(state.MakeCompositeKey(s.topic, state.OffsetKey)), bz)
}

func (s *MemState) LoadOffset() (uint64, error) {
	v, _ := s.Get(string(state.MakeCompositeKey(s.topic, state.OffsetKey)))
	if len(v) != 8 {
		return 0, fmt.Errorf("failed to read offset")
	}
	return binary.LittleEndian.Uint64(v), nil
}

// Snapshot returns a deep copy of the content.
func (s *MemState) Snapshot() map[string][]byte {
	s.mu.Lock()
	defer s.mu.Unlock()
	out := make(map[string][]byte, len(s.kv))
	for k, v := range s.kv {
		out[k] = append([]byte{}, v...)
	}
	return out
}

// Restore replaces the content by a deep copy of snap.
func (s *MemState) Restore(snap map[string][]byte) {
	s.mu.Lock()
	defer s.mu.Unlock()
	s.kv = make(map[string][]byte, len(snap))
	for k, v := range snap {
		s.kv[k] = append([]byte{}, v...)
	}
}

// Effect is one executed access to the durable state or the board.
type Effect struct {
	Seq  int
	Who  string // activity label (set by the gate / harness)
	Op   string // get set del saveoffset loadoffset reset send getmessages
	Key  string
	Len  int
	Hash string
}

// Gate is consulted before every access; it may block, yield to a scheduler, or panic with a
// sentinel (stepped-mode crash). It returns the activity label to be logged.
type Gate func(op, key string, val []byte) string

// CrashSentinel is panicked by gates that emulate a process kill in stepped mode.
type CrashSentinel struct{ At int }

// RecState decorates a state.State: shadow map of the logical content, effect log, gate.
type RecState struct {
	Inner state.State
	Topic string

	mu      sync.Mutex
	shadow  map[string][]byte
	Effects []Effect
	gate    Gate
	// LogReads controls whether get/loadoffset are recorded (they always pass the gate).
	LogReads bool
	seq      int
	// FailOp, when set, is asked before every get/set: a non-nil error is returned to the caller instead of
	// performing the access (an I/O error of the state database at exactly that call).
	FailOp func(op, key string) error
}

func NewRecState(inner state.State, topic string) *RecState {
	r := &RecState{Inner: inner, Topic: topic, shadow: map[string][]byte{}}
	r.shadow[r.offKey()] = make([]byte, 8)
	return r
}

func (r *RecState) offKey() string { return string(state.MakeCompositeKey(r.Topic, state.OffsetKey)) }

func (r *RecState) SetGate(g Gate) {
	r.mu.Lock()
	r.gate = g
	r.mu.Unlock()
}

func (r *RecState) pass(op, key string, val []byte) string {
	r.mu.Lock()
	g := r.gate
	r.mu.Unlock()
	if g == nil {
		return ""
	}
	return g(op, key, val)
}

func short(b []byte) string {
	h := sha256.Sum256(b)
	return hex.EncodeToString(h[:6])
}

func (r *RecState) record(who, op, key string, val []byte) {
	r.mu.Lock()
	r.seq++
	r.Effects = append(r.Effects, Effect{Seq: r.seq, Who: who, Op: op, Key: key, Len: len(val), Hash: short(val)})
	r.mu.Unlock()
}

func (r *RecState) Get(key string) ([]byte, error) {
	who := r.pass("get", key, nil)
	if f := r.FailOp; f != nil {
		if err := f("get", key); err != nil {
			return nil, err
		}
	}
	v, err := r.Inner.Get(key)
	if r.LogReads {
		r.record(who, "get", key, v)
	}
	return v, err
}

func (r *RecState) GetOrError(key string) ([]byte, error) {
	who := r.pass("get", key, nil)
	if f := r.FailOp; f != nil {
		if err := f("get", key); err != nil {
			return nil, err
		}
	}
	v, err := r.Inner.GetOrError(key)
	if r.LogReads {
		r.record(who, "get", key, v)
	}
	return v, err
}

func (r *RecState) Set(key string, value []byte) error {
	who := r.pass("set", key, value)
	if f := r.FailOp; f != nil {
		if err := f("set", key); err != nil {
			r.record(who, "set-failed", key, value)
			return err
		}
	}
	err := r.Inner.Set(key, value)
	if err == nil {
		r.mu.Lock()
		r.shadow[key] = append([]byte{}, value...)
		r.mu.Unlock()
	}
	r.record(who, "set", key, value)
	return err
}

func (r *RecState) Delete(key string) error {
	who := r.pass("del", key, nil)
	err := r.Inner.Delete(key)
	if err == nil {
		r.mu.Lock()
		delete(r.shadow, key)
		r.mu.Unlock()
	}
	r.record(who, "del", key, nil)
	return err
}

func (r *RecState) Reset(p string) (string, error) {
	who := r.pass("reset", p, nil)
	s, err := r.Inner.Reset(p)
	if err == nil {
		r.mu.Lock()
		r.shadow = map[string][]byte{}
		r.shadow[r.offKey()] = make([]byte, 8)
		r.mu.Unlock()
	}
	r.record(who, "reset", p, nil)
	return s, err
}

func (r *RecState) SaveOffset(o uint64) error {
	bz := make([]byte, 8)
	binary.LittleEndian.PutUint64(bz, o)
	who := r.pass("saveoffset", fmt.Sprint(o), bz)
	err := r.Inner.SaveOffset(o)
	if err == nil {
		r.mu.Lock()
		r.shadow[r.offKey()] = bz
		r.mu.Unlock()
	}
	r.record(who, "saveoffset", fmt.Sprint(o), bz)
	return err
}

func (r *RecState) LoadOffset() (uint64, error) {
	who := r.pass("loadoffset", r.offKey(), nil)
	o, err := r.Inner.LoadOffset()
	if r.LogReads {
		r.record(who, "loadoffset", fmt.Sprint(o), nil)
	}
	return o, err
}

// Shadow returns a deep copy of the logical content (offset key included).
func (r *RecState) Shadow() map[string][]byte {
	r.mu.Lock()
	defer r.mu.Unlock()
	out := make(map[string][]byte, len(r.shadow))
	for k, v := range r.shadow {
		out[k] = append([]byte{}, v...)
	}
	return out
}

// SetShadow seeds the shadow map (used after opening an existing database).
func (r *RecState) SetShadow(m map[string][]byte) {
	r.mu.Lock()
	defer r.mu.Unlock()
	r.shadow = map[string][]byte{}
	for k, v := range m {
		r.shadow[k] = append([]byte{}, v...)
	}
}

func (r *RecState) EffectCount() int {
	r.mu.Lock()
	defer r.mu.Unlock()
	return len(r.Effects)
}

func (r *RecState) EffectsCopy() []Effect {
	r.mu.Lock()
	defer r.mu.Unlock()
	return append([]Effect{}, r.Effects...)
}

// DiffMaps lists the keys whose values differ between a and b; keys in ignore are skipped.
func DiffMaps(a, b map[string][]byte, ignore ...string) []string {
	ig := map[string]bool{}
	for _, k := range ignore {
		ig[k] = true
	}
	seen := map[string]bool{}
	var out []string
	for k, v := range a {
		seen[k] = true
		if ig[k] {
			continue
		}
		w, ok := b[k]
		if !ok || !bytes.Equal(v, w) {
			out = append(out, k)
		}
	}
	for k := range b {
		if seen[k] || ig[k] {
			continue
		}
		out = append(out, k)
	}
	sort.Strings(out)
	return out
}

// HashMap is a stable digest of a content map (optionally ignoring keys).
func HashMap(m map[string][]byte, ignore ...string) string {
	ig := map[string]bool{}
	for _, k := range ignore {
		ig[k] = true
	}
	keys := make([]string, 0, len(m))
	for k := range m {
		if !ig[k] {
			keys = append(keys, k)
		}
	}
	sort.Strings(keys)
	h := sha256.New()
	for _, k := range keys {
		fmt.Fprintf(h, "%d:%s=%d:", len(k), k, len(m[k]))
		h.Write(m[k])
	}
	return hex.EncodeToString(h.Sum(nil)[:8])
}
