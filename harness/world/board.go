package world

import (
	"fmt"
	"strconv"
	"sync"

	"github.com/lidofinance/dc4bc/storage"
)

// Board is what the worlds need from a bulletin board.
type Board interface {
	storage.Storage
	// All returns the whole log irrespective of ignore lists.
	All() []storage.Message
	Len() int
}

// MemBoard is an in-memory append-only log that assigns ID and Offset the way the file board does
// (Offset = position, ID replaced on send). IDs are deterministic ("m-<offset>") so that histories
// can be compared across runs.
type MemBoard struct {
	mu       sync.Mutex
	msgs     []storage.Message
	ignID    map[string]struct{}
	ignOff   map[uint64]struct{}
	OnAppend func(m storage.Message)
}

func NewMemBoard() *MemBoard {
	return &MemBoard{ignID: map[string]struct{}{}, ignOff: map[uint64]struct{}{}}
}

func cloneMsg(m storage.Message) storage.Message {
	m.Data = append([]byte(nil), m.Data...)
	m.Signature = append([]byte(nil), m.Signature...)
	return m
}

func (b *MemBoard) Send(msgs ...storage.Message) error {
	b.mu.Lock()
	defer b.mu.Unlock()
	for i, m := range msgs {
		m = cloneMsg(m)
		m.Offset = uint64(len(b.msgs))
		m.ID = fmt.Sprintf("m-%d", m.Offset)
		b.msgs = append(b.msgs, m)
		msgs[i] = m
		if b.OnAppend != nil {
			b.OnAppend(m)
		}
	}
	return nil
}

// Inject appends a message exactly as given except for the offset (an attacker's post).
func (b *MemBoard) Inject(m storage.Message) storage.Message {
	b.mu.Lock()
	defer b.mu.Unlock()
	m = cloneMsg(m)
	m.Offset = uint64(len(b.msgs))
	if m.ID == "" {
		m.ID = fmt.Sprintf("m-%d", m.Offset)
	}
	b.msgs = append(b.msgs, m)
	return m
}

func (b *MemBoard) GetMessages(offset uint64) ([]storage.Message, error) {
	b.mu.Lock()
	defer b.mu.Unlock()
	var out []storage.Message
	for i := int(offset); i < len(b.msgs); i++ {
		m := b.msgs[i]
		if _, ok := b.ignID[m.ID]; ok {
			continue
		}
		if _, ok := b.ignOff[m.Offset]; ok {
			continue
		}
		out = append(out, cloneMsg(m))
	}
	return out, nil
}

func (b *MemBoard) Close() error { return nil }

func (b *MemBoard) IgnoreMessages(messages []string, useOffset bool) error {
	b.mu.Lock()
	defer b.mu.Unlock()
	for _, s := range messages {
		if useOffset {
			o, err := strconv.ParseUint(s, 10, 64)
			if err != nil {
				return err
			}
			b.ignOff[o] = struct{}{}
			continue
		}
		b.ignID[s] = struct{}{}
	}
	return nil
}

func (b *MemBoard) UnignoreMessages() {
	b.mu.Lock()
	defer b.mu.Unlock()
	b.ignID = map[string]struct{}{}
	b.ignOff = map[uint64]struct{}{}
}

func (b *MemBoard) All() []storage.Message {
	b.mu.Lock()
	defer b.mu.Unlock()
	out := make([]storage.Message, len(b.msgs))
	for i, m := range b.msgs {
		out[i] = cloneMsg(m)
	}
	return out
}

func (b *MemBoard) Len() int {
	b.mu.Lock()
	defer b.mu.Unlock()
	return len(b.msgs)
}

// Truncate drops everything from position n on (used to rewind a world to a snapshot).
func (b *MemBoard) Truncate(n int) {
	b.mu.Lock()
	defer b.mu.Unlock()
	if n < len(b.msgs) {
		b.msgs = b.msgs[:n]
	}
}

// Fork returns an independent copy of the board.
func (b *MemBoard) Fork() *MemBoard {
	nb := NewMemBoard()
	nb.msgs = b.All()
	return nb
}

// NodeBoard is the per-node view of the board: it records what this node sent, and can gate or
// fail sends. Reads go through unchanged (optionally capped, see Limit).
type NodeBoard struct {
	Inner Board
	Owner string

	mu   sync.Mutex
	Sent []storage.Message
	gate Gate
	// Limit, when >0, caps the positions visible to GetMessages (simulates "the board as of an
	// earlier instant", i.e. a different split of consumption into polls).
	Limit int
	// FailSend, if set, is returned by Send before anything is appended.
	FailSend error
	// FailSendIf, if set, is asked about every Send call (the board refusing a particular message, an
	// outage that begins in the middle of a result); a non-nil error is returned, nothing is appended.
	FailSendIf func(msgs []storage.Message) error
	OnEffect func(op string, n int)
	// OnRead, if set, sees every GetMessages result.
	OnRead func(offset uint64, msgs []storage.Message)
}

func (nb *NodeBoard) SetGate(g Gate) {
	nb.mu.Lock()
	nb.gate = g
	nb.mu.Unlock()
}

func (nb *NodeBoard) Send(msgs ...storage.Message) error {
	nb.mu.Lock()
	g := nb.gate
	fail := nb.FailSend
	failIf := nb.FailSendIf
	nb.mu.Unlock()
	if g != nil {
		g("send", strconv.Itoa(len(msgs)), nil)
	}
	if fail != nil {
		return fail
	}
	if failIf != nil {
		if err := failIf(msgs); err != nil {
			return err
		}
	}
	err := nb.Inner.Send(msgs...)
	nb.mu.Lock()
	for _, m := range msgs {
		nb.Sent = append(nb.Sent, cloneMsg(m))
	}
	cb := nb.OnEffect
	nb.mu.Unlock()
	if cb != nil {
		cb("send", len(msgs))
	}
	return err
}

func (nb *NodeBoard) GetMessages(offset uint64) ([]storage.Message, error) {
	nb.mu.Lock()
	g := nb.gate
	lim := nb.Limit
	nb.mu.Unlock()
	if g != nil {
		g("getmessages", strconv.FormatUint(offset, 10), nil)
	}
	msgs, err := nb.Inner.GetMessages(offset)
	if err != nil {
		return nil, err
	}
	if lim > 0 {
		var out []storage.Message
		for _, m := range msgs {
			if int(m.Offset) < lim {
				out = append(out, m)
			}
		}
		msgs = out
	}
	nb.mu.Lock()
	rd := nb.OnRead
	nb.mu.Unlock()
	if rd != nil {
		rd(offset, msgs)
	}
	return msgs, nil
}

func (nb *NodeBoard) Close() error { return nil }
func (nb *NodeBoard) IgnoreMessages(m []string, o bool) error {
	return nb.Inner.IgnoreMessages(m, o)
}
func (nb *NodeBoard) UnignoreMessages() { nb.Inner.UnignoreMessages() }

func (nb *NodeBoard) SentCopy() []storage.Message {
	nb.mu.Lock()
	defer nb.mu.Unlock()
	out := make([]storage.Message, len(nb.Sent))
	for i, m := range nb.Sent {
		out[i] = cloneMsg(m)
	}
	return out
}
