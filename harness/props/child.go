package props

import (
	"bufio"
	"bytes"
	"encoding/json"
	"fmt"
	"os"
	"os/exec"
	"path/filepath"
	"strings"
	"syscall"
	"time"

	"verifharness/sched"
	"verifharness/world"
)

// Parts of a check that may kill the process (a fatal runtime error in the code under test cannot be
// recovered) run in a child `verifd worker part <name> ...`: the child logs every case to a progress file
// before executing it and prints what it observed as one JSON line; the parent merges that into its own
// context, and attributes the death of the child to the last logged case as a violation.

type childReport struct {
	Evals        int                    `json:"evals"`
	Distinct     []string               `json:"distinct"`
	Extra        map[string]interface{} `json:"extra"`
	Viol         []*Violation           `json:"viol"`
	Notes        []string               `json:"notes"`
	Inconclusive int                    `json:"inconclusive"`
	Done         bool                   `json:"done"`
}

// ChildParts: name -> part, run with a collecting context; the progress function must be called before
// every case.
var ChildParts = map[string]func(c *Ctx, progress func(string)){}

func init() {
	Workers["part"] = func(args []string) int {
		// args: name id tier seed progressfile
		if len(args) < 5 {
			return 2
		}
		part, ok := ChildParts[args[0]]
		if !ok {
			return 2
		}
		// fail fast on absurd allocations instead of eating the machine's memory
		lim := syscall.Rlimit{Cur: 6 << 30, Max: 6 << 30}
		_ = syscall.Setrlimit(syscall.RLIMIT_AS, &lim)
		var seed uint64
		fmt.Sscan(args[3], &seed)
		c := &Ctx{ID: args[1], Tier: args[2], Seed: seed, Start: time.Now(), distinct: map[string]struct{}{}, extra: map[string]interface{}{}, viol: map[string]*Violation{}}
		f, _ := os.OpenFile(args[4], os.O_CREATE|os.O_WRONLY|os.O_TRUNC, 0o644)
		n := 0
		part(c, func(label string) {
			n++
			if f != nil {
				fmt.Fprintf(f, "%d %s\n", n, label)
			}
		})
		rep := childReport{Evals: c.evals, Extra: c.extra, Notes: c.notes, Inconclusive: c.inconclusive, Done: true}
		for k := range c.distinct {
			rep.Distinct = append(rep.Distinct, k)
		}
		for _, k := range c.violOrder {
			rep.Viol = append(rep.Viol, c.viol[k])
		}
		bz, _ := json.Marshal(rep)
		fmt.Fprintln(Out, "REPORT "+string(bz))
		return 0
	}
}

// RunPartInChild runs ChildParts[name] in a child process and merges its observations into c. A child
// that dies is reported under deathKey with the last logged case.
func (c *Ctx) RunPartInChild(name, deathKey string) {
	exe, _ := os.Executable()
	c.runPartInChildExe(exe, nil, name, deathKey)
}

// RunPartInRaceChild runs the part in the race-detector build of the harness (VERIF_RACE_BIN, built by
// ./check); the first data race report ends the child, which is reported under deathKey with the report.
// It returns false when no such binary is available.
func (c *Ctx) RunPartInRaceChild(name, deathKey string) bool {
	exe := os.Getenv("VERIF_RACE_BIN")
	if exe == "" {
		return false
	}
	if _, err := os.Stat(exe); err != nil {
		return false
	}
	c.runPartInChildExe(exe, []string{"GORACE=halt_on_error=1 exitcode=66"}, name, deathKey)
	return true
}

func (c *Ctx) runPartInChildExe(exe string, env []string, name, deathKey string) {
	dir, err := os.MkdirTemp(world.WorkRoot(), "part-")
	if err != nil {
		c.Inconclusive("child part %s: %v", name, err)
		return
	}
	defer os.RemoveAll(dir)
	prog := filepath.Join(dir, "progress")
	cmd := exec.Command(exe, "worker", "part", name, c.ID, c.Tier, fmt.Sprint(c.Seed), prog)
	if len(env) > 0 {
		cmd.Env = append(os.Environ(), env...)
	}
	var outb, errb bytes.Buffer
	cmd.Stdout, cmd.Stderr = &outb, &errb
	done := make(chan error, 1)
	if err := cmd.Start(); err != nil {
		c.Inconclusive("child part %s: %v", name, err)
		return
	}
	go func() { done <- cmd.Wait() }()
	var werr error
	select {
	case werr = <-done:
	case <-time.After(20 * time.Minute):
		_ = cmd.Process.Kill()
		c.Inconclusive("child part %s: watchdog expired", name)
		return
	}
	var rep childReport
	sc := bufio.NewScanner(&outb)
	sc.Buffer(make([]byte, 1<<20), 1<<28)
	for sc.Scan() {
		if strings.HasPrefix(sc.Text(), "REPORT ") {
			_ = json.Unmarshal([]byte(sc.Text()[7:]), &rep)
		}
	}
	if !rep.Done {
		last := ""
		if bz, err := os.ReadFile(prog); err == nil {
			lines := strings.Split(strings.TrimSpace(string(bz)), "\n")
			last = lines[len(lines)-1]
		}
		if last == "" {
			c.Inconclusive("child part %s died before its first case: %v %s", name, werr, trunc(tail(errb.String(), 400), 400))
			return
		}
		c.Violate(deathKey, fmt.Sprintf("the worker process died (%v) while executing case: %s; %s", werr, trunc(last, 200), trunc(firstLine(errb.String()), 160)), map[string]interface{}{"last_case": last, "stderr_head": trunc(errb.String(), 1500)})
		return
	}
	c.Eval(rep.Evals)
	for _, d := range rep.Distinct {
		c.Distinct(d)
	}
	for k, v := range rep.Extra {
		if f, ok := v.(float64); ok {
			c.Add(k, int(f))
		} else {
			c.Set(k, v)
		}
	}
	for _, v := range rep.Viol {
		for i := 0; i < v.Count; i++ {
			c.Violate(v.Key, v.What, v.Witness)
		}
	}
	for _, n := range rep.Notes {
		if strings.HasPrefix(n, "inconclusive: ") {
			c.Inconclusive("%s", strings.TrimPrefix(n, "inconclusive: "))
		} else {
			c.Note("%s", n)
		}
	}
}

func firstLine(s string) string {
	if i := strings.Index(s, "\n"); i >= 0 {
		return s[:i]
	}
	return s
}

// runOrHang runs f in a goroutine of its own and waits for it. If that goroutine is seen parked on a mutex
// (wait state from the runtime's goroutine dump) with an unchanged stack on `confirm` consecutive samples
// 50 ms apart, and nothing else in this process works on the same object, the call will never return: hung
// is reported with the stack. The goroutine is abandoned. The verdict rests on the observed wait state;
// a call that is merely slow keeps being waited for.
func runOrHang(f func()) (hung bool, stack string) {
	const confirm = 60 // 3 s of identical observations
	done := make(chan struct{})
	gidc := make(chan int64, 1)
	go func() {
		defer close(done)
		gidc <- sched.Goid()
		f()
	}()
	g := <-gidc
	same, last := 0, ""
	for {
		select {
		case <-done:
			return false, ""
		case <-time.After(50 * time.Millisecond):
		}
		st, sk := sched.GoroutineStates([]int64{g})
		if sched.LockWait(st[g]) && (last == "" || sk[g] == last) {
			same++
			last = sk[g]
		} else {
			same, last = 0, ""
		}
		if same >= confirm {
			return true, last
		}
	}
}
