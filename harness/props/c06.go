package props

import (
	"encoding/hex"
	"encoding/json"
	"fmt"
	"math/bits"
	"strings"
	"time"

	"github.com/lidofinance/dc4bc/client/api/dto"
	"github.com/lidofinance/dc4bc/client/types"
	"github.com/lidofinance/dc4bc/fsm/types/requests"
	"github.com/lidofinance/dc4bc/fsm/types/responses"
	"github.com/lidofinance/dc4bc/storage"

	"verifharness/oracle"
	"verifharness/sched"
	"verifharness/world"
)

// C06: reconstruction starts at exactly t distinct contributions to the current batch.
func init() {
	Register("C06", "exploration", checkC06)
	c19Signing = c19SigningImpl
}

type monC06 struct {
	Cur      int    // index of the batch being collected (0 = none)
	Contrib  uint32 // participants whose contribution for Cur was accepted
	Fails    uint32
	Proposed uint32 // batches proposed so far (bit k)
}

func (m monC06) Key() string {
	return fmt.Sprintf("%d/%d/%d/%d", m.Cur, m.Contrib, m.Fails, m.Proposed)
}

type sigHooks struct {
	onState      func(ex *explorer, s *exState)
	onTransition func(ex *explorer, s *exState, ev *exEvent, res *exResult, mon monC06) (monC06, bool)
	setup        func(ex *explorer)
}

func batchName(k int) string { return fmt.Sprintf("batch-%d", k) }

func batchTasks(k int) []requests.SigningTask {
	return []requests.SigningTask{{MessageID: fmt.Sprintf("msg-%d", k), File: "f", Payload: []byte(fmt.Sprintf("payload of batch %d", k))}}
}

// signingAlphabet builds the signing events with real partial signatures from the machines.
func signingAlphabet(ce *Ceremony, batches int) ([]*exEvent, error) {
	w, n := ce.W, ce.N
	var out []*exEvent
	for k := 1; k <= batches; k++ {
		// batch 2 is proposed and answered 400 days after the key generation (clocks are the senders')
		t0 := now()
		if k == 2 {
			t0 = t0.Add(400 * 24 * time.Hour)
		}
		prop := handBuiltProposalAt(w.Nodes[0], ce.Round, batchName(k), 0, batchTasks(k), t0)
		prop.ID = "propose-" + batchName(k)
		out = append(out, &exEvent{Label: fmt.Sprintf("propose(%d)", k), Kind: "propose", P: 0, Phase: k, Batch: batchName(k), Msg: prop, Known: true})
		src, _ := json.Marshal(batchTasks(k))
		inv, _ := json.Marshal(responses.SigningPartialSignsParticipantInvitationsResponse{BatchID: batchName(k), SrcPayload: src})
		var firstData []byte
		for p := 0; p < n; p++ {
			op := types.Operation{ID: fmt.Sprintf("%032d", k*100+p), Type: types.OperationType(OpSigning), Payload: inv, DKGIdentifier: ce.Round, CreatedAt: t0}
			res, err := w.Nodes[p].Cold.GetOperationResult(op)
			if err != nil || len(res.ResultMsgs) != 1 || string(res.Event) != EvPartialSign {
				return nil, fmt.Errorf("machine %d did not sign batch %d: %v event=%s", p, k, err, res.Event)
			}
			data := res.ResultMsgs[0].Data
			if p == 0 {
				firstData = data
			}
			m := world.SignMsg(w.Nodes[p], ce.Round, EvPartialSign, data, "")
			m.ID = fmt.Sprintf("partial-%d-%d", p, k)
			out = append(out, &exEvent{Label: fmt.Sprintf("partial(%d,b%d)", p, k), Kind: "partial", P: p, Phase: k, Batch: batchName(k), Variant: "valid", Msg: m, Known: true})
		}
		// an answer that names the batch but delivers nothing (empty list / null): not a contribution
		for hi, hollow := range []string{`[]`, `null`} {
			p := (k + hi) % n
			raw := fmt.Sprintf(`{"BatchID":%q,"ParticipantId":%d,"PartialSigns":%s,"CreatedAt":%q}`, batchName(k), p, hollow, t0.Format(time.RFC3339Nano))
			m := world.SignMsg(w.Nodes[p], ce.Round, EvPartialSign, []byte(raw), "")
			m.ID = fmt.Sprintf("partial-hollow-%d-%d-%d", p, k, hi)
			out = append(out, &exEvent{Label: fmt.Sprintf("partial(%d,b%d,hollow %s)", p, k, hollow), Kind: "partial", P: p, Phase: k, Batch: batchName(k), Variant: "hollow", Msg: m, Known: true})
		}
		// an uninvited participant id, claimed by a legitimate sender
		var req requests.SigningProposalBatchPartialSignRequests
		_ = json.Unmarshal(firstData, &req)
		req.ParticipantId = n
		m := world.SignMsg(w.Nodes[1%n], ce.Round, EvPartialSign, mkReq(req), "")
		m.ID = fmt.Sprintf("partial-unknown-%d", k)
		out = append(out, &exEvent{Label: fmt.Sprintf("partial(%d,b%d)", n, k), Kind: "partial", P: n, Phase: k, Batch: batchName(k), Variant: "valid", Msg: m})
	}
	// a well-formed but cryptographically wrong partial signature for batch 1 by the last participant:
	// participant's signature over batch 2's payload relabelled as batch 1 / msg-1
	if batches >= 2 {
		p := n - 1
		var good2 requests.SigningProposalBatchPartialSignRequests
		for _, e := range out {
			if e.Kind == "partial" && e.Variant == "valid" && e.Known && e.P == p && e.Phase == 2 {
				_ = json.Unmarshal(e.Msg.Data, &good2)
			}
		}
		bad := requests.SigningProposalBatchPartialSignRequests{BatchID: batchName(1), ParticipantId: p, CreatedAt: good2.CreatedAt,
			PartialSigns: []requests.PartialSign{{MessageID: "msg-1", Sign: good2.PartialSigns[0].Sign}}}
		m := world.SignMsg(w.Nodes[p], ce.Round, EvPartialSign, mkReq(bad), "")
		m.ID = "partial-wrongsig"
		out = append(out, &exEvent{Label: fmt.Sprintf("partial(%d,b1,wrongsig)", p), Kind: "partial", P: p, Phase: 1, Batch: batchName(1), Variant: "wrongsig", Msg: m, Known: true})
	}
	t0 := now()
	{
		m := world.SignMsg(w.Nodes[n-1], ce.Round, EvPartialErr, mkReq(map[string]interface{}{"ParticipantId": n - 1, "Error": "bad \x01\x07\x7f\v \"quoted\" end", "CreatedAt": t0}), "")
		m.ID = "partialerr-hostile"
		out = append(out, &exEvent{Label: fmt.Sprintf("partialerr(%d,hostile-text)", n-1), Kind: "partialerr", P: n - 1, Msg: m, Known: true})
	}
	fe := requests.NewFSMError(fmt.Errorf("machine failed"))
	for p := 0; p <= n; p++ {
		m := world.SignMsg(w.Nodes[p%n], ce.Round, EvPartialErr, mkReq(requests.SignatureProposalConfirmationErrorRequest{ParticipantId: p, Error: fe, CreatedAt: t0}), "")
		m.ID = fmt.Sprintf("partialerr-%d", p)
		out = append(out, &exEvent{Label: fmt.Sprintf("partialerr(%d)", p), Kind: "partialerr", P: p, Msg: m, Known: p < n})
	}
	return out, nil
}

func reconstructionObserved(res *exResult) bool {
	for _, m := range res.Sent {
		if m.Event == EvSigRecon {
			return true
		}
	}
	for _, l := range res.Logs {
		if strings.Contains(l, "Collected enough partial signatures") {
			return true
		}
	}
	return false
}

// exploreSigning explores the signing protocol of a finished round from node 0's point of view.
func exploreSigning(c *Ctx, n, t, batches int, hooks sigHooks, maxStates int) (states, transitions int, complete bool) {
	seed := c.Seed*31 + uint64(n*10+t)
	ce, err := NewCeremony(seed, n, t, world.EagerPolicy)
	if err != nil || !ce.AllIn(StIdle) {
		c.Inconclusive("signing explorer: ceremony n=%d t=%d: %v", n, t, err)
		return
	}
	defer ce.Close()
	alphabet, err := signingAlphabet(ce, batches)
	if err != nil {
		c.Inconclusive("alphabet: %v", err)
		return
	}
	ex := &explorer{W: ce.W, Node: ce.W.Nodes[0], Round: ce.Round}
	if hooks.setup != nil {
		hooks.setup(ex)
	}
	root := ex.capture(nil, nil, monC06{})
	seen := map[string]bool{oracle.Hash(root.Proj) + root.Mon.Key(): true}
	queue := []*exState{root}
	complete = true
	for len(queue) > 0 {
		s := queue[0]
		queue = queue[1:]
		states++
		if hooks.onState != nil {
			ex.restore(s)
			hooks.onState(ex, s)
		}
		mon := s.Mon.(monC06)
		for _, ev := range alphabet {
			res := ex.step(s, ev)
			transitions++
			nm, expand := hooks.onTransition(ex, s, ev, &res, mon)
			if !expand {
				continue
			}
			p, _ := roundProj(ex.Node, ex.Round) // the hook may have probed the API; take the state as it is now
			key := oracle.Hash(p) + nm.Key()
			if seen[key] {
				continue
			}
			if len(seen) >= maxStates {
				complete = false
				continue
			}
			seen[key] = true
			queue = append(queue, ex.capture(s, ev, nm))
		}
	}
	return
}

// judgeSigningTransition is the C06 monitor; shared by the exhaustive exploration and the walks.
func judgeSigningTransition(c *Ctx, n, t int, ex *explorer, s *exState, ev *exEvent, res *exResult, mon monC06, roundHex string) (monC06, bool) {
	wit := func() interface{} {
		return map[string]interface{}{"n": n, "t": t, "path": s.Path(), "event": ev.Label, "state_before": res.Before, "state_after": res.After, "error": fmt.Sprint(res.Err), "monitor": mon.Key()}
	}
	c.Eval(1)
	if res.Err != nil && strings.HasPrefix(res.Err.Error(), "PANIC") {
		c.Add("panics_seen_(judged_by_C18)", 1)
		return mon, false
	}
	if ev.Kind == "propose" && mon.Proposed&(1<<uint(ev.Phase)) != 0 {
		return mon, false // re-posting an identical proposal is C10/C18's subject, neither explored nor judged here
	}
	recon := reconstructionObserved(res)
	// a genuine, first answer of an invited participant to the batch being collected must be taken
	if res.Err != nil && ev.Kind == "partial" && ev.Variant == "valid" && ev.Known && mon.Cur != 0 && ev.Phase == mon.Cur &&
		mon.Contrib&(1<<uint(ev.P)) == 0 && mon.Fails&(1<<uint(ev.P)) == 0 {
		c.Violate("C06/genuine-contribution-to-current-batch-refused", fmt.Sprintf("%s is participant %d's first answer to the batch being collected (%d of t=%d so far) but was refused in %s: %v", ev.Label, ev.P, bits.OnesCount32(mon.Contrib), t, res.Before, res.Err), wit())
	}
	// ... and so must its genuine first failure report: "more than n-t failures cancel the batch" needs them counted
	if res.Err != nil && ev.Kind == "partialerr" && ev.Known && ev.Msg.ID != "partialerr-hostile" && mon.Cur != 0 &&
		mon.Contrib&(1<<uint(ev.P)) == 0 && mon.Fails&(1<<uint(ev.P)) == 0 {
		c.Violate("C06/genuine-failure-report-refused", fmt.Sprintf("%s is participant %d's first answer to the batch being collected (%d failure(s) so far, n=%d t=%d) but was refused in %s: %v", ev.Label, ev.P, bits.OnesCount32(mon.Fails), n, t, res.Before, res.Err), wit())
	}
	if res.Err != nil {
		if res.ProjA != res.ProjB {
			c.Violate("C06/rejected-event-changed-round", fmt.Sprintf("%s in %s returned an error but the persisted round changed (%s -> %s)", ev.Label, res.Before, res.Before, res.After), wit())
		}
		for _, k := range res.Diff {
			if k != world.Topic+"_fsm_state" {
				c.Violate("C06/rejected-event-changed-store", fmt.Sprintf("%s in %s returned an error but %s changed", ev.Label, res.Before, k), wit())
			}
		}
		if recon && len(res.Sent) > 0 {
			c.Violate("C06/rejected-event-broadcast-a-reconstruction", ev.Label, wit())
		}
		if ev.Kind == "propose" && mon.Cur == 0 && mon.Proposed&(1<<uint(ev.Phase)) == 0 {
			c.Violate("C06/next-proposal-refused", fmt.Sprintf("no batch is in progress (state %s) but %s was refused: %v", res.Before, ev.Label, res.Err), wit())
		}
		return mon, false
	}
	if !res.Accepted {
		return mon, false
	}
	nm := mon
	finished := false
	switch ev.Kind {
	case "propose":
		if mon.Proposed&(1<<uint(ev.Phase)) != 0 {
			return mon, false // re-posting an identical proposal is C10's subject, not explored here
		}
		if mon.Cur != 0 {
			c.Violate("C06/proposal-accepted-while-batch-in-progress", fmt.Sprintf("%s accepted in %s", ev.Label, res.Before), wit())
		}
		nm.Cur, nm.Contrib, nm.Fails = ev.Phase, 0, 0
		nm.Proposed |= 1 << uint(ev.Phase)
	case "partial":
		if ev.Variant == "hollow" {
			c.Violate("C06/answer-without-any-share-counted", fmt.Sprintf("%s accepted in %s: the participant now counts as having delivered", ev.Label, res.Before), wit())
			return mon, false
		}
		if mon.Cur == 0 {
			c.Violate("C06/contribution-accepted-without-batch", fmt.Sprintf("%s accepted in %s", ev.Label, res.Before), wit())
			return mon, false
		}
		if ev.Phase != mon.Cur {
			c.Violate("C06/contribution-for-another-batch-counted", fmt.Sprintf("%s (made for %s) accepted while collecting %s", ev.Label, ev.Batch, batchName(mon.Cur)), wit())
			return mon, false
		}
		if !ev.Known {
			c.Violate("C06/contribution-of-uninvited-participant-counted", ev.Label, wit())
			return mon, false
		}
		if mon.Contrib&(1<<uint(ev.P)) != 0 || mon.Fails&(1<<uint(ev.P)) != 0 {
			c.Violate("C06/participant-counted-twice", fmt.Sprintf("%s accepted although participant %d already answered this batch", ev.Label, ev.P), wit())
			return mon, false
		}
		nm.Contrib |= 1 << uint(ev.P)
		cnt := bits.OnesCount32(nm.Contrib)
		if recon && cnt != t {
			c.Violate("C06/reconstruction-at-wrong-count", fmt.Sprintf("reconstruction started with %d distinct contributions to the current batch (t=%d)", cnt, t), wit())
		}
		if !recon && cnt >= t {
			c.Violate("C06/no-reconstruction-at-t", fmt.Sprintf("%d distinct contributions accepted (t=%d) and no reconstruction", cnt, t), wit())
		}
		if recon {
			finished = true
			c.Add("reconstructions_observed", 1)
		} else if cnt < t && bits.OnesCount32(nm.Fails) <= n-t && res.After != StAwaitPartials {
			c.Violate("C06/batch-ended-before-t-contributions", fmt.Sprintf("after %d of t=%d contributions and %d failure report(s) the round left the collecting state: %s", cnt, t, bits.OnesCount32(nm.Fails), res.After), wit())
		}
		if ev.Variant == "wrongsig" {
			return nm, false // only used to judge "a failed reconstruction persists nothing"
		}
	case "partialerr":
		if mon.Cur == 0 || !ev.Known || mon.Contrib&(1<<uint(ev.P)) != 0 || mon.Fails&(1<<uint(ev.P)) != 0 {
			c.Violate("C06/error-report-accepted-out-of-turn", fmt.Sprintf("%s accepted in %s", ev.Label, res.Before), wit())
			return mon, false
		}
		nm.Fails |= 1 << uint(ev.P)
		f := bits.OnesCount32(nm.Fails)
		cancelledNow := isCancelled(res.After) || res.After == StIdle
		if f > n-t && !cancelledNow {
			c.Violate("C06/batch-not-cancelled-at-n-t+1-failures", fmt.Sprintf("%d failures (n=%d t=%d), state %s", f, n, t, res.After), wit())
		}
		if f <= n-t && cancelledNow {
			c.Violate("C06/batch-cancelled-too-early", fmt.Sprintf("%d failures (n=%d t=%d), state %s", f, n, t, res.After), wit())
		}
		if f > n-t {
			finished = true
			c.Add("cancellations_observed", 1)
		}
		if recon {
			c.Violate("C06/reconstruction-on-error-report", ev.Label, wit())
		}
	}
	if finished {
		nm.Cur, nm.Contrib, nm.Fails = 0, 0, 0
		// "in either case the round returns to idle and accepts the next proposal": through the API ...
		id, _ := hex.DecodeString(roundHex)
		if err := ex.Node.Svc.ProposeSignMessages(&dto.ProposeSignBatchMessagesDTO{DkgID: id, Data: map[string][]byte{"next": []byte("x")}}); err != nil {
			key := "C06/api-proposal-refused-after-collection"
			if ev.Kind == "partialerr" {
				key = "C06/api-proposal-refused-after-cancellation"
			}
			c.Violate(key, fmt.Sprintf("after %s the batch is over (persisted state %s) but ProposeSignMessages fails: %v", ev.Label, res.After, err), wit())
		}
		c.Add("api_proposals_after_finish", 1)
		// ... and as a board message (the `propose` events of the successor state judge that)
	}
	c.Distinct(fmt.Sprintf("n%d t%d %s %s", n, t, oracle.Hash(res.ProjA), nm.Key()))
	return nm, true
}

func checkC06(c *Ctx) {
	c.Rule = "worlds with a real finished key generation per (n,t); breadth-first exploration of the real ProcessMessage on node 0 over {proposal of batch k, partial signature by p for batch k (real signatures from the airgapped machines; current, earlier and not-yet-proposed batches; repeated; uninvited id), a well-formed but wrong partial signature, error report by p} to a fixpoint of (public projection, monitor state), 3 batches, n<=4; a per-batch contribution counter decides: reconstruction iff exactly t distinct accepted contributions carrying the current batch id, cancellation iff n-t+1 failures, rejected => nothing persisted, next proposal accepted (board message and ProposeSignMessages API). One further exploration runs on a node with the daemon's --skip_comm_keys_verification on. Thorough adds seeded random walks for n=5..7. distinct = distinct (abstract state, monitor state) pairs"
	c.Assumptions = []string{"MemState substituted for LevelDB", "node 0's point of view", "re-posting an identical proposal is not explored here (C10)"}
	c.Exhaustive = true
	type cfg struct {
		n, t       int
		unverified bool
	}
	var cfgs []cfg
	for n := 2; n <= c.Pick(3, 4); n++ {
		for t := 2; t <= n; t++ {
			cfgs = append(cfgs, cfg{n, t, false})
		}
	}
	// the same exploration on a node started with --skip_comm_keys_verification (a documented daemon flag):
	// nothing in front of the round's state machine binds a message to its sender, the round's own rules
	// (membership of the claimed participant included) decide alone
	cfgs = append(cfgs, cfg{3, 2, true})
	if c.Thorough() {
		cfgs = append(cfgs, cfg{2, 2, true}, cfg{4, 3, true})
	}
	Parallel(len(cfgs), 8, func(i int) {
		n, t := cfgs[i].n, cfgs[i].t
		var round string
		hooks := sigHooks{onTransition: func(ex *explorer, s *exState, ev *exEvent, res *exResult, mon monC06) (monC06, bool) {
			round = ex.Round
			return judgeSigningTransition(c, n, t, ex, s, ev, res, mon, ex.Round)
		}}
		if cfgs[i].unverified {
			hooks.setup = func(ex *explorer) {
				if sk, ok := ex.Node.Svc.(interface{ SetSkipCommKeysVerification(bool) }); ok {
					sk.SetSkipCommKeysVerification(true)
					c.Add("explorations_without_sender_verification", 1)
				}
			}
		}
		st, tr, complete := exploreSigning(c, n, t, c.Pick(2, 3), hooks, c.Pick(6000, 300000))
		_ = round
		c.Add("states", st)
		c.Add("transitions", tr)
		if !complete {
			c.Exhaustive = false
			c.Note("n=%d t=%d: state cap reached", n, t)
		}
		c.Sample(map[string]interface{}{"n": n, "t": t, "states": st, "transitions": tr})
	})
	if c.Thorough() {
		walks := []cfg{{5, 2, false}, {5, 3, false}, {5, 5, false}, {6, 4, false}, {7, 2, false}, {7, 4, false}, {7, 7, false}}
		Parallel(len(walks), 8, func(i int) {
			randomSigningWalks(c, walks[i].n, walks[i].t, 300, 40)
		})
	}
}

func randomSigningWalks(c *Ctx, n, t, walks, depth int) {
	seed := c.Seed*131 + uint64(n*10+t)
	ce, err := NewCeremony(seed, n, t, world.EagerPolicy)
	if err != nil || !ce.AllIn(StIdle) {
		c.Inconclusive("walk ceremony n=%d t=%d: %v", n, t, err)
		return
	}
	defer ce.Close()
	alphabet, err := signingAlphabet(ce, 3)
	if err != nil {
		c.Inconclusive("alphabet: %v", err)
		return
	}
	ex := &explorer{W: ce.W, Node: ce.W.Nodes[0], Round: ce.Round}
	root := ex.capture(nil, nil, monC06{})
	r := sched.Derive(seed, 6)
	for wk := 0; wk < walks; wk++ {
		s := root
		for d := 0; d < depth; d++ {
			mon := s.Mon.(monC06)
			// bias towards events that can make progress
			var ev *exEvent
			for try := 0; try < 4; try++ {
				ev = alphabet[r.Intn(len(alphabet))]
				if (mon.Cur == 0 && ev.Kind == "propose") || (mon.Cur != 0 && ev.Kind != "propose") {
					break
				}
			}
			res := ex.step(s, ev)
			nm, expand := judgeSigningTransition(c, n, t, ex, s, ev, &res, mon, ce.Round)
			if expand {
				s = ex.capture(s, ev, nm)
			}
			if bits.OnesCount32(nm.Proposed) >= 3 && nm.Cur == 0 {
				break
			}
		}
	}
	c.Add("random_walks", walks)
}

func c19SigningImpl(c *Ctx) {
	type cfg struct{ n, t int }
	cfgs := []cfg{{2, 2}, {3, 2}}
	if c.Thorough() {
		cfgs = append(cfgs, cfg{3, 3}, cfg{4, 2}, cfg{4, 3})
	}
	Parallel(len(cfgs), 8, func(i int) {
		n, t := cfgs[i].n, cfgs[i].t
		names := map[string]bool{}
		hooks := sigHooks{
			onState: func(ex *explorer, s *exState) {
				c.Eval(1)
				bz := RawDump(ex.Node, ex.Round)
				names[s.Name] = true
				c.Distinct(fmt.Sprintf("signing n%d t%d %s", n, t, oracle.Hash(s.Proj)))
				wit := map[string]interface{}{"n": n, "t": t, "path": s.Path(), "state": s.Name}
				if _, err := safeFromDump(bz); err != nil {
					c.Violate("C19/reachable-state-cannot-be-restored:"+s.Name, fmt.Sprintf("a round persisted by the node in state %s cannot be loaded: %v", s.Name, err), wit)
				}
				if _, err := ex.Node.FSM.GetFSMList(); err != nil {
					c.Violate("C19/round-listing-fails:"+s.Name, fmt.Sprintf("GetFSMList fails on a store containing a round in %s: %v", s.Name, err), wit)
				}
			},
			onTransition: func(ex *explorer, s *exState, ev *exEvent, res *exResult, mon monC06) (monC06, bool) {
				// drive with the C06 monitor's bookkeeping but without judging (quiet ctx)
				q := &Ctx{distinct: map[string]struct{}{}, extra: map[string]interface{}{}, viol: map[string]*Violation{}}
				return judgeSigningTransition(q, n, t, ex, s, ev, res, mon, ex.Round)
			},
		}
		st, _, _ := exploreSigning(c, n, t, 2, hooks, c.Pick(6000, 100000))
		c.Add("signing_states", st)
		c.Sample(map[string]interface{}{"exploration": "node-level signing", "n": n, "t": t, "states": st, "state_names": sortedKeys(names)})
	})
}

func handBuiltProposalAt(n *world.Node, round, batchID string, pid int, tasks []requests.SigningTask, at time.Time) storage.Message {
	req := requests.SigningBatchProposalStartRequest{BatchID: batchID, ParticipantId: pid, CreatedAt: at, SigningTasks: tasks}
	bz, _ := json.Marshal(req)
	return world.SignMsg(n, round, EvSigningStart, bz, "")
}
