// Package props holds one file per property: workload + monitors + evidence.
package props

import (
	"encoding/json"
	"fmt"
	"io"
	"log"
	"os"
	"path/filepath"
	"sort"
	"strconv"
	"strings"
	"sync"
	"time"

	"github.com/lidofinance/dc4bc/airgapped"

	"verifharness/sched"
	"verifharness/world"
)

var Out io.Writer = os.Stdout

func VerifRoot() string {
	if v := os.Getenv("VERIF_ROOT"); v != "" {
		return v
	}
	return "/verif"
}

type KnownFinding struct {
	Property string `json:"property"`
	Key      string `json:"key"`
	What     string `json:"what"`
	Witness  string `json:"witness,omitempty"`
}

type knownFile struct {
	Open  []KnownFinding `json:"open"`
	Fixed []string       `json:"fixed"`
}

type Violation struct {
	Key     string      `json:"key"`
	What    string      `json:"what"`
	Witness interface{} `json:"witness,omitempty"`
	Count   int         `json:"count"`
}

type Ctx struct {
	ID    string
	Tier  string
	Seed  uint64
	Level string
	Start time.Time

	mu           sync.Mutex
	evals        int
	distinct     map[string]struct{}
	samples      []interface{}
	extra        map[string]interface{}
	Rule         string
	Assumptions  []string
	Exhaustive   bool
	viol         map[string]*Violation
	violOrder    []string
	inconclusive int
	notes        []string
	known        knownFile
}

func (c *Ctx) Thorough() bool { return c.Tier == "thorough" }

// Pick returns q in the quick tier and t in the thorough tier.
func (c *Ctx) Pick(q, t int) int {
	if c.Thorough() {
		return t
	}
	return q
}

func (c *Ctx) Rng(idx ...uint64) *sched.Rng { return sched.Derive(c.Seed, idx...) }

func (c *Ctx) Eval(n int) {
	c.mu.Lock()
	c.evals += n
	c.mu.Unlock()
}

// Distinct registers a non-trivial case under a canonical tag; the count of distinct tags is what
// the evidence reports as distinct_nontrivial.
func (c *Ctx) Distinct(tag string) {
	c.mu.Lock()
	c.distinct[tag] = struct{}{}
	c.mu.Unlock()
}

func (c *Ctx) Sample(s interface{}) {
	c.mu.Lock()
	if len(c.samples) < 8 {
		c.samples = append(c.samples, s)
	}
	c.mu.Unlock()
}

func (c *Ctx) Set(k string, v interface{}) {
	c.mu.Lock()
	c.extra[k] = v
	c.mu.Unlock()
}

func (c *Ctx) Add(k string, n int) {
	c.mu.Lock()
	cur, _ := c.extra[k].(int)
	c.extra[k] = cur + n
	c.mu.Unlock()
}

func (c *Ctx) Get(k string) int {
	c.mu.Lock()
	defer c.mu.Unlock()
	cur, _ := c.extra[k].(int)
	return cur
}

func (c *Ctx) Note(f string, a ...interface{}) {
	c.mu.Lock()
	if len(c.notes) < 50 {
		c.notes = append(c.notes, fmt.Sprintf(f, a...))
	}
	c.mu.Unlock()
}

func (c *Ctx) Inconclusive(f string, a ...interface{}) {
	c.mu.Lock()
	c.inconclusive++
	if len(c.notes) < 50 {
		c.notes = append(c.notes, "inconclusive: "+fmt.Sprintf(f, a...))
	}
	c.mu.Unlock()
}

// Violate records a violation under a finding key (witness class). The first witness per key is
// kept for the replay file.
func (c *Ctx) Violate(key, what string, witness interface{}) {
	c.mu.Lock()
	defer c.mu.Unlock()
	v, ok := c.viol[key]
	if !ok {
		v = &Violation{Key: key, What: what, Witness: witness}
		c.viol[key] = v
		c.violOrder = append(c.violOrder, key)
	}
	v.Count++
}

func (c *Ctx) Violations() int {
	c.mu.Lock()
	defer c.mu.Unlock()
	return len(c.viol)
}

func (c *Ctx) isKnown(key string) *KnownFinding {
	for i := range c.known.Open {
		k := &c.known.Open[i]
		if k.Property == c.ID && k.Key == key {
			return k
		}
	}
	return nil
}

func loadKnown() knownFile {
	var kf knownFile
	bz, err := os.ReadFile(filepath.Join(VerifRoot(), "known_findings.json"))
	if err == nil {
		_ = json.Unmarshal(bz, &kf)
	}
	return kf
}

// Finish writes the evidence file, prints verdict lines and returns the exit code.
func (c *Ctx) Finish() int {
	c.mu.Lock()
	defer c.mu.Unlock()
	wall := time.Since(c.Start).Seconds()
	unknown := 0
	knownSeen := map[string]bool{}
	var vlist []*Violation
	for _, k := range c.violOrder {
		v := c.viol[k]
		vlist = append(vlist, v)
		if kf := c.isKnown(k); kf != nil {
			knownSeen[k] = true
			fmt.Fprintf(Out, "KNOWN-FINDING: property=%s %s: %s (reproduced %d time(s) in this run)\n", c.ID, k, kf.What, v.Count)
			continue
		}
		unknown++
		dir := filepath.Join(VerifRoot(), "replays")
		_ = os.MkdirAll(dir, 0o755)
		name := strings.NewReplacer("/", "_", ":", "_", " ", "_", ">", "_").Replace(k)
		if len(name) > 80 {
			name = name[:80]
		}
		path := filepath.Join(dir, fmt.Sprintf("%s-%d-%s.json", c.ID, c.Seed, name))
		bz, _ := json.MarshalIndent(map[string]interface{}{"property": c.ID, "tier": c.Tier, "seed": c.Seed, "violation": v}, "", " ")
		_ = os.WriteFile(path, bz, 0o644)
		fmt.Fprintf(Out, "VIOLATION property=%s replay=%s\n", c.ID, path)
		fmt.Fprintf(Out, "  key=%s what=%s count=%d\n", k, v.What, v.Count)
	}
	// open findings of this property that did not reproduce are visible in the evidence
	var notReproduced []string
	for _, k := range c.known.Open {
		if k.Property == c.ID && !knownSeen[k.Key] {
			notReproduced = append(notReproduced, k.Key)
		}
	}
	cov := map[string]interface{}{
		"evaluations":         c.evals,
		"distinct_nontrivial": len(c.distinct),
		"rule":                c.Rule,
		"samples":             c.samples,
		"exhaustive":          c.Exhaustive,
		"inconclusive":        c.inconclusive,
	}
	keys := make([]string, 0, len(c.extra))
	for k := range c.extra {
		keys = append(keys, k)
	}
	sort.Strings(keys)
	for _, k := range keys {
		cov[k] = c.extra[k]
	}
	if len(c.notes) > 0 {
		cov["notes"] = c.notes
	}
	if len(vlist) > 0 {
		type vs struct {
			Key   string `json:"key"`
			What  string `json:"what"`
			Count int    `json:"count"`
			Known bool   `json:"known_finding"`
		}
		var l []vs
		for _, v := range vlist {
			l = append(l, vs{v.Key, v.What, v.Count, knownSeen[v.Key]})
		}
		cov["violation_classes"] = l
	}
	if len(notReproduced) > 0 {
		cov["open_findings_not_reproduced"] = notReproduced
	}
	if len(c.samples) == 0 {
		cov["samples"] = []interface{}{"(none)"}
	}
	if c.Assumptions == nil {
		c.Assumptions = []string{}
	}
	ev := map[string]interface{}{
		"property_id": c.ID,
		"tier":        c.Tier,
		"seed":        int64(c.Seed),
		"level":       c.Level,
		"coverage":    cov,
		"assumptions": c.Assumptions,
		"wall_s":      float64(int(wall*100)) / 100,
		"violations":  unknown,
	}
	dir := filepath.Join(VerifRoot(), "evidence")
	_ = os.MkdirAll(dir, 0o755)
	bz, _ := json.MarshalIndent(ev, "", " ")
	if !strings.HasPrefix(c.ID, "C") {
		// not a property (smoke test): no evidence file
	} else if err := os.WriteFile(filepath.Join(dir, c.ID+".json"), bz, 0o644); err != nil {
		fmt.Fprintf(Out, "cannot write evidence: %v\n", err)
		return 2
	}
	fmt.Fprintf(Out, "%s %s seed=%d: evaluations=%d distinct=%d violations=%d known=%d inconclusive=%d wall=%.1fs\n",
		c.ID, c.Tier, c.Seed, c.evals, len(c.distinct), unknown, len(knownSeen), c.inconclusive, wall)
	if unknown > 0 {
		return 1
	}
	if c.evals == 0 || len(c.distinct) < 2 {
		fmt.Fprintf(Out, "%s: monitors observed nothing (evaluations=%d distinct=%d): infrastructure error\n", c.ID, c.evals, len(c.distinct))
		return 2
	}
	return 0
}

type CheckFn func(c *Ctx)

type checkDef struct {
	fn    CheckFn
	level string
}

var registry = map[string]checkDef{}

func Register(id, level string, fn CheckFn) { registry[id] = checkDef{fn, level} }

// Workers is an optional table of child-process entry points.
var Workers = map[string]func(args []string) int{}

// Parallel runs fn(i) for i in [0,n) on up to p goroutines.
func Parallel(n, p int, fn func(i int)) {
	if p <= 0 {
		p = 16
	}
	var wg sync.WaitGroup
	ch := make(chan int)
	var pmu sync.Mutex
	var firstPanic interface{}
	var firstStack string
	for k := 0; k < p; k++ {
		wg.Add(1)
		go func() {
			defer wg.Done()
			for i := range ch {
				func() {
					defer func() {
						if r := recover(); r != nil {
							pmu.Lock()
							if firstPanic == nil {
								firstPanic, firstStack = r, stack()
							}
							pmu.Unlock()
						}
					}()
					fn(i)
				}()
			}
		}()
	}
	for i := 0; i < n; i++ {
		ch <- i
	}
	close(ch)
	wg.Wait()
	if firstPanic != nil {
		// a panic of the harness itself (not of the code under test): infrastructure error
		panic(fmt.Sprintf("%v\n%s", firstPanic, firstStack))
	}
}

func silence() {
	// The repository prints progress to stdout and logs mnemonics; keep our stdout for verdicts.
	Out = os.NewFile(uintptr(dupFd(1)), "realstdout")
	null, err := os.OpenFile(os.DevNull, os.O_WRONLY, 0)
	if err == nil {
		os.Stdout = null
	}
	if os.Getenv("VERIF_DEBUG") == "" {
		log.SetOutput(io.Discard)
	}
}

func Main(args []string) int {
	silence()
	world.RaiseFDLimit()
	airgapped.N = 4 // scrypt cost (exported knob); AES-GCM authentication is unaffected
	switch args[0] {
	case "check":
		if len(args) < 2 {
			return 2
		}
		id := args[1]
		tier := "quick"
		if len(args) > 2 {
			tier = args[2]
		}
		if t := os.Getenv("VERIF_TIER"); t != "" && len(args) <= 2 {
			tier = t
		}
		def, ok := registry[id]
		if !ok {
			fmt.Fprintf(Out, "unknown check %s\n", id)
			return 2
		}
		c := &Ctx{ID: id, Tier: tier, Seed: sched.SeedFromEnv(), Level: def.level, Start: time.Now(),
			distinct: map[string]struct{}{}, extra: map[string]interface{}{}, viol: map[string]*Violation{}, known: loadKnown()}
		code := func() (code int) {
			defer func() {
				if r := recover(); r != nil {
					fmt.Fprintf(Out, "%s: harness panic: %v\n%s\n", id, r, stack())
					code = 2
				}
			}()
			// a check whose own machinery gets wedged (e.g. by code under test closing descriptors that belong to
			// the harness) must still end: what was observed so far is reported, the rest is inconclusive
			limit := 25 * time.Minute
			if tier == "thorough" {
				limit = 5 * time.Hour
			}
			if v, err := strconv.Atoi(os.Getenv("VERIF_WATCHDOG_MIN")); err == nil && v > 0 {
				limit = time.Duration(v) * time.Minute
			}
			done := make(chan interface{}, 1)
			go func() {
				defer func() { done <- recover() }()
				def.fn(c)
			}()
			select {
			case r := <-done:
				if r != nil {
					panic(r)
				}
			case <-time.After(limit):
				c.Inconclusive("watchdog: the check did not finish within %v; what was observed until then is reported", limit)
			}
			return c.Finish()
		}()
		return code
	case "worker":
		if len(args) < 2 {
			return 2
		}
		w, ok := Workers[args[1]]
		if !ok {
			return 2
		}
		return w(args[2:])
	case "list":
		var ids []string
		for id := range registry {
			ids = append(ids, id)
		}
		sort.Strings(ids)
		fmt.Fprintln(Out, strings.Join(ids, " "))
		return 0
	}
	return 2
}
