package props

import (
	"bytes"
	"fmt"
	"os"
	"path/filepath"
	"time"

	"github.com/lidofinance/dc4bc/airgapped"
	"github.com/lidofinance/dc4bc/client/types"

	"verifharness/oracle"
	"verifharness/world"
)

// C12, real-process part: one participant's machine is the cmd/airgapped binary built from the tree under
// test, running as its own process on a pseudo-terminal and driven through its prompt. It is killed with
// SIGKILL before chosen steps of the ceremony, started again on the same database, told to
// replay_operations_log, and the ceremony continues. At the end the binary is left with `exit`, its
// database is opened in-process, and the share and group polynomial it holds are compared with an
// uninterrupted in-process reference run from the same mnemonics and opening proposal.
func init() {
	ChildParts["c12proc"] = c12RealBinary
}

func c12RealBinary(c *Ctx, progress func(string)) {
	if world.AirgappedBin() == "" {
		c.Note("real-binary part skipped: no dc4bc_airgapped binary")
		return
	}
	// this process talks to a machine that uses the shipped scrypt cost: its database is opened with it too
	airgapped.N = 1 << 16
	n, t, victim := 2, 2, 1
	steps := []string{OpCommits, OpDeals, OpResponses, OpMasterKey}
	killSets := [][]string{{OpDeals}, {OpCommits, OpResponses}, {OpMasterKey}, steps}
	if !c.Thorough() {
		killSets = [][]string{{OpDeals, OpMasterKey}, steps}
	}
	createdAt := now()
	seed := c.Seed*223 + 9
	ref, _, notes, viol := runC12(seed, n, t, createdAt, nil, -1, false)
	if len(viol) > 0 || len(ref) != n {
		c.Inconclusive("real-binary part: in-process reference run fails: %v %v", viol, notes)
		return
	}
	for ki, kills := range killSets {
		progress(fmt.Sprintf("ceremony with the real airgapped binary, killed before %v", kills))
		wit := map[string]interface{}{"family": "real cmd/airgapped process, SIGKILL + restart + replay_operations_log", "n": n, "t": t, "victim": victim, "killed_before_steps": kills, "case_seed": seed}
		w, err := world.NewWorld(world.Options{N: n, T: t, Seed: seed})
		if err != nil {
			c.Inconclusive("world: %v", err)
			return
		}
		func() {
			defer w.Close()
			nd := w.Nodes[victim]
			pm := world.NewProcMachine(filepath.Join(w.Dir, fmt.Sprintf("proc_%d", ki)), world.Password)
			defer pm.Kill()
			if err := pm.Start(); err != nil {
				c.Inconclusive("real-binary part: start: %v", err)
				return
			}
			if err := pm.SetSeed(nd.Mnemonic); err != nil {
				c.Inconclusive("real-binary part: set_seed: %v", err)
				return
			}
			pub, err := pm.PubKey()
			if err != nil {
				c.Inconclusive("real-binary part: show_dkg_pubkey: %v", err)
				return
			}
			if want := oracle.PointBytes(nd.Cold.GetPubKey()); !bytes.Equal(pub, want) {
				c.Violate("C12/twin-machines-differ:long-term-key", "the shipped binary and an in-process machine derive different long-term keys from the same mnemonic", wit)
				return
			}
			nd.Proc, nd.ColdPub = pm, pub
			ce := &Ceremony{W: w, N: n, T: t}
			pending := map[string]bool{}
			for _, k := range kills {
				pending[k] = true
			}
			restarts := 0
			w.ColdHook = func(x *world.Node, op *types.Operation) (*types.Operation, error) {
				if x.Idx != victim || !pending[string(op.Type)] {
					return nil, nil
				}
				delete(pending, string(op.Type))
				pm.Kill()
				if err := pm.Start(); err != nil {
					return nil, fmt.Errorf("restart of the binary: %w", err)
				}
				restarts++
				if _, err := pm.Replay(ce.Round); err != nil {
					c.Violate("C12/replay-fails", fmt.Sprintf("replay_operations_log after SIGKILL before %s: %v", op.Type, err), wit)
				}
				return nil, nil
			}
			if ce.Round, err = w.StartDKG(0, t, createdAt); err != nil {
				c.Inconclusive("real-binary part: start of the round: %v", err)
				return
			}
			_, q := w.Run(world.EagerPolicy, 6000)
			c.Eval(1)
			c.Distinct(fmt.Sprintf("real-binary|killed-before-%v", kills))
			c.Add("sigkills_of_the_real_airgapped_process", restarts)
			if !q || !ce.AllIn(StIdle) {
				c.Violate("C12/ceremony-with-restarts-does-not-finish", fmt.Sprintf("real binary killed before %v: states %v; trace tail %v", kills, ce.States(), tailStrings(w.Trace, 4)), wit)
				return
			}
			pm.Exit()
			// what the binary left in its database
			copyDir := filepath.Join(w.Dir, fmt.Sprintf("proc_%d_inspect", ki), "db")
			_ = os.MkdirAll(filepath.Dir(copyDir), 0o755)
			if err := world.CopyDir(pm.DBPath, copyDir); err != nil {
				c.Inconclusive("real-binary part: copy of the database: %v", err)
				return
			}
			am, err := airgapped.NewMachine(copyDir)
			if err != nil {
				c.Inconclusive("real-binary part: open database: %v", err)
				return
			}
			tmp := &world.Node{Cold: am}
			defer tmp.CloseHandles()
			am.SetEncryptionKey([]byte(world.Password))
			if err := am.InitKeys(); err != nil {
				c.Violate("C12/no-keyring-after-ceremony", fmt.Sprintf("the binary's database does not open with its password: %v", err), wit)
				return
			}
			kr, err := Keyring(tmp, ce.Round)
			if err != nil || kr == nil {
				c.Violate("C12/no-keyring-after-ceremony", fmt.Sprintf("the binary's database holds no keyring for the round: %v", err), wit)
				return
			}
			if !bytes.Equal(oracle.ScalarBytes(kr.Share.V), ref[victim].Share) || kr.Share.I != ref[victim].ShareI {
				c.Violate("C12/private-share-differs-from-uninterrupted-run", fmt.Sprintf("participant %d (real binary, killed before %v)", victim, kills), wit)
			}
			if !eqCommits(oracle.CommitsBytes(kr.PubPoly), ref[victim].Commits) {
				c.Violate("C12/group-polynomial-differs-from-uninterrupted-run", fmt.Sprintf("participant %d (real binary, killed before %v)", victim, kills), wit)
			}
			for k, v := range pm.Commands {
				c.Add("airgapped_prompt_commands "+k, v)
			}
			c.Add("ceremonies_with_the_real_airgapped_binary", 1)
		}()
	}
	_ = time.Second
}

func tailStrings(s []string, n int) []string {
	if len(s) > n {
		return s[len(s)-n:]
	}
	return s
}
