package props

import (
	"fmt"
	"os"
	"os/exec"
	"path/filepath"
	"regexp"
	"sort"
	"strings"
	"sync"
	"sync/atomic"
	"time"

	"verifharness/world"
)

func init() {
	raceSoak = raceSoakImpl
	Workers["racesoak"] = raceSoakWorker
}

// raceSoakWorker runs (inside the -race build) a free-running world: real Poll() goroutines on
// real LevelDB, operators hammering the API concurrently, offset API calls, and a state reset
// while polling continues.
func raceSoakWorker(args []string) int {
	seed := uint64(1)
	if len(args) > 0 {
		fmt.Sscan(args[0], &seed)
	}
	// like the daemon: the REST API and the poller share one process; the operators use the API
	w, err := world.NewWorld(world.Options{N: 2, T: 2, Seed: seed, UseLevelDB: true, ViaHTTP: true})
	if err != nil {
		fmt.Fprintln(Out, "world:", err)
		return 2
	}
	defer w.Close()
	ce := &Ceremony{W: w, N: 2, T: 2}
	var wg sync.WaitGroup
	for _, nd := range w.Nodes {
		wg.Add(1)
		go func(nd *world.Node) { defer wg.Done(); _ = nd.Svc.Poll() }(nd)
	}
	stop := make(chan struct{})
	var roundID atomic.Value
	var opMu sync.Mutex // the two operators share the world's result cache
	for _, nd := range w.Nodes {
		wg.Add(1)
		go func(nd *world.Node) {
			defer wg.Done()
			for {
				select {
				case <-stop:
					return
				default:
				}
				for _, op := range w.PendingOps(nd) {
					opMu.Lock()
					_ = w.HandleOp(nd, op)
					opMu.Unlock()
				}
				if off, err := nd.API.Offset(); err == nil {
					_ = off
				}
				_, _ = nd.API.FSMList()
				if r, _ := roundID.Load().(string); r != "" {
					_, _ = nd.API.Batches(r)
					_, _ = nd.API.Signatures(r)
				}
				time.Sleep(20 * time.Millisecond)
			}
		}(nd)
	}
	// an operator watching the offset through the API (CLI get_offset) while everything else runs
	for _, nd := range w.Nodes {
		wg.Add(1)
		go func(nd *world.Node) {
			defer wg.Done()
			for {
				select {
				case <-stop:
					return
				default:
				}
				_, _ = nd.API.Offset()
				time.Sleep(time.Millisecond)
			}
		}(nd)
	}
	ce.Round, err = w.StartDKG(0, 2, now())
	if err != nil {
		return 2
	}
	roundID.Store(ce.Round)
	deadline := time.Now().Add(40 * time.Second)
	proposed, reset := false, false
	for time.Now().Before(deadline) {
		time.Sleep(200 * time.Millisecond)
		if !proposed && ce.AllIn(StIdle) {
			_ = w.ProposeSign(1, ce.Round, map[string][]byte{"race": []byte("x")}, nil)
			proposed = true
			continue
		}
		if proposed && !reset && ce.AllIn(StIdle) && len(BoardMsgs(w, ce.Round, EvSigRecon)) >= 2 {
			// reset node 1 while its poller keeps running, then rewind through the offset API
			_, _ = w.Nodes[1].API.Raw("POST", "/resetState", nil, mkReq(map[string]interface{}{"new_state_dbdsn": filepath.Join(w.Dir, "reset_db")}))
			_ = w.Nodes[1].API.SaveOffset(0)
			reset = true
			deadline = time.Now().Add(4 * time.Second)
		}
	}
	close(stop)
	for _, nd := range w.Nodes {
		nd.Cancel()
	}
	wg.Wait()
	fmt.Fprintf(Out, "racesoak done proposed=%v reset=%v board=%d\n", proposed, reset, w.Board.Len())
	if !proposed || !reset {
		return 3
	}
	return 0
}

var raceFrame = regexp.MustCompile(`^\s+(github\.com/lidofinance/dc4bc/\S+?)\([^()]*\)\s*$`)

// parseRaceLogs returns de-duplicated race reports that involve repository code:
// key = sorted pair of the first repository frames of the two accesses.
func parseRaceLogs(dir string) (map[string]string, int) {
	out := map[string]string{}
	total := 0
	files, _ := filepath.Glob(filepath.Join(dir, "race.*"))
	for _, f := range files {
		bz, _ := os.ReadFile(f)
		blocks := strings.Split(string(bz), "==================")
		for _, b := range blocks {
			if !strings.Contains(b, "WARNING: DATA RACE") {
				continue
			}
			total++
			var firsts []string
			for _, sec := range regexp.MustCompile(`(?m)^(Read|Write|Previous read|Previous write|Atomic)[^\n]*\n`).Split(b, -1)[1:] {
				for _, l := range strings.Split(sec, "\n") {
					if strings.TrimSpace(l) == "" {
						break
					}
					if m := raceFrame.FindStringSubmatch(l); m != nil {
						fn := m[1]
						fn = strings.TrimPrefix(fn, "github.com/lidofinance/dc4bc/")
						firsts = append(firsts, fn)
						break
					}
				}
			}
			if len(firsts) == 0 {
				continue
			}
			sort.Strings(firsts)
			key := strings.Join(firsts, "|")
			if _, ok := out[key]; !ok {
				out[key] = trunc(b, 1500)
			}
		}
	}
	return out, total
}

func raceSoakImpl(c *Ctx) {
	bin := os.Getenv("VERIF_RACE_BIN")
	if bin == "" {
		c.Inconclusive("race soak skipped: VERIF_RACE_BIN not set (./check builds it for the thorough tier)")
		return
	}
	dir, err := os.MkdirTemp(world.WorkRoot(), "race-")
	if err != nil {
		c.Inconclusive("race soak: %v", err)
		return
	}
	defer os.RemoveAll(dir)
	runs := 3
	var wg sync.WaitGroup
	okRuns := 0
	var mu sync.Mutex
	for i := 0; i < runs; i++ {
		wg.Add(1)
		go func(i int) {
			defer wg.Done()
			cmd := exec.Command(bin, "worker", "racesoak", fmt.Sprint(c.Seed*100+uint64(i)))
			cmd.Env = append(os.Environ(), "GORACE=halt_on_error=0 log_path="+filepath.Join(dir, "race"))
			done := make(chan error, 1)
			go func() { done <- cmd.Run() }()
			select {
			case err := <-done:
				// exit status 66 = the race runtime's "races were reported" status of a completed run
				if ee, ok := err.(*exec.ExitError); err == nil || (ok && ee.ExitCode() == 66) {
					mu.Lock()
					okRuns++
					mu.Unlock()
				}
			case <-time.After(5 * time.Minute):
				_ = cmd.Process.Kill()
				c.Inconclusive("race soak run %d: watchdog", i)
			}
		}(i)
	}
	wg.Wait()
	reports, total := parseRaceLogs(dir)
	c.Set("race_soak_runs_completed", okRuns)
	c.Set("race_reports_total", total)
	c.Set("race_reports_distinct_in_repository_code", len(reports))
	for key, sample := range reports {
		c.Violate("C14/data-race:"+key, "the Go race detector reports unsynchronised accesses in repository code: "+key, map[string]interface{}{"report": sample})
	}
	if okRuns == 0 {
		c.Inconclusive("no race soak run completed")
	}
}
