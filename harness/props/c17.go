package props

import (
	"encoding/hex"
	"fmt"
	"strconv"

	"github.com/lidofinance/dc4bc/fsm/types/requests"
	"github.com/lidofinance/dc4bc/pkg/wc_rotation"

	"verifharness/oracle"
)

// C17: baked withdrawal-credential messages equal the consensus-spec signing roots.
func init() { Register("C17", "exploration", checkC17) }

func safeBaked(p int) (m requests.MessageToSign, err error, panicked interface{}) {
	defer func() {
		if r := recover(); r != nil {
			panicked = r
		}
	}()
	m, err = requests.ReconstructBakedMessage(p)
	return
}

func checkC17(c *Ctx) {
	c.Rule = "exhaustive: every position 0..len-1 of the pinned published list through requests.ReconstructBakedMessage, compared with an independent SSZ implementation and an independent reader of the pinned list; plus seeded random/boundary uint64 indices through wc_rotation.GetSigningRoot; plus out-of-range positions. distinct = distinct (position|index|out-of-range position) cases judged"
	c.Assumptions = []string{"the pinned copy of payloads.csv in /verif (sha256 4e78d9c7...) is the published list", "SHA-256 of the Go standard library"}
	lines := oracle.RefLines()

	// reference self-check against the one constant the spec-independent world knows: the
	// mainnet domain for BLS_TO_EXECUTION_CHANGE is 0x0a000000 || fork_data_root[:28]
	d := oracle.RefDomain()
	c.Set("reference_domain", hex.EncodeToString(d[:]))

	// (1) structure of the list itself
	seen := map[uint64]int{}
	for p, l := range lines {
		v, err := strconv.ParseUint(l, 10, 64)
		if err != nil || strconv.FormatUint(v, 10) != l {
			c.Violate("C17/list-entry-not-canonical-uint64", fmt.Sprintf("line %d = %q", p, l), map[string]interface{}{"position": p, "line": l})
			continue
		}
		if q, dup := seen[v]; dup {
			c.Violate("C17/list-index-repeats", fmt.Sprintf("index %d at positions %d and %d", v, q, p), nil)
		}
		seen[v] = p
	}
	c.Set("list_positions", len(lines))
	if len(lines) != 18632 {
		c.Violate("C17/list-length", fmt.Sprintf("pinned list has %d positions", len(lines)), nil)
	}

	// (2) every position through the real reconstruction
	for p := 0; p < len(lines); p++ {
		c.Eval(1)
		c.Distinct(fmt.Sprintf("pos:%d", p))
		m, err, pan := safeBaked(p)
		if pan != nil {
			c.Violate("C17/in-range-position-panics", fmt.Sprintf("position %d: %v", p, pan), map[string]interface{}{"position": p})
			continue
		}
		if err != nil {
			c.Violate("C17/in-range-position-refused", fmt.Sprintf("position %d: %v", p, err), map[string]interface{}{"position": p})
			continue
		}
		idx, _ := oracle.BakedIndex(p)
		ref := oracle.RefSigningRoot(idx)
		if m.MessageID != lines[p] || m.File != fmt.Sprintf("bakedrange%d", p) || !m.BakedDataPayload {
			c.Violate("C17/position-metadata", fmt.Sprintf("position %d: id=%q file=%q baked=%v want id=%q", p, m.MessageID, m.File, m.BakedDataPayload, lines[p]), map[string]interface{}{"position": p})
		}
		if hex.EncodeToString(m.Payload) != hex.EncodeToString(ref[:]) {
			c.Violate("C17/position-payload-differs-from-spec-root", fmt.Sprintf("position %d index %d: got %x want %x", p, idx, m.Payload, ref), map[string]interface{}{"position": p, "index": idx})
		}
		if p%4000 == 17 {
			c.Sample(map[string]interface{}{"position": p, "validator_index": idx, "root": hex.EncodeToString(ref[:])})
		}
	}

	// (3) random + boundary indices straight through GetSigningRoot
	r := c.Rng(17)
	idxs := []uint64{0, 1, 255, 256, 1<<32 - 1, 1 << 32, 1<<32 + 1, 1<<63 - 1, 1 << 63, 1<<64 - 1}
	nrand := c.Pick(10000, 1000000)
	for i := 0; i < nrand; i++ {
		v := r.Uint64()
		switch i % 4 {
		case 1:
			v >>= uint(r.Intn(64))
		case 2:
			v = uint64(r.Intn(2000000))
		}
		idxs = append(idxs, v)
	}
	for k, v := range idxs {
		c.Eval(1)
		c.Distinct(fmt.Sprintf("idx:%d", v))
		got, err := wc_rotation.GetSigningRoot(v)
		ref := oracle.RefSigningRoot(v)
		if err != nil {
			c.Violate("C17/signing-root-error", fmt.Sprintf("index %d: %v", v, err), map[string]interface{}{"index": v})
			continue
		}
		if got != ref {
			c.Violate("C17/signing-root-differs-from-spec", fmt.Sprintf("index %d: got %x want %x", v, got, ref), map[string]interface{}{"index": v})
		}
		if k < 3 {
			c.Sample(map[string]interface{}{"validator_index": v, "root": hex.EncodeToString(ref[:])})
		}
	}

	// (4) positions outside the list must be refused with an error (no panic, no message)
	outs := []int{-1 << 31, -18633, -2, -1, len(lines), len(lines) + 1, len(lines) + 2, 1 << 20, 1<<31 - 1}
	for _, p := range outs {
		c.Eval(1)
		c.Distinct(fmt.Sprintf("out:%d", p))
		m, err, pan := safeBaked(p)
		if pan != nil {
			key := "C17/out-of-range-position-panics"
			if p < 0 {
				key = "C17/negative-position-panics"
			}
			c.Violate(key, fmt.Sprintf("ReconstructBakedMessage(%d) panicked: %v", p, pan), map[string]interface{}{"position": p})
			continue
		}
		if err == nil {
			c.Violate("C17/out-of-range-position-accepted", fmt.Sprintf("ReconstructBakedMessage(%d) returned id=%q", p, m.MessageID), map[string]interface{}{"position": p})
		}
	}
	// a range task reaching outside the list must be refused as a whole
	for _, rg := range [][2]int{{18630, 18634}, {-1, 1}, {18632, 18633}} {
		c.Eval(1)
		c.Distinct(fmt.Sprintf("range:%d-%d", rg[0], rg[1]))
		func() {
			defer func() {
				if r := recover(); r != nil {
					key := "C17/out-of-range-position-panics"
					if rg[0] < 0 {
						key = "C17/negative-position-panics"
					}
					c.Violate(key, fmt.Sprintf("TasksToMessages range %v panicked: %v", rg, r), map[string]interface{}{"range": rg})
				}
			}()
			msgs, err := requests.TasksToMessages([]requests.SigningTask{{MessageID: "x", RangeStart: rg[0], RangeEnd: rg[1]}})
			if err == nil {
				c.Violate("C17/out-of-range-position-accepted", fmt.Sprintf("range %v expanded to %d messages", rg, len(msgs)), map[string]interface{}{"range": rg})
			}
		}()
	}
	// (5) ranges are expanded by another routine than single positions: the whole list as one range, and
	// overlapping windows, must expand to exactly the per-position messages
	ranges := [][2]int{{0, len(lines)}}
	for lo := 0; lo < len(lines); lo += 1500 {
		hi := lo + 1700
		if hi > len(lines) {
			hi = len(lines)
		}
		ranges = append(ranges, [2]int{lo, hi})
	}
	for k := 0; k < c.Pick(4, 60); k++ {
		lo := r.Intn(len(lines))
		ranges = append(ranges, [2]int{lo, lo + 1 + r.Intn(len(lines)-lo)})
	}
	for _, rg := range ranges {
		c.Eval(1)
		c.Distinct(fmt.Sprintf("range:%d-%d", rg[0], rg[1]))
		var msgs []requests.MessageToSign
		var err error
		func() {
			defer func() {
				if x := recover(); x != nil {
					err = fmt.Errorf("panic: %v", x)
				}
			}()
			msgs, err = requests.TasksToMessages([]requests.SigningTask{{MessageID: "whole", RangeStart: rg[0], RangeEnd: rg[1]}})
		}()
		if err != nil {
			c.Violate("C17/valid-range-refused", fmt.Sprintf("range [%d,%d) inside the list is refused: %v", rg[0], rg[1], err), map[string]interface{}{"range": rg})
			continue
		}
		if len(msgs) != rg[1]-rg[0] {
			c.Violate("C17/range-expands-to-wrong-number-of-messages", fmt.Sprintf("range [%d,%d) expands to %d messages", rg[0], rg[1], len(msgs)), map[string]interface{}{"range": rg})
			continue
		}
		for k, m := range msgs {
			p := rg[0] + k
			idx, _ := oracle.BakedIndex(p)
			ref := oracle.RefSigningRoot(idx)
			if m.MessageID != lines[p] || hex.EncodeToString(m.Payload) != hex.EncodeToString(ref[:]) || m.File != fmt.Sprintf("bakedrange%d", p) {
				c.Violate("C17/range-expansion-differs-from-positions", fmt.Sprintf("range [%d,%d): element %d is id=%q file=%q instead of validator %d", rg[0], rg[1], k, m.MessageID, m.File, idx), map[string]interface{}{"range": rg, "position": p})
				break
			}
		}
	}
	c.Set("ranges_expanded", len(ranges))
	c.Exhaustive = true
	c.Set("random_indices", nrand)
}
