package world

import (
	"encoding/base64"
	"encoding/json"
	"fmt"
	"os"
	"path/filepath"
	"regexp"
	"strings"
	"time"

	"github.com/lidofinance/dc4bc/client/types"
)

// ProcMachine is an airgapped machine as shipped: the cmd/airgapped binary (built from the tree under
// test) running as its own process on a pseudo-terminal, driven through its prompt like an operator
// does (password entry, set_seed, read_operation <file>, replay_operations_log, exit) and killed with
// SIGKILL when the workload says so.
type ProcMachine struct {
	Bin, Dir, DBPath, Password string
	P                          *PtyProc
	Starts                     int
	// Expiry is the -password_expiration the binary is started with ("" = 24h)
	Expiry string
	Commands                   map[string]int
}

// AirgappedBin returns the dc4bc_airgapped binary the check script built, "" if none.
func AirgappedBin() string { return os.Getenv("VERIF_AIRGAPPED_BIN") }

func NewProcMachine(dir, password string) *ProcMachine {
	return &ProcMachine{Bin: AirgappedBin(), Dir: dir, DBPath: filepath.Join(dir, "db"), Password: password, Commands: map[string]int{}}
}

const ptyWait = 3 * time.Minute

// Start launches the binary and enters the password (twice on a fresh database).
func (m *ProcMachine) Start() error {
	if m.Bin == "" {
		return fmt.Errorf("no dc4bc_airgapped binary (VERIF_AIRGAPPED_BIN)")
	}
	if err := os.MkdirAll(m.Dir, 0o755); err != nil {
		return err
	}
	expiry := m.Expiry
	if expiry == "" {
		expiry = "24h"
	}
	p, err := StartPty(m.Bin, "-db_path", m.DBPath, "-result_folder", m.Dir, "-password_expiration", expiry)
	if err != nil {
		return err
	}
	m.P = p
	m.Starts++
	if _, err := p.Expect(ptyWait, "Enter encryption password: "); err != nil {
		return fmt.Errorf("start: %w", err)
	}
	_ = p.Send(m.Password + "\n")
	out, err := p.Expect(ptyWait, "Confirm encryption password: ", "Waiting for command...")
	if err != nil {
		return fmt.Errorf("password: %w", err)
	}
	if strings.HasSuffix(out, "Confirm encryption password: ") {
		_ = p.Send(m.Password + "\n")
		if _, err := p.Expect(ptyWait, "Waiting for command..."); err != nil {
			return fmt.Errorf("password confirmation: %w", err)
		}
	}
	_, err = p.Expect(ptyWait, ">>> ")
	return err
}

// command types a command at the prompt and feeds the answers to its questions in order.
func (m *ProcMachine) command(name string, answers ...string) (string, error) {
	m.Commands[name]++
	if m.P == nil || !m.P.Alive() {
		return "", fmt.Errorf("machine process is not running")
	}
	_ = m.P.Send(name + "\r")
	var all strings.Builder
	for _, a := range answers {
		out, err := m.P.Expect(ptyWait, ": ")
		all.WriteString(out)
		if err != nil {
			return all.String(), err
		}
		_ = m.P.Send(a + "\n")
	}
	out, err := m.P.Expect(ptyWait, ">>> ")
	all.WriteString(out)
	return all.String(), err
}

// SetSeedByPrompt runs set_seed answering whatever the machine asks by what it asks (the password first if
// the machine wants it again, then the confirmation and the mnemonic). It reports whether the password was
// asked for.
func (m *ProcMachine) SetSeedByPrompt(mnemonic string) (askedPassword bool, err error) {
	m.Commands["set_seed"]++
	if m.P == nil || !m.P.Alive() {
		return false, fmt.Errorf("machine process is not running")
	}
	_ = m.P.Send("set_seed\r")
	var all strings.Builder
	for i := 0; i < 12; i++ {
		out, err := m.P.Expect(ptyWait, ": ", ">>> ")
		all.WriteString(out)
		if err != nil {
			return askedPassword, err
		}
		switch {
		case strings.HasSuffix(out, ">>> "):
			if strings.Contains(all.String(), "failed to execute command") {
				return askedPassword, fmt.Errorf("set_seed: %s", trimTail(all.String(), 300))
			}
			return askedPassword, nil
		case strings.Contains(out, "ncryption password"):
			askedPassword = true
			_ = m.P.Send(m.Password + "\n")
		case strings.Contains(out, "Type 'ok'"):
			_ = m.P.Send("ok\n")
		case strings.Contains(out, "mnemonic"):
			_ = m.P.Send(mnemonic + "\n")
		default:
			_ = m.P.Send("\n")
		}
	}
	return askedPassword, fmt.Errorf("set_seed: too many questions: %s", trimTail(all.String(), 300))
}

// SetSeed runs set_seed with a BIP-39 mnemonic (fresh database only).
func (m *ProcMachine) SetSeed(mnemonic string) error {
	out, err := m.command("set_seed", "ok", mnemonic)
	if err != nil {
		return err
	}
	if strings.Contains(out, "failed to execute command") {
		return fmt.Errorf("set_seed: %s", trimTail(out, 300))
	}
	return nil
}

var b64Line = regexp.MustCompile(`(?m)^([A-Za-z0-9+/]{40,}={0,2})\s*$`)

// PubKey runs show_dkg_pubkey.
func (m *ProcMachine) PubKey() ([]byte, error) {
	out, err := m.command("show_dkg_pubkey")
	if err != nil {
		return nil, err
	}
	mm := b64Line.FindStringSubmatch(strings.ReplaceAll(out, "\r", ""))
	if mm == nil {
		return nil, fmt.Errorf("show_dkg_pubkey printed no key: %q", trimTail(out, 200))
	}
	return base64.StdEncoding.DecodeString(mm[1])
}

var resultPath = regexp.MustCompile(`the result Operation JSON was saved to: (\S+)`)

// ReadOperation writes op to a request file, runs read_operation on it and parses the result file.
func (m *ProcMachine) ReadOperation(op *types.Operation) (*types.Operation, error) {
	bz, err := json.Marshal(op)
	if err != nil {
		return nil, err
	}
	req := filepath.Join(m.Dir, op.Filename()+"_request.json")
	if err := os.WriteFile(req, bz, 0o600); err != nil {
		return nil, err
	}
	out, err := m.command("read_operation", req)
	if err != nil {
		return nil, err
	}
	mm := resultPath.FindStringSubmatch(strings.ReplaceAll(out, "\r", ""))
	if mm == nil {
		return nil, fmt.Errorf("read_operation: %s", trimTail(strings.ReplaceAll(out, "\r", ""), 300))
	}
	rb, err := os.ReadFile(mm[1])
	if err != nil {
		return nil, err
	}
	var res types.Operation
	if err := json.Unmarshal(rb, &res); err != nil {
		return nil, fmt.Errorf("result file does not parse: %w", err)
	}
	return &res, nil
}

// Replay runs replay_operations_log for the round; returns the prompt's output.
func (m *ProcMachine) Replay(round string) (string, error) {
	out, err := m.command("replay_operations_log", round)
	if err == nil && strings.Contains(out, "failed to execute command") && !strings.Contains(out, "operation log not found") {
		return out, fmt.Errorf("replay_operations_log: %s", trimTail(strings.ReplaceAll(out, "\r", ""), 300))
	}
	return out, err
}

// Kill is SIGKILL (the database is left as it is on disk).
func (m *ProcMachine) Kill() {
	if m.P != nil {
		m.P.Kill()
		m.P = nil
	}
}

// Exit types `exit` and waits for the process to end.
func (m *ProcMachine) Exit() {
	if m.P == nil {
		return
	}
	if m.P.Alive() {
		_ = m.P.Send("exit\r")
		for i := 0; i < 200 && m.P.Alive(); i++ {
			time.Sleep(10 * time.Millisecond)
		}
	}
	m.Kill()
}
