package props

import (
	"bytes"
	"fmt"
	"runtime"
	"strconv"
	"sync"
	"time"

	"github.com/lidofinance/dc4bc/storage"

	"verifharness/world"
)

func goid() int64 {
	b := make([]byte, 64)
	b = b[:runtime.Stack(b, false)]
	b = bytes.TrimPrefix(b, []byte("goroutine "))
	i := bytes.IndexByte(b, ' ')
	if i < 0 {
		return -1
	}
	n, _ := strconv.ParseInt(string(b[:i]), 10, 64)
	return n
}

type pollEv struct {
	G    int64
	Op   string
	Key  string
	Msgs []storage.Message
}

// pollConformance runs the real BaseNodeService.Poll() on node 0 of small worlds and checks the
// exact shape the stepped driver assumes:
//
//	LoadOffset ; GetMessages(o) ; { effects(m_k) ; SaveOffset(k+1) }*
//
// with no state-changing effect for messages addressed to someone else.
func pollConformance(c *Ctx) {
	worlds := c.Pick(2, 6)
	Parallel(worlds, 8, func(wi int) {
		n := 2 + wi%2
		w, err := world.NewWorld(world.Options{N: n, T: 2, Seed: c.Seed*17 + uint64(wi)})
		if err != nil {
			c.Inconclusive("live world: %v", err)
			return
		}
		defer w.Close()
		live := w.Nodes[0]
		var mu sync.Mutex
		var log []pollEv
		rec := func(op, key string, _ []byte) string {
			mu.Lock()
			log = append(log, pollEv{G: goid(), Op: op, Key: key})
			mu.Unlock()
			return ""
		}
		live.State.SetGate(rec)
		live.NB.SetGate(func(op, key string, v []byte) string {
			if op == "getmessages" {
				return "" // recorded with its result by OnRead
			}
			return rec(op, key, v)
		})
		live.NB.OnRead = func(off uint64, msgs []storage.Message) {
			mu.Lock()
			log = append(log, pollEv{G: goid(), Op: "getmessages", Key: fmt.Sprint(off), Msgs: msgs})
			mu.Unlock()
		}
		var pollG int64
		done := make(chan struct{})
		go func() {
			mu.Lock()
			pollG = goid()
			mu.Unlock()
			_ = live.Svc.Poll()
			close(done)
		}()
		ce := &Ceremony{W: w, N: n, T: 2}
		ce.Round, err = w.StartDKG(1, 2, now())
		if err != nil {
			c.Inconclusive("live start: %v", err)
			return
		}
		// drive: operators + stepped polls for the other nodes; the live node polls by itself
		proposed := false
		stable := 0
		for iter := 0; iter < 400 && stable < 6; iter++ {
			progressed := false
			for i, nd := range w.Nodes {
				if i != 0 && int(nd.Offset()) < w.Board.Len() {
					_, _ = nd.PollStep(0)
					progressed = true
				}
				for _, op := range w.PendingOps(nd) {
					if w.HandleOp(nd, op) == nil {
						progressed = true
					}
				}
			}
			if !proposed && ce.AllIn(StIdle) {
				_ = w.ProposeSign(1, ce.Round, map[string][]byte{"live": []byte("x")}, nil)
				proposed, progressed = true, true
			}
			if progressed || int(live.Offset()) < w.Board.Len() {
				stable = 0
			} else {
				stable++
			}
			time.Sleep(150 * time.Millisecond)
		}
		live.Cancel()
		select {
		case <-done:
		case <-time.After(5 * time.Second):
		}
		mu.Lock()
		evs := append([]pollEv{}, log...)
		pg := pollG
		mu.Unlock()
		if !proposed || !ce.AllIn(StIdle) {
			c.Inconclusive("live world %d did not finish: %v", wi, ce.States())
			return
		}
		// trace monitor over the poller goroutine's events
		var pending []storage.Message // messages of the current tick not yet acknowledged
		lastLoaded := "-"
		ticks, handled, skipped := 0, 0, 0
		effectsForCurrent := 0
		bad := func(what string, i int) {
			c.Violate("C13/poll-trace-shape:"+what, fmt.Sprintf("world %d event #%d: %s", wi, i, what), map[string]interface{}{"world": wi, "n": n, "event_index": i})
		}
		for i, e := range evs {
			if e.G != pg {
				continue
			}
			switch e.Op {
			case "loadoffset":
				if len(pending) > 0 {
					bad("tick-ended-without-saving-offset-of-every-message", i)
					pending = nil
				}
				lastLoaded = "?"
				ticks++
			case "getmessages":
				if lastLoaded != "?" {
					bad("getmessages-without-loadoffset", i)
				}
				lastLoaded = e.Key
				pending = append([]storage.Message{}, e.Msgs...)
				effectsForCurrent = 0
			case "saveoffset":
				if len(pending) == 0 {
					bad("saveoffset-without-message", i)
					continue
				}
				m := pending[0]
				if e.Key != fmt.Sprint(m.Offset+1) {
					bad("saveoffset-value-is-not-message-offset-plus-one", i)
				}
				addressed := m.RecipientAddr == "" || m.RecipientAddr == live.Name
				if !addressed && effectsForCurrent > 0 {
					bad("message-for-someone-else-had-effects", i)
				}
				if addressed {
					handled++
				} else {
					skipped++
				}
				pending = pending[1:]
				effectsForCurrent = 0
			case "set", "del", "send":
				if len(pending) == 0 {
					bad("state-change-outside-message-handling", i)
				}
				effectsForCurrent++
			}
		}
		if handled == 0 {
			c.Inconclusive("live world %d: poller handled nothing", wi)
			return
		}
		c.Eval(1)
		c.Distinct(fmt.Sprintf("live n%d world%d", n, wi))
		c.Add("live_poll_ticks", ticks)
		c.Add("live_messages_handled", handled)
		c.Add("live_messages_skipped_as_not_addressed", skipped)
	})
}
