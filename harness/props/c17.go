package props

import (
	"encoding/base64"
	"encoding/hex"
	"encoding/json"
	"fmt"
	"strconv"
	"sync"

	"github.com/lidofinance/dc4bc/fsm/types/requests"
	"github.com/lidofinance/dc4bc/pkg/wc_rotation"

	"verifharness/oracle"
	"verifharness/world"
)

// C17: baked withdrawal-credential messages equal the consensus-spec signing roots.
func init() { Register("C17", "exploration", checkC17) }

func safeBaked(p int) (m requests.MessageToSign, err error, panicked interface{}) {
	defer func() {
		if r := recover(); r != nil {
			panicked = r
		}
	}()
	m, err = requests.ReconstructBakedMessage(p)
	return
}

func checkC17(c *Ctx) {
	c.Rule = "exhaustive: every position 0..len-1 of the pinned published list through requests.ReconstructBakedMessage, compared with an independent SSZ implementation and an independent reader of the pinned list; plus seeded random/boundary uint64 indices through wc_rotation.GetSigningRoot; plus out-of-range positions. The same lookups in descending / random / repeated order, and in fresh worker processes whose first act is a window not starting at 0 or 24 concurrent first lookups (48 fresh processes in quick, 200 in thorough). distinct = distinct (position|index|out-of-range position) cases judged"
	c.Assumptions = []string{"the pinned copy of payloads.csv in /verif (sha256 4e78d9c7...) is the published list", "SHA-256 of the Go standard library"}
	lines := oracle.RefLines()

	// reference self-check against the one constant the spec-independent world knows: the
	// mainnet domain for BLS_TO_EXECUTION_CHANGE is 0x0a000000 || fork_data_root[:28]
	d := oracle.RefDomain()
	c.Set("reference_domain", hex.EncodeToString(d[:]))

	// (1) structure of the list itself
	seen := map[uint64]int{}
	for p, l := range lines {
		v, err := strconv.ParseUint(l, 10, 64)
		if err != nil || strconv.FormatUint(v, 10) != l {
			c.Violate("C17/list-entry-not-canonical-uint64", fmt.Sprintf("line %d = %q", p, l), map[string]interface{}{"position": p, "line": l})
			continue
		}
		if q, dup := seen[v]; dup {
			c.Violate("C17/list-index-repeats", fmt.Sprintf("index %d at positions %d and %d", v, q, p), nil)
		}
		seen[v] = p
	}
	c.Set("list_positions", len(lines))
	if len(lines) != 18632 {
		c.Violate("C17/list-length", fmt.Sprintf("pinned list has %d positions", len(lines)), nil)
	}

	// (2) every position through the real reconstruction
	for p := 0; p < len(lines); p++ {
		c.Eval(1)
		c.Distinct(fmt.Sprintf("pos:%d", p))
		m, err, pan := safeBaked(p)
		if pan != nil {
			c.Violate("C17/in-range-position-panics", fmt.Sprintf("position %d: %v", p, pan), map[string]interface{}{"position": p})
			continue
		}
		if err != nil {
			c.Violate("C17/in-range-position-refused", fmt.Sprintf("position %d: %v", p, err), map[string]interface{}{"position": p})
			continue
		}
		idx, _ := oracle.BakedIndex(p)
		ref := oracle.RefSigningRoot(idx)
		if m.MessageID != lines[p] || m.File != fmt.Sprintf("bakedrange%d", p) || !m.BakedDataPayload {
			c.Violate("C17/position-metadata", fmt.Sprintf("position %d: id=%q file=%q baked=%v want id=%q", p, m.MessageID, m.File, m.BakedDataPayload, lines[p]), map[string]interface{}{"position": p})
		}
		if hex.EncodeToString(m.Payload) != hex.EncodeToString(ref[:]) {
			c.Violate("C17/position-payload-differs-from-spec-root", fmt.Sprintf("position %d index %d: got %x want %x", p, idx, m.Payload, ref), map[string]interface{}{"position": p, "index": idx})
		}
		if p%4000 == 17 {
			c.Sample(map[string]interface{}{"position": p, "validator_index": idx, "root": hex.EncodeToString(ref[:])})
		}
	}

	// (2b) the same lookups in another order: what a position yields may not depend on what was looked up
	// before (descending run, random jumps, immediate repeats)
	judgePos := func(p int, how string) {
		c.Eval(1)
		m, err, pan := safeBaked(p)
		idx, _ := oracle.BakedIndex(p)
		ref := oracle.RefSigningRoot(idx)
		if pan != nil || err != nil || m.MessageID != lines[p] || hex.EncodeToString(m.Payload) != hex.EncodeToString(ref[:]) {
			c.Violate("C17/position-depends-on-lookup-history", fmt.Sprintf("position %d looked up %s: id=%q err=%v panic=%v, want id=%q", p, how, m.MessageID, err, pan, lines[p]), map[string]interface{}{"position": p, "order": how})
		}
	}
	for p := len(lines) - 1; p >= 0; p -= 37 {
		judgePos(p, "in a descending run")
	}
	{
		r := c.Rng(1717)
		last := 0
		for i := 0; i < c.Pick(4000, 200000); i++ {
			p := r.Intn(len(lines))
			switch i % 5 {
			case 1:
				p = last // repeat
			case 2:
				p = (last + 1) % len(lines) // neighbour
			}
			judgePos(p, "after random other positions")
			last = p
		}
		c.Distinct("order:descending")
		c.Distinct("order:random")
	}
	// (2c) ... nor on being the first lookup of a process: fresh worker processes whose first baked lookup
	// is a window that does not start at position 0 (a node or machine started for `sign_baked 100 500`)
	saved := c.Seed
	for k := 0; k < c.Pick(48, 200); k++ {
		c.Seed = saved*100 + uint64(k)
		c.RunPartInChild("c17first", "C17/first-lookup-of-a-process-crashes")
	}
	// the same bursts under the Go race detector (race build of the harness): an unsynchronised lazily built
	// constant is reported whether or not a reader happened to see it half built
	raced := 0
	for k := 0; k < c.Pick(6, 24); k++ {
		c.Seed = saved*100 + uint64(4*k+1)
		if c.RunPartInRaceChild("c17first", "C17/data-race-among-concurrent-first-lookups") {
			raced++
		}
	}
	c.Add("fresh_processes_under_the_race_detector", raced)
	c.Seed = saved

	// (3) random + boundary indices straight through GetSigningRoot
	r := c.Rng(17)
	idxs := []uint64{0, 1, 255, 256, 1<<32 - 1, 1 << 32, 1<<32 + 1, 1<<63 - 1, 1 << 63, 1<<64 - 1}
	nrand := c.Pick(10000, 1000000)
	for i := 0; i < nrand; i++ {
		v := r.Uint64()
		switch i % 4 {
		case 1:
			v >>= uint(r.Intn(64))
		case 2:
			v = uint64(r.Intn(2000000))
		}
		idxs = append(idxs, v)
	}
	for k, v := range idxs {
		c.Eval(1)
		c.Distinct(fmt.Sprintf("idx:%d", v))
		got, err := wc_rotation.GetSigningRoot(v)
		ref := oracle.RefSigningRoot(v)
		if err != nil {
			c.Violate("C17/signing-root-error", fmt.Sprintf("index %d: %v", v, err), map[string]interface{}{"index": v})
			continue
		}
		if got != ref {
			c.Violate("C17/signing-root-differs-from-spec", fmt.Sprintf("index %d: got %x want %x", v, got, ref), map[string]interface{}{"index": v})
		}
		if k < 3 {
			c.Sample(map[string]interface{}{"validator_index": v, "root": hex.EncodeToString(ref[:])})
		}
	}

	// (4) positions outside the list must be refused with an error (no panic, no message)
	outs := []int{-1 << 31, -18633, -2, -1, len(lines), len(lines) + 1, len(lines) + 2, 1 << 20, 1<<31 - 1}
	for _, p := range outs {
		c.Eval(1)
		c.Distinct(fmt.Sprintf("out:%d", p))
		m, err, pan := safeBaked(p)
		if pan != nil {
			key := "C17/out-of-range-position-panics"
			if p < 0 {
				key = "C17/negative-position-panics"
			}
			c.Violate(key, fmt.Sprintf("ReconstructBakedMessage(%d) panicked: %v", p, pan), map[string]interface{}{"position": p})
			continue
		}
		if err == nil {
			c.Violate("C17/out-of-range-position-accepted", fmt.Sprintf("ReconstructBakedMessage(%d) returned id=%q", p, m.MessageID), map[string]interface{}{"position": p})
		}
	}
	// a range task reaching outside the list must be refused as a whole
	for _, rg := range [][2]int{{18630, 18634}, {-1, 1}, {18632, 18633}} {
		c.Eval(1)
		c.Distinct(fmt.Sprintf("range:%d-%d", rg[0], rg[1]))
		func() {
			defer func() {
				if r := recover(); r != nil {
					key := "C17/out-of-range-position-panics"
					if rg[0] < 0 {
						key = "C17/negative-position-panics"
					}
					c.Violate(key, fmt.Sprintf("TasksToMessages range %v panicked: %v", rg, r), map[string]interface{}{"range": rg})
				}
			}()
			msgs, err := requests.TasksToMessages([]requests.SigningTask{{MessageID: "x", RangeStart: rg[0], RangeEnd: rg[1]}})
			if err == nil {
				c.Violate("C17/out-of-range-position-accepted", fmt.Sprintf("range %v expanded to %d messages", rg, len(msgs)), map[string]interface{}{"range": rg})
			}
		}()
	}
	// (5) ranges are expanded by another routine than single positions: the whole list as one range, and
	// overlapping windows, must expand to exactly the per-position messages
	ranges := [][2]int{{0, len(lines)}}
	for lo := 0; lo < len(lines); lo += 1500 {
		hi := lo + 1700
		if hi > len(lines) {
			hi = len(lines)
		}
		ranges = append(ranges, [2]int{lo, hi})
	}
	for k := 0; k < c.Pick(4, 60); k++ {
		lo := r.Intn(len(lines))
		ranges = append(ranges, [2]int{lo, lo + 1 + r.Intn(len(lines)-lo)})
	}
	for _, rg := range ranges {
		c.Eval(1)
		c.Distinct(fmt.Sprintf("range:%d-%d", rg[0], rg[1]))
		var msgs []requests.MessageToSign
		var err error
		func() {
			defer func() {
				if x := recover(); x != nil {
					err = fmt.Errorf("panic: %v", x)
				}
			}()
			msgs, err = requests.TasksToMessages([]requests.SigningTask{{MessageID: "whole", RangeStart: rg[0], RangeEnd: rg[1]}})
		}()
		if err != nil {
			c.Violate("C17/valid-range-refused", fmt.Sprintf("range [%d,%d) inside the list is refused: %v", rg[0], rg[1], err), map[string]interface{}{"range": rg})
			continue
		}
		if len(msgs) != rg[1]-rg[0] {
			c.Violate("C17/range-expands-to-wrong-number-of-messages", fmt.Sprintf("range [%d,%d) expands to %d messages", rg[0], rg[1], len(msgs)), map[string]interface{}{"range": rg})
			continue
		}
		for k, m := range msgs {
			p := rg[0] + k
			idx, _ := oracle.BakedIndex(p)
			ref := oracle.RefSigningRoot(idx)
			if m.MessageID != lines[p] || hex.EncodeToString(m.Payload) != hex.EncodeToString(ref[:]) || m.File != fmt.Sprintf("bakedrange%d", p) {
				c.Violate("C17/range-expansion-differs-from-positions", fmt.Sprintf("range [%d,%d): element %d is id=%q file=%q instead of validator %d", rg[0], rg[1], k, m.MessageID, m.File, idx), map[string]interface{}{"range": rg, "position": p})
				break
			}
		}
	}
	c.Set("ranges_expanded", len(ranges))
	// (6) in a child process: an out-of-list window may make the code under test allocate without bound
	c.RunPartInChild("c17api", "C17/out-of-range-position-crashes-the-process")
	c.Exhaustive = true
	c.Set("random_indices", nrand)
}

// c17ThroughTheAPI (6): positions are offered for signing through POST /proposeSignBakedMessages (and the
// dc4bc_cli sign_baked command when the binary is available): a window reaching outside the list, by any
// amount incl. multiples of 2^32 and negative bounds, must be refused; if a request is accepted, the
// proposal the node posts must name exactly the requested window.
func init() {
	ChildParts["c17api"] = func(c *Ctx, progress func(string)) { c17ThroughTheAPI(c, len(oracle.RefLines()), progress) }
}

func c17ThroughTheAPI(c *Ctx, listLen int, progress func(string)) {
	ce, err := NewCeremonyWith(world.Options{N: 2, T: 2, Seed: c.Seed*163 + 5, ViaHTTP: true, ViaCLI: true}, world.EagerPolicy)
	if err != nil || !ce.AllIn(StIdle) {
		c.Inconclusive("world for the API part: %v", err)
		return
	}
	defer ce.Close()
	w, nd := ce.W, ce.W.Nodes[0]
	snap, blen := nd.Mem.Snapshot(), w.Board.Len()
	id, _ := hex.DecodeString(ce.Round)
	two32 := int64(1) << 32
	L := int64(listLen)
	windows := [][2]int64{
		{0, 3}, {L - 2, L}, // controls (inside the list)
		{L, L + 1}, {L - 1, L + 1}, {-1, 2}, {-5, -2}, {two32, two32 + 5}, {0, -two32 + 5}, {two32 - 1, two32 + 2},
		{0, two32 + 3}, {1 << 31, 1<<31 + 2}, {-two32, -two32 + 4}, {1 << 62, 1<<62 + 3}, {3, 1}, {L + 5, L + 2},
	}
	for _, wd := range windows {
		inside := wd[0] >= 0 && wd[1] <= L && wd[0] <= wd[1]
		for _, channel := range []string{"rest", "cli"} {
			if channel == "cli" && nd.CLI == nil {
				continue
			}
			nd.Mem.Restore(snap)
			w.Board.Truncate(blen)
			progress(fmt.Sprintf("window [%d,%d) offered through %s", wd[0], wd[1], channel))
			var err error
			if channel == "rest" {
				_, err = nd.API.Raw("POST", "/proposeSignBakedMessages", nil, []byte(fmt.Sprintf(`{"dkgID":%q,"range_start":%d,"range_end":%d}`, base64.StdEncoding.EncodeToString(id), wd[0], wd[1])))
			} else {
				_, err = nd.CLI.Run("", "sign_baked", ce.Round, fmt.Sprint(wd[0]), fmt.Sprint(wd[1]))
			}
			c.Eval(1)
			c.Distinct(fmt.Sprintf("api-window|%s|%d-%d", channel, wd[0], wd[1]))
			c.Add("windows_offered_through_"+channel, 1)
			wit := map[string]interface{}{"channel": channel, "range_start": wd[0], "range_end": wd[1], "list_length": listLen}
			posted := w.Board.All()[blen:]
			if ae, ok := err.(*world.APIError); ok && ae.Panicked {
				c.Violate("C17/out-of-range-position-panics", fmt.Sprintf("window [%d,%d) offered through %s: %s", wd[0], wd[1], channel, ae.Msg), wit)
				continue
			}
			if err != nil {
				if inside && wd[0] < wd[1] {
					c.Violate("C17/valid-range-refused", fmt.Sprintf("window [%d,%d) inside the list refused through %s: %v", wd[0], wd[1], channel, err), wit)
				}
				if len(posted) > 0 {
					c.Violate("C17/refused-window-posted-a-proposal", fmt.Sprintf("[%d,%d) through %s", wd[0], wd[1], channel), wit)
				}
				continue
			}
			for _, m := range posted {
				if m.Event != EvSigningStart {
					continue
				}
				var p struct {
					SigningTasks []struct{ RangeStart, RangeEnd int64 }
				}
				_ = json.Unmarshal(m.Data, &p)
				for _, t := range p.SigningTasks {
					if t.RangeStart != wd[0] || t.RangeEnd != wd[1] {
						c.Violate("C17/posted-window-differs-from-the-requested-one", fmt.Sprintf("[%d,%d) requested through %s, [%d,%d) posted: messages for positions nobody named", wd[0], wd[1], channel, t.RangeStart, t.RangeEnd), wit)
					}
				}
				// the proposer's API does not look at the list; every node does when it consumes the proposal
				var perr error
				var pan interface{}
				func() {
					defer func() { pan = recover() }()
					perr = nd.Svc.ProcessMessage(m)
				}()
				if pan != nil {
					c.Violate("C17/out-of-range-position-panics", fmt.Sprintf("proposal for [%d,%d): %v", wd[0], wd[1], pan), wit)
				} else if !inside && (perr == nil || NodeState(nd, ce.Round) != StIdle) {
					c.Violate("C17/out-of-range-position-accepted", fmt.Sprintf("the proposal for window [%d,%d) (offered through %s) was accepted by the node: err=%v, state %s", wd[0], wd[1], channel, perr, NodeState(nd, ce.Round)), wit)
				} else if !inside {
					c.Add("out_of_list_proposals_refused_on_consumption", 1)
				} else if perr != nil {
					c.Violate("C17/valid-range-refused", fmt.Sprintf("proposal for [%d,%d) refused on consumption: %v", wd[0], wd[1], perr), wit)
				}
			}
			if !inside && len(posted) == 0 {
				c.Add("out_of_list_windows_accepted_without_effect", 1)
			}
		}
	}
}

// c17first: runs in a fresh process. The very first baked lookup of the process is a window that does not
// start at position 0; then its neighbours, position 0, and the window again.
func init() {
	ChildParts["c17first"] = func(c *Ctx, progress func(string)) {
		lines := oracle.RefLines()
		starts := []int{1, 2, 100, len(lines) - 3, 12047}
		k := int(c.Seed % 100)
		var start int
		if k < len(starts) {
			start = starts[k]
		} else {
			start = 1 + c.Rng(171717).Intn(len(lines)-4)
		}
		check := func(p int, m requests.MessageToSign, how string) {
			c.Eval(1)
			idx, _ := oracle.BakedIndex(p)
			ref := oracle.RefSigningRoot(idx)
			if m.MessageID != lines[p] || hex.EncodeToString(m.Payload) != hex.EncodeToString(ref[:]) {
				c.Violate("C17/position-depends-on-lookup-history", fmt.Sprintf("position %d looked up %s: id=%q, want id=%q (validator index %d)", p, how, m.MessageID, lines[p], idx), map[string]interface{}{"position": p, "order": how, "first_window_starts_at": start})
			}
		}
		if k%4 != 0 {
			// three of four fresh processes: the first lookups of the process happen at once (a node receives a
			// proposal while its API expands another; every reader must get the spec's root)
			progress(fmt.Sprintf("24 concurrent first lookups around position %d", start))
			const G = 24
			type res struct {
				p   int
				m   requests.MessageToSign
				err error
				idx uint64
				got [32]byte
			}
			out := make([]res, G)
			gate := make(chan struct{})
			var wg sync.WaitGroup
			for g := 0; g < G; g++ {
				wg.Add(1)
				go func(g int) {
					defer wg.Done()
					<-gate
					if g%2 == 0 {
						p := (start + g) % len(lines)
						m, err := requests.ReconstructBakedMessage(p)
						out[g] = res{p: p, m: m, err: err}
					} else {
						idx := uint64(1000003*g + start)
						got, err := wc_rotation.GetSigningRoot(idx)
						out[g] = res{p: -1, idx: idx, got: got, err: err}
					}
				}(g)
			}
			close(gate)
			wg.Wait()
			for _, o := range out {
				c.Eval(1)
				if o.err != nil {
					c.Violate("C17/in-range-position-refused", fmt.Sprintf("concurrent first lookup: %v", o.err), nil)
					continue
				}
				if o.p >= 0 {
					check(o.p, o.m, "among 24 concurrent first lookups of a fresh process")
				} else if ref := oracle.RefSigningRoot(o.idx); o.got != ref {
					c.Violate("C17/signing-root-differs-from-spec", fmt.Sprintf("index %d among 24 concurrent first lookups of a fresh process: got %x want %x", o.idx, o.got, ref), map[string]interface{}{"index": o.idx})
				}
			}
			c.Add("fresh_processes_with_concurrent_first_lookups", 1)
		}
		progress(fmt.Sprintf("first lookup of the process: window %d..%d", start, start+3))
		msgs, err := requests.TasksToMessages([]requests.SigningTask{{MessageID: "first", RangeStart: start, RangeEnd: start + 3}})
		if err != nil || len(msgs) != 3 {
			c.Violate("C17/in-range-position-refused", fmt.Sprintf("window %d..%d as the first lookup of a process: %d messages, %v", start, start+3, len(msgs), err), map[string]interface{}{"start": start})
			return
		}
		for i, m := range msgs {
			check(start+i, m, "in the first window a fresh process expands")
		}
		for _, p := range []int{start + 3, start - 1, 0, start} {
			if p < 0 || p >= len(lines) {
				continue
			}
			progress(fmt.Sprintf("then position %d", p))
			if m, err, pan := safeBaked(p); err == nil && pan == nil {
				check(p, m, "after the first window")
			} else {
				c.Violate("C17/in-range-position-refused", fmt.Sprintf("position %d: %v %v", p, err, pan), map[string]interface{}{"position": p})
			}
		}
		c.Distinct(fmt.Sprintf("fresh-process-first-window|%d", start))
		c.Add("fresh_processes_whose_first_lookup_is_not_position_0", 1)
	}
}
