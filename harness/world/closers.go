package world

import (
	"reflect"
	"syscall"
	"unsafe"

	"github.com/syndtr/goleveldb/leveldb"
)

// Neither LevelDBState nor airgapped.Machine nor the key store has a Close(); thousands of worlds
// per check would exhaust file descriptors. The harness closes the unexported *leveldb.DB handles
// of instances it has finished with (never of one still in use).
func closeDBField(obj interface{}, field string) {
	defer func() { _ = recover() }()
	v := reflect.ValueOf(obj)
	if v.Kind() != reflect.Ptr || v.IsNil() {
		return
	}
	f := v.Elem().FieldByName(field)
	if !f.IsValid() || f.Kind() != reflect.Ptr || f.IsNil() {
		return
	}
	db := *(**leveldb.DB)(unsafe.Pointer(f.UnsafeAddr()))
	if db != nil {
		_ = db.Close()
	}
}

// RaiseFDLimit lifts RLIMIT_NOFILE as far as the kernel allows.
func RaiseFDLimit() {
	var lim syscall.Rlimit
	if syscall.Getrlimit(syscall.RLIMIT_NOFILE, &lim) != nil {
		return
	}
	for _, want := range []uint64{1 << 20, 1 << 18, 1 << 16, lim.Max} {
		l := syscall.Rlimit{Cur: want, Max: want}
		if want < lim.Max {
			l.Max = lim.Max
		}
		if syscall.Setrlimit(syscall.RLIMIT_NOFILE, &l) == nil {
			return
		}
	}
}
