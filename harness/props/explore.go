package props

import (
	"encoding/json"
	"fmt"
	"strings"
	"time"

	"github.com/lidofinance/dc4bc/fsm/types/requests"
	"github.com/lidofinance/dc4bc/storage"

	"verifharness/oracle"
	"verifharness/world"
)

// ---- explorer over the real node (node 0's point of view) on MemState ----

type exEvent struct {
	Label   string
	Kind    string // init confirm decline commit commiterr deal dealerr response responseerr masterkey masterkeyerr propose partial partialerr
	P       int    // claimed participant
	Variant string // valid late empty mismatch invalid stale wrongsig ...
	Phase   int    // contribution phase 0..4 (-1 otherwise)
	Batch   string
	Msg     storage.Message
	Known   bool // P is an invited participant
}

type exResult struct {
	Err      error
	Accepted bool // err == nil and the round's public projection changed
	Ignored  bool // err == nil, nothing changed
	Before   string
	After    string // state names
	ProjB    string
	ProjA    string
	Diff     []string // durable keys changed (offset excluded)
	Sent     []storage.Message
	Logs     []string
}

type exState struct {
	Snap  map[string][]byte
	Board int // board length at this state (the explorer truncates back to it)
	Name  string
	Proj  string
	Mon   interface{ Key() string }
	Depth int
	Pred  *exState
	Via   *exEvent
}

func (s *exState) Path() []string {
	var p []string
	for x := s; x != nil && x.Via != nil; x = x.Pred {
		p = append([]string{x.Via.Label}, p...)
	}
	return p
}

type explorer struct {
	W     *world.World
	Node  *world.Node
	Round string
	// Apply runs one event from a state and returns the result (node state is left at the successor).
}

func absentProj() string { return "<absent>" }

// roundProj is the projection of the round with "absent" normalised to the fresh idle instance
// (GetFSMInstance creates one on demand, so the two are behaviourally the same round).
func roundProj(n *world.Node, round string) (string, string) {
	bz := RawDump(n, round)
	if bz == nil {
		return `{"Payload":{"DKGProposalPayload":null,"DkgId":"` + round + `","IDs":null,"PubKeys":null,"SignatureProposalPayload":null,"SigningProposalPayload":null,"Threshold":0},"State":"__idle","TransactionId":"` + round + `"}`, "__idle"
	}
	p, err := oracle.Project(bz, oracle.ProjOpts{})
	if err != nil {
		return "ERR:" + err.Error(), "ERR"
	}
	var v struct{ State string }
	_ = json.Unmarshal(bz, &v)
	return p, v.State
}

func (ex *explorer) restore(s *exState) {
	ex.Node.Mem.Restore(s.Snap)
	ex.W.Board.Truncate(s.Board)
	ex.Node.NB.Sent = nil
	ex.Node.Logger.Keep = true
	ex.Node.Logger.Take()
}

// step applies ev at s (restoring first) and reports what happened.
func (ex *explorer) step(s *exState, ev *exEvent) exResult {
	ex.restore(s)
	before := ex.Node.Mem.Snapshot()
	pb, nb := roundProj(ex.Node, ex.Round)
	res := exResult{Before: nb, ProjB: pb}
	func() {
		defer func() {
			if r := recover(); r != nil {
				res.Err = fmt.Errorf("PANIC: %v", r)
			}
		}()
		res.Err = ex.Node.Svc.ProcessMessage(ev.Msg)
	}()
	after := ex.Node.Mem.Snapshot()
	res.ProjA, res.After = roundProj(ex.Node, ex.Round)
	res.Diff = world.DiffMaps(before, after, world.Topic+"_offset")
	res.Sent = ex.Node.NB.SentCopy()
	res.Logs = ex.Node.Logger.Take()
	if res.Err == nil {
		if res.ProjA != res.ProjB {
			res.Accepted = true
		} else {
			res.Ignored = true
		}
	}
	return res
}

func (ex *explorer) capture(pred *exState, via *exEvent, mon interface{ Key() string }) *exState {
	p, name := roundProj(ex.Node, ex.Round)
	d := 0
	if pred != nil {
		d = pred.Depth + 1
	}
	return &exState{Snap: ex.Node.Mem.Snapshot(), Board: ex.W.Board.Len(), Name: name, Proj: p, Mon: mon, Depth: d, Pred: pred, Via: via}
}

func isCancelled(name string) bool {
	return strings.Contains(name, "cancel") // both spellings: canceled / cancelled
}

func isDKGCancelled(name string) bool {
	return isCancelled(name) && (strings.HasPrefix(name, "state_sig_") || strings.HasPrefix(name, "state_dkg_"))
}

// ---- message builders for the protocol alphabet (harness-signed traffic) ----

var lateBy = 8 * 24 * time.Hour // deadlines are 7 days

func mkReq(v interface{}) []byte {
	bz, _ := json.Marshal(v)
	return bz
}

type alphabetCtx struct {
	W     *world.World
	Round string
	T0    time.Time
	N     int
}

func (a *alphabetCtx) signer(p int) *world.Node {
	if p >= 0 && p < a.N {
		return a.W.Nodes[p]
	}
	return a.W.Nodes[1%a.N] // unknown ids are claimed by a legitimate sender
}

func (a *alphabetCtx) ts(variant string) time.Time {
	if variant == "late" {
		return a.T0.Add(lateBy)
	}
	return a.T0.Add(time.Minute)
}

func (a *alphabetCtx) ev(kind string, p int, variant string, phase int, event string, data []byte, recipient string) *exEvent {
	if variant == "empty" {
		data = nil
	}
	m := world.SignMsg(a.signer(p), a.Round, event, data, recipient)
	m.ID = fmt.Sprintf("%s-%d-%s", kind, p, variant)
	return &exEvent{Label: fmt.Sprintf("%s(%d,%s)", kind, p, variant), Kind: kind, P: p, Variant: variant, Phase: phase, Msg: m, Known: p >= 0 && p < a.N}
}

func (a *alphabetCtx) dkgAlphabet(keyGood, keyBad, poly []byte) []*exEvent {
	var out []*exEvent
	ids := []int{}
	for p := 0; p < a.N; p++ {
		ids = append(ids, p)
	}
	ids = append(ids, a.N, 99)
	fe := requests.NewFSMError(fmt.Errorf("boom"))
	for _, p := range ids {
		variants := []string{"valid", "late", "empty"}
		if p >= a.N {
			variants = []string{"valid", "late"}
		}
		for _, v := range variants {
			t := a.ts(v)
			out = append(out,
				a.ev("confirm", p, v, 0, EvConfirm, mkReq(requests.SignatureProposalParticipantRequest{ParticipantId: p, CreatedAt: t}), ""),
				a.ev("commit", p, v, 1, EvCommit, mkReq(requests.DKGProposalCommitConfirmationRequest{ParticipantId: p, Commit: []byte(fmt.Sprintf("commit-%d", p)), CreatedAt: t}), ""),
				a.ev("deal", p, v, 2, EvDeal, mkReq(requests.DKGProposalDealConfirmationRequest{ParticipantId: p, Deal: []byte(fmt.Sprintf("deal-%d", p)), CreatedAt: t}), a.W.Nodes[0].Name),
				a.ev("response", p, v, 3, EvResponse, mkReq(requests.DKGProposalResponseConfirmationRequest{ParticipantId: p, Response: []byte(fmt.Sprintf("resp-%d", p)), CreatedAt: t}), ""),
				a.ev("masterkey", p, v, 4, EvMasterKey, mkReq(requests.DKGProposalMasterKeyConfirmationRequest{ParticipantId: p, MasterKey: keyGood, PubPolyBz: poly, CreatedAt: t}), ""),
			)
		}
		if p < a.N {
			// the contribution's own field present but empty (""), as opposed to a missing payload
			t := a.ts("valid")
			out = append(out,
				a.ev("commit", p, "emptyfield", 1, EvCommit, mkReq(map[string]interface{}{"ParticipantId": p, "Commit": "", "CreatedAt": t}), ""),
				a.ev("deal", p, "emptyfield", 2, EvDeal, mkReq(map[string]interface{}{"ParticipantId": p, "Deal": "", "CreatedAt": t}), a.W.Nodes[0].Name),
				a.ev("response", p, "emptyfield", 3, EvResponse, mkReq(map[string]interface{}{"ParticipantId": p, "Response": "", "CreatedAt": t}), ""),
				a.ev("masterkey", p, "emptyfield", 4, EvMasterKey, mkReq(map[string]interface{}{"ParticipantId": p, "MasterKey": "", "PubPolyBz": "", "CreatedAt": t}), ""),
			)
			// the same participant, the same instant, another content (a second, different contribution that
			// looks like a re-read of the first one to anything that compares time stamps)
			out = append(out,
				a.ev("commit", p, "othercontent", 1, EvCommit, mkReq(requests.DKGProposalCommitConfirmationRequest{ParticipantId: p, Commit: []byte(fmt.Sprintf("commit-%d-other", p)), CreatedAt: t}), ""),
				a.ev("deal", p, "othercontent", 2, EvDeal, mkReq(requests.DKGProposalDealConfirmationRequest{ParticipantId: p, Deal: []byte(fmt.Sprintf("deal-%d-other", p)), CreatedAt: t}), a.W.Nodes[0].Name),
				a.ev("response", p, "othercontent", 3, EvResponse, mkReq(requests.DKGProposalResponseConfirmationRequest{ParticipantId: p, Response: []byte(fmt.Sprintf("resp-%d-other", p)), CreatedAt: t}), ""),
			)
		}
		t := a.ts("valid")
		out = append(out,
			a.ev("masterkey", p, "mismatch", 4, EvMasterKey, mkReq(requests.DKGProposalMasterKeyConfirmationRequest{ParticipantId: p, MasterKey: keyBad, PubPolyBz: poly, CreatedAt: t}), ""),
			a.ev("decline", p, "valid", -1, EvDecline, mkReq(requests.SignatureProposalParticipantRequest{ParticipantId: p, CreatedAt: t}), ""),
			a.ev("commiterr", p, "valid", -1, EvCommitErr, mkReq(requests.DKGProposalConfirmationErrorRequest{ParticipantId: p, Error: fe, CreatedAt: t}), ""),
			a.ev("dealerr", p, "valid", -1, EvDealErr, mkReq(requests.DKGProposalConfirmationErrorRequest{ParticipantId: p, Error: fe, CreatedAt: t}), ""),
			a.ev("responseerr", p, "valid", -1, EvResponseErr, mkReq(requests.DKGProposalConfirmationErrorRequest{ParticipantId: p, Error: fe, CreatedAt: t}), ""),
			a.ev("masterkeyerr", p, "valid", -1, EvMasterKeyErr, mkReq(requests.DKGProposalConfirmationErrorRequest{ParticipantId: p, Error: fe, CreatedAt: t}), ""),
		)
		if p == 0 {
			// an error report whose text carries control bytes, quotes and a non-UTF-8 byte (a machine
			// echoing raw bytes of a broken operation): it is persisted inside the round
			// (built as a plain JSON object: the harness must not depend on the repository's own marshaller)
			hostileReq := mkReq(map[string]interface{}{"ParticipantId": p, "Error": "bad \x01\x07\x7f\v \"quoted\" \\ \u2028 end", "CreatedAt": t})
			out = append(out,
				a.ev("commiterr", p, "hostile-text", -1, EvCommitErr, hostileReq, ""),
				a.ev("responseerr", p, "hostile-text", -1, EvResponseErr, hostileReq, ""),
			)
		}
	}
	return out
}
