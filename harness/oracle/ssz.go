package oracle

import (
	"crypto/sha256"
	_ "embed"
	"encoding/binary"
	"encoding/hex"
	"strconv"
	"strings"
	"sync"
)

// Independent reference for C17/C03, written from the consensus-spec text
// (phase0 beacon-chain.md: compute_domain, compute_signing_root, compute_fork_data_root;
// capella beacon-chain.md: BLSToExecutionChange; ssz simple-serialize.md: merkleization).
// Constants are the public mainnet values, typed in here as hex (not imported from the repository).

const (
	refLidoBLSPubkeyHex      = "b67aca71f04b673037b54009b760f1961f3836e5714141c892afdb75ec0834dce6784d9c72ed8ad7db328cff8fe9f13e"
	refLidoExecutionAddrHex  = "b9d7934878b5fb9610b3fe8a5e441e8fad7e293f"
	refGenesisValidatorsRoot = "4b363db94e286120d76eb905340fdd4e54bfe9f06bf33ff6cf5ad27f511bfe95"
	refDomainBLSToExecChange = "0a000000"
	refGenesisForkVersion    = "00000000"
)

//go:embed payloads_ref.csv
var refCSV string

func mustHex(s string) []byte {
	b, err := hex.DecodeString(s)
	if err != nil {
		panic(err)
	}
	return b
}

func h2(a, b [32]byte) [32]byte {
	return sha256.Sum256(append(append([]byte{}, a[:]...), b[:]...))
}

func chunk(b []byte) [32]byte {
	var c [32]byte
	copy(c[:], b)
	return c
}

// merkleize pads the chunk list with zero chunks to the next power of two and hashes pairwise.
func merkleize(chunks [][32]byte) [32]byte {
	n := 1
	for n < len(chunks) {
		n *= 2
	}
	layer := make([][32]byte, n)
	copy(layer, chunks)
	for len(layer) > 1 {
		next := make([][32]byte, len(layer)/2)
		for i := range next {
			next[i] = h2(layer[2*i], layer[2*i+1])
		}
		layer = next
	}
	return layer[0]
}

// htrBytesN: hash_tree_root of a fixed-size byte vector = merkleize(pack(bytes)).
func htrBytesN(b []byte) [32]byte {
	var chunks [][32]byte
	for i := 0; i < len(b); i += 32 {
		e := i + 32
		if e > len(b) {
			e = len(b)
		}
		chunks = append(chunks, chunk(b[i:e]))
	}
	return merkleize(chunks)
}

func htrUint64(v uint64) [32]byte {
	var c [32]byte
	binary.LittleEndian.PutUint64(c[:8], v)
	return c
}

var (
	domainOnce sync.Once
	refDomain  [32]byte
)

// RefDomain = compute_domain(DOMAIN_BLS_TO_EXECUTION_CHANGE, GENESIS_FORK_VERSION, genesis_validators_root).
func RefDomain() [32]byte {
	domainOnce.Do(func() {
		forkDataRoot := merkleize([][32]byte{htrBytesN(mustHex(refGenesisForkVersion)), htrBytesN(mustHex(refGenesisValidatorsRoot))})
		copy(refDomain[:4], mustHex(refDomainBLSToExecChange))
		copy(refDomain[4:], forkDataRoot[:28])
	})
	return refDomain
}

// RefSigningRoot = compute_signing_root(BLSToExecutionChange(index, lido key, lido address), domain).
func RefSigningRoot(validatorIndex uint64) [32]byte {
	obj := merkleize([][32]byte{htrUint64(validatorIndex), htrBytesN(mustHex(refLidoBLSPubkeyHex)), htrBytesN(mustHex(refLidoExecutionAddrHex))})
	return merkleize([][32]byte{obj, RefDomain()})
}

var (
	csvOnce  sync.Once
	refLines []string
)

// RefLines: the pinned published list, split exactly as a line-oriented reader would
// (trailing newline => no extra element).
func RefLines() []string {
	csvOnce.Do(func() {
		refLines = strings.Split(strings.TrimSuffix(refCSV, "\n"), "\n")
	})
	return refLines
}

// BakedIndex returns the validator index at list position p of the pinned list.
func BakedIndex(p int) (uint64, bool) {
	l := RefLines()
	if p < 0 || p >= len(l) {
		return 0, false
	}
	v, err := strconv.ParseUint(l[p], 10, 64)
	if err != nil {
		return 0, false
	}
	return v, true
}
