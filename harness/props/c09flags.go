package props

import (
	"bufio"
	"encoding/json"
	"fmt"
	"os"
	"strings"
)

// c09FlagWiring judges what /verif/check recorded by compiling an observer into cmd/dc4bc_d (go test
// -overlay): for each command line of the daemon, whether its configuration ends up with message verification
// switched off. Verification may be off only when the operator asked for it with
// --skip_comm_keys_verification; no other flag may switch it off (a daemon started with, say, the documented
// ignore-by-offset flags would otherwise apply forged messages).
func c09FlagWiring(c *Ctx) {
	path := os.Getenv("VERIF_FLAGWIRING")
	if path == "" {
		c.Note("daemon flag wiring not observed (check script did not run the observer)")
		return
	}
	f, err := os.Open(path)
	if err != nil {
		c.Note("daemon flag wiring not observed: %v", err)
		return
	}
	defer f.Close()
	sc := bufio.NewScanner(f)
	sc.Buffer(make([]byte, 1<<20), 1<<24)
	trials := 0
	for sc.Scan() {
		var rec struct {
			NotRun     bool     `json:"not_run"`
			Args       []string `json:"args"`
			ParseError bool     `json:"parse_error"`
			SkipGiven  bool     `json:"skip_given"`
			SkipConfig bool     `json:"skip_config"`
		}
		if json.Unmarshal(sc.Bytes(), &rec) != nil {
			continue
		}
		if rec.NotRun {
			c.Note("daemon flag wiring not observed: the observer did not compile into or run in cmd/dc4bc_d (renamed internals?); this part decides nothing")
			c.Add("daemon_flag_wiring_observer_not_run", 1)
			return
		}
		if rec.ParseError {
			continue
		}
		trials++
		c.Eval(1)
		c.Distinct("daemon-flags|" + strings.Join(rec.Args, " "))
		if rec.SkipConfig && !rec.SkipGiven {
			c.Violate("C09/verification-switched-off-by-another-flag", fmt.Sprintf("dc4bc_d started with %q runs with message verification switched off although --skip_comm_keys_verification was not given", strings.Join(rec.Args, " ")), map[string]interface{}{"family": "daemon command lines (observer compiled into cmd/dc4bc_d)", "args": rec.Args})
		}
	}
	c.Add("daemon_command_lines_observed", trials)
}
