package props

import (
	"bytes"
	"encoding/binary"
	"encoding/json"
	"fmt"

	"github.com/corestario/kyber/share"

	"github.com/lidofinance/dc4bc/client/types"
	fsmtypes "github.com/lidofinance/dc4bc/fsm/types"
	"github.com/lidofinance/dc4bc/fsm/types/requests"
	"github.com/lidofinance/dc4bc/pkg/utils"
	"github.com/lidofinance/dc4bc/storage"

	"verifharness/oracle"
	"verifharness/sched"
	"verifharness/world"
)

// C03: what gets signed is exactly what was proposed.
func init() { Register("C03", "exploration", checkC03) }

func checkC03(c *Ctx) {
	c.Rule = "signing proposals built through the API (explicit payload maps, baked ranges) and hand-built signed proposals mixing several explicit tasks and several ranges (empty range, single position, list boundaries), payload bytes incl. 0x00/0xff/JSON metacharacters/>64 KiB, names with spaces and unicode, duplicate payloads; n in {2,3}. For every message of every proposal: each participant's partial signature is verified (prysm) under that participant's share public key over the harness-expanded bytes; id lists, stored SrcPayload/File/ValIdx, broadcasts and exports are compared with the independent expansion. Every world ends with a signed batch proposed again under the same identifiers with other payloads plus one identifier nobody ever signed, unanswered: in stores, per-batch exports and the whole-round export a signature never stands next to bytes it does not verify for, and the never-answered message is exported with its own payload and no signature. A quarter of the worlds is operated through the dc4bc_cli binary (sign_batch_data on a directory with sub-directories), a quarter through REST; on every channel the tasks of the proposal on the board are compared with the files handed in (name -> bytes); payloads ending in line breaks. distinct = distinct (proposal shape, n) with at least one judged partial signature"
	c.Assumptions = []string{"independent expansion: pinned list + independent SSZ reference", "prysm/blst verifies partial signatures under PubPoly.Eval(i)"}
	worlds := c.Pick(32, 240)
	perWorld := c.Pick(6, 16)
	Parallel(worlds, 16, func(wi int) {
		seed := c.Seed*104729 + uint64(wi)
		r := sched.Derive(seed, 3)
		n := 2 + wi%2
		// one world in four is operated through the shipped dc4bc_cli binary (sign_batch_data reads the files
		// of a directory, sign_baked takes the window), another one through the REST API
		ce, err := NewCeremonyWith(world.Options{N: n, T: 2, Seed: seed, ViaHTTP: wi%4 >= 2, ViaCLI: wi%4 == 3 && world.CLIBin() != ""}, world.EagerPolicy)
		if err != nil || !ce.AllIn(StIdle) {
			c.Inconclusive("ceremony: %v", err)
			return
		}
		if ce.W.Opt.ViaCLI {
			c.Add("worlds_operated_through_the_dc4bc_cli_binary", 1)
		}
		defer ce.Close()
		_, poly, err := ce.GroupKeyFromMachines()
		if err != nil {
			c.Inconclusive("group key: %v", err)
			return
		}
		for pi := 0; pi < perWorld; pi++ {
			runC03Proposal(c, ce, poly, r, wi, pi)
		}
		c03Reproposed(c, ce, poly, r, wi)
	})
}

// oddIDs: message identifiers / file names with leading or trailing Unicode whitespace, control
// characters, case variants and path-like text (%d keeps them unique within a batch).
var oddIDs = []string{"\u3000leading-ideographic-space-%d", "trailing-nbsp-%d\u00a0", "\ttab-%d\t", " both-%d ", "line\nbreak-%d", "sep\u2028-%d", "\u00a0%d\u3000", "UPPER-lower-%d", "../up-%d", "0%d", "+%d", " %d", "dot.%d."}

func c03Payload(r *sched.Rng, kind int) []byte {
	switch kind % 8 {
	case 0:
		return []byte{0x00}
	case 1:
		return bytes.Repeat([]byte{0xff}, 1+r.Intn(40))
	case 2:
		return []byte(`","Payload":"AAAA"}],"x":[{"` + "\n\r\t\\")
	case 3:
		return r.Bytes(64*1024 + 1 + r.Intn(2000))
	case 4:
		return []byte("duplicate payload")
	case 5:
		// text as an editor leaves it (trailing line break), sometimes nothing but line breaks
		return []byte([]string{"\u00fcn\u00efc\u00f8d\u00e9 \u2192 \u6f22\u5b57 \u2028 end\n", "line one\r\nline two\r\n", "\n", "no break at the end"}[r.Intn(4)])
	case 6:
		return []byte{} // an empty file: still an explicit payload (zero bytes), not a range
	}
	return r.Bytes(1 + r.Intn(300))
}

func runC03Proposal(c *Ctx, ce *Ceremony, poly *share.PubPoly, r *sched.Rng, wi, pi int) {
	n := ce.N
	spec := BatchSpec{Proposer: r.Intn(n)}
	shape := ""
	switch pi % 4 {
	case 0: // API, explicit map
		spec.Data = map[string][]byte{}
		k := 1 + r.Intn(4)
		for i := 0; i < k; i++ {
			name := fmt.Sprintf("%s %d", fileNames[r.Intn(len(fileNames))], i)
			if r.Intn(3) == 0 {
				name = fmt.Sprintf(oddIDs[r.Intn(len(oddIDs))], i)
			}
			spec.Data[name] = c03Payload(r, r.Intn(8))
		}
		shape = fmt.Sprintf("api-explicit-%d", k)
	case 1: // API, baked range
		starts := []int{0, 2, 4, 7, 18631, 18629, 18622, r.Intn(18000)}
		lo := starts[r.Intn(len(starts))]
		hi := lo + 1 + r.Intn(3)
		if hi > 18632 {
			hi = 18632
		}
		spec.Range = &world.Range{Start: lo, End: hi}
		shape = fmt.Sprintf("api-range-%d", hi-lo)
	default: // hand-built mixture
		var tasks []requests.SigningTask
		k := 2 + r.Intn(4)
		for i := 0; i < k; i++ {
			switch r.Intn(5) {
			case 0: // empty range
				p := r.Intn(18632)
				tasks = append(tasks, requests.SigningTask{MessageID: fmt.Sprintf("t%d-empty", i), RangeStart: p, RangeEnd: p})
				shape += "E"
			case 1: // single position / boundary
				p := []int{0, 18631, r.Intn(18632)}[r.Intn(3)]
				tasks = append(tasks, requests.SigningTask{MessageID: fmt.Sprintf("t%d-one", i), RangeStart: p, RangeEnd: p + 1})
				shape += "S"
			case 2:
				// windows are drawn from a small pool so that successive proposals overlap
				p := []int{0, 3, 5, 8, 18620, 18625, r.Intn(18600)}[r.Intn(7)]
				tasks = append(tasks, requests.SigningTask{MessageID: fmt.Sprintf("t%d-range", i), RangeStart: p, RangeEnd: p + 2 + r.Intn(3)})
				shape += "R"
			default:
				id := fmt.Sprintf("id %d/%s", i, fileNames[r.Intn(len(fileNames))])
				if r.Intn(2) == 0 {
					// identifiers a normalising step would change: they are opaque and must survive as proposed
					id = fmt.Sprintf(oddIDs[r.Intn(len(oddIDs))], i)
					shape += "o"
				}
				tasks = append(tasks, requests.SigningTask{MessageID: id, File: fileNames[r.Intn(len(fileNames))], Payload: c03Payload(r, r.Intn(8))})
				shape += "X"
			}
		}
		// one identifier is deliberately re-used by every hand-built proposal of this world, each time
		// with another payload (identifiers are only unique within a batch)
		tasks = append(tasks, requests.SigningTask{MessageID: "shared-id", File: "shared", Payload: []byte(fmt.Sprintf("payload of proposal %d/%d", wi, pi))})
		shape += "+shared"
		m := HandBuiltProposal(ce.W.Nodes[spec.Proposer], ce.Round, fmt.Sprintf("hand-%d-%d", wi, pi), spec.Proposer, tasks)
		spec.Hand = &m
		shape = "hand-" + shape
	}
	wit := map[string]interface{}{"world": wi, "proposal": pi, "n": n, "shape": shape}
	before := ce.W.Board.Len()
	prop, err := ce.RunBatch(spec, world.EagerPolicy)
	if ce.ProposalMismatch != "" {
		c.Violate("C03/proposal-differs-from-what-was-handed-in", ce.ProposalMismatch, wit)
	}
	if err != nil {
		c.Inconclusive("batch %v: %v", wit, err)
		return
	}
	bid, exp, err := ExpandProposal(prop.Data)
	if err != nil {
		c.Inconclusive("expand: %v", err)
		return
	}
	c.Eval(1)
	if len(exp) == 0 {
		c.Add("proposals_expanding_to_nothing", 1)
		return
	}
	wit["batch"] = bid
	wit["messages"] = len(exp)
	expByID := map[string]ExpectedMsg{}
	var ids []string
	for _, e := range exp {
		expByID[e.ID] = e
		ids = append(ids, e.ID)
		if len(e.Payload) == 0 {
			c.Add("messages_with_a_zero_byte_payload", 1)
		}
	}
	judged := 0
	// (a) partial signatures on the board
	for _, m := range ce.W.Board.All()[before:] {
		if m.Event != EvPartialSign {
			continue
		}
		var req requests.SigningProposalBatchPartialSignRequests
		if json.Unmarshal(m.Data, &req) != nil || req.BatchID != bid {
			continue
		}
		var got []string
		for _, ps := range req.PartialSigns {
			got = append(got, ps.MessageID)
		}
		if fmt.Sprint(got) != fmt.Sprint(ids) {
			c.Violate("C03/participant-expanded-different-id-list", fmt.Sprintf("%s signed ids %v, proposal expands to %v", m.SenderAddr, trunc(fmt.Sprint(got), 120), trunc(fmt.Sprint(ids), 120)), wit)
			continue
		}
		for _, ps := range req.PartialSigns {
			if len(ps.Sign) < 3 {
				c.Violate("C03/partial-signature-malformed", m.SenderAddr, wit)
				continue
			}
			idx := int(binary.BigEndian.Uint16(ps.Sign[:2]))
			pk := oracle.PointBytes(poly.Eval(idx).V)
			ok, err := oracle.VerifyG2(pk, expByID[ps.MessageID].Payload, ps.Sign[2:])
			if err != nil || !ok {
				c.Violate("C03/partial-signature-not-over-proposed-bytes", fmt.Sprintf("%s message %q: partial signature does not verify over the proposed payload (err=%v)", m.SenderAddr, ps.MessageID, err), wit)
			}
			judged++
		}
	}
	// (b) stores, (c) export, (d) broadcasts
	cmp := func(where string, s fsmtypes.ReconstructedSignature) {
		e, ok := expByID[s.MessageID]
		if !ok {
			c.Violate("C03/entry-for-unproposed-id:"+where, s.MessageID, wit)
			return
		}
		if !bytes.Equal(s.SrcPayload, e.Payload) {
			c.Violate("C03/stored-payload-differs:"+where, fmt.Sprintf("message %q", s.MessageID), wit)
		}
		if s.File != e.File {
			c.Violate("C03/stored-file-differs:"+where, fmt.Sprintf("message %q: %q vs %q", s.MessageID, s.File, e.File), wit)
		}
		if s.ValIdx != e.ValIdx {
			c.Violate("C03/stored-validator-index-differs:"+where, fmt.Sprintf("message %q: %d vs %d", s.MessageID, s.ValIdx, e.ValIdx), wit)
		}
		if s.BatchID != bid {
			c.Violate("C03/stored-batch-differs:"+where, s.BatchID, wit)
		}
	}
	for _, nd := range ce.W.Nodes {
		batch := SigStore(nd, ce.Round)[bid]
		if len(batch) != len(expByID) {
			c.Violate("C03/store-message-set-differs", fmt.Sprintf("%s stores %d ids for a proposal of %d", nd.Name, len(batch), len(expByID)), wit)
		}
		for _, entries := range batch {
			for _, s := range entries {
				cmp("store", s)
			}
		}
		ex, err := utils.PrepareSignaturesToDump(batch)
		if err != nil {
			c.Violate("C03/export-fails", err.Error(), wit)
			continue
		}
		for id, ent := range *ex {
			e := expByID[id]
			if !bytes.Equal(ent.Payload, e.Payload) || ent.File != e.File {
				c.Violate("C03/export-differs-from-proposal", fmt.Sprintf("%s message %q", nd.Name, id), wit)
			}
		}
	}
	for _, m := range ce.W.Board.All()[before:] {
		if m.Event != EvSigRecon {
			continue
		}
		var sigs []fsmtypes.ReconstructedSignature
		if json.Unmarshal(m.Data, &sigs) != nil {
			continue
		}
		for _, s := range sigs {
			if s.BatchID == bid {
				cmp("broadcast", s)
			}
		}
	}
	// the expansion must not depend on what this process expanded before: re-expand fixed windows around
	// the pool through the real function and compare with the independent expansion
	for _, win := range [][2]int{{0, 14}, {18618, 18632}} {
		got, err := requests.TasksToMessages([]requests.SigningTask{{MessageID: "probe", RangeStart: win[0], RangeEnd: win[1]}})
		c.Eval(1)
		if err != nil {
			c.Violate("C03/expansion-of-a-valid-range-fails", fmt.Sprintf("%v: %v", win, err), wit)
			continue
		}
		for k, m := range got {
			idx, _ := oracle.BakedIndex(win[0] + k)
			root := oracle.RefSigningRoot(idx)
			if m.MessageID != fmt.Sprint(idx) || !bytes.Equal(m.Payload, root[:]) || m.File != fmt.Sprintf("bakedrange%d", win[0]+k) {
				c.Violate("C03/expansion-depends-on-process-history", fmt.Sprintf("after this proposal, position %d expands to id=%q file=%q instead of validator %d", win[0]+k, m.MessageID, m.File, idx), wit)
				break
			}
		}
		if len(got) != win[1]-win[0] {
			c.Violate("C03/expansion-length", fmt.Sprintf("%v expands to %d messages", win, len(got)), wit)
		}
	}
	c.Add("partial_signatures_judged", judged)
	c.Add("messages_judged", len(exp))
	if judged > 0 {
		c.Distinct(fmt.Sprintf("n%d %s", n, shape))
	}
	if pi < 3 && wi == 0 {
		c.Sample(map[string]interface{}{"case": wit, "ids": trunc(fmt.Sprint(ids), 200)})
	}
}

var _ = storage.Message{}

// c03Reproposed: at the end of a world, a signed batch is proposed AGAIN by its proposer under the same
// batch id and the same message identifiers but with other payloads (identifiers are the proposer's
// choice), and nobody answers. Whatever the nodes now store, export and serve for these identifiers, a
// signature value must never stand next to bytes it was not made for.
func c03Reproposed(c *Ctx, ce *Ceremony, poly *share.PubPoly, r *sched.Rng, wi int) {
	w := ce.W
	var first *storage.Message
	all := w.Board.All()
	for i := len(all) - 1; i >= 0 && first == nil; i-- {
		if all[i].Event == EvSigningStart && all[i].DkgRoundID == ce.Round {
			var req requests.SigningBatchProposalStartRequest
			if json.Unmarshal(all[i].Data, &req) != nil {
				continue
			}
			explicit := len(req.SigningTasks) > 0
			for _, tk := range req.SigningTasks {
				if len(tk.Payload) == 0 {
					explicit = false
				}
			}
			if explicit && len(SigStore(w.Nodes[0], ce.Round)[req.BatchID]) > 0 {
				first = &all[i]
			}
		}
	}
	if first == nil || !ce.AllIn(StIdle) {
		return
	}
	var req requests.SigningBatchProposalStartRequest
	_ = json.Unmarshal(first.Data, &req)
	for i := range req.SigningTasks {
		req.SigningTasks[i].Payload = append([]byte("re-proposed with other content: "), r.Bytes(12)...)
	}
	// ... plus one identifier nobody has ever signed anything for
	fresh := requests.SigningTask{MessageID: "never-signed-" + trunc(req.BatchID, 6), File: "never-signed", Payload: append([]byte("proposed, never answered: "), r.Bytes(10)...)}
	req.SigningTasks = append(req.SigningTasks, fresh)
	req.CreatedAt = now()
	var proposer *world.Node
	for _, nd := range w.Nodes {
		if nd.Name == first.SenderAddr {
			proposer = nd
		}
	}
	if proposer == nil {
		return
	}
	_ = w.Board.Send(world.SignMsg(proposer, ce.Round, EvSigningStart, mkReq(req), ""))
	w.OpFilter = func(nd *world.Node, op *types.Operation) bool { return string(op.Type) != OpSigning }
	w.Run(world.EagerPolicy, 2000)
	w.OpFilter = nil
	key := oracle.PointBytes(poly.Commit())
	wit := map[string]interface{}{"world": wi, "n": ce.N, "batch": req.BatchID, "scenario": "signed batch proposed again under the same identifiers with other payloads, unanswered"}
	c.Eval(1)
	c.Distinct(fmt.Sprintf("re-proposed-same-ids|n%d", ce.N))
	c.Add("batches_re-proposed_under_the_same_identifiers", 1)
	judge := func(where string, payload, sig []byte, id string) {
		if len(sig) == 0 {
			return
		}
		if ok, _ := oracle.VerifyG2(key, payload, sig); !ok {
			c.Violate("C03/signature-next-to-bytes-it-was-not-made-for:"+where, fmt.Sprintf("message %q of batch %s: the %s shows a signature together with a payload it does not verify for", id, trunc(req.BatchID, 8), where), wit)
		}
	}
	for _, nd := range w.Nodes {
		batch := SigStore(nd, ce.Round)[req.BatchID]
		for id, entries := range batch {
			for _, e := range entries {
				judge("store", e.SrcPayload, e.Signature, id)
			}
		}
		if ex, err := utils.PrepareSignaturesToDump(batch); err == nil {
			for id, ent := range *ex {
				judge("export", ent.Payload, ent.Signature, id)
			}
		}
		// the dump `dc4bc_cli export_signatures` writes: all batches of the round flattened by message id,
		// signed and unsigned messages side by side
		flat := map[string][]fsmtypes.ReconstructedSignature{}
		for _, msgs := range SigStore(nd, ce.Round) {
			for id, entries := range msgs {
				flat[id] = entries
			}
		}
		ex, err := utils.PrepareSignaturesToDump(flat)
		if err != nil {
			c.Violate("C03/export-fails", err.Error(), wit)
			continue
		}
		for id, ent := range *ex {
			judge("export-of-the-whole-round", ent.Payload, ent.Signature, id)
		}
		if ent, ok := (*ex)[fresh.MessageID]; !ok {
			c.Violate("C03/export-differs-from-proposal", fmt.Sprintf("%s: the export of the whole round lacks the proposed, unanswered message %q", nd.Name, fresh.MessageID), wit)
		} else if !bytes.Equal(ent.Payload, fresh.Payload) || len(ent.Signature) != 0 {
			c.Violate("C03/export-differs-from-proposal", fmt.Sprintf("%s: message %q was proposed and never answered; the export of the whole round shows it with %d signature bytes and a payload that is %s the proposed one", nd.Name, fresh.MessageID, len(ent.Signature), map[bool]string{true: "", false: "not "}[bytes.Equal(ent.Payload, fresh.Payload)]), wit)
		}
	}
}
