package props

import (
	"bytes"
	"encoding/json"
	"fmt"
	"strings"
	"time"

	"github.com/corestario/kyber/share"
	"github.com/corestario/kyber/sign/tbls"

	"github.com/lidofinance/dc4bc/client/types"
	"github.com/lidofinance/dc4bc/dkg"
	"github.com/lidofinance/dc4bc/fsm/types/requests"

	"verifharness/oracle"
	"verifharness/sched"
	"verifharness/world"
)

// C02: key generation ends with one group key and mutually consistent shares.
func init() { Register("C02", "exploration", checkC02) }

// judgeKeyMaterial applies the C02 invariant to a world in which at least one node is
// signing-ready. prefix is the finding-key prefix, so C11/C12/C20 can reuse the invariant.
func judgeKeyMaterial(c *Ctx, ce *Ceremony, prefix string, wit interface{}) bool {
	ok := true
	bad := func(key, what string) {
		ok = false
		c.Violate(prefix+"/"+key, what, wit)
	}
	n, t := ce.N, ce.T
	var ref [][]byte
	var refPoly *share.PubPoly
	var krs []*dkg.BLSKeyring
	for _, nd := range ce.W.Nodes {
		kr, err := Keyring(nd, ce.Round)
		if err != nil || kr == nil {
			bad("machine-without-keyring", fmt.Sprintf("%s: signing-ready round but machine holds no keyring (%v)", nd.Name, err))
			return false
		}
		krs = append(krs, kr)
		cs := oracle.CommitsBytes(kr.PubPoly)
		if ref == nil {
			ref, refPoly = cs, kr.PubPoly
		} else if !eqCommits(ref, cs) {
			bad("machines-hold-different-polynomials", fmt.Sprintf("%s differs from %s", nd.Name, ce.W.Nodes[0].Name))
		}
		if len(cs) != t {
			bad("polynomial-degree", fmt.Sprintf("%s: %d commitments for threshold %d", nd.Name, len(cs), t))
		}
		// share lies on the polynomial
		pub := oracle.NewSuite().Point().Mul(kr.Share.V, nil)
		if !pub.Equal(kr.PubPoly.Eval(kr.Share.I).V) {
			bad("share-not-on-polynomial", fmt.Sprintf("%s: share index %d", nd.Name, kr.Share.I))
		}
	}
	groupKey := oracle.PointBytes(refPoly.Commit())
	// announced master keys (board + what nodes recorded)
	for _, m := range BoardMsgs(ce.W, ce.Round, EvMasterKey) {
		var req requests.DKGProposalMasterKeyConfirmationRequest
		if json.Unmarshal(m.Data, &req) == nil && !bytes.Equal(req.MasterKey, groupKey) {
			bad("announced-key-differs-from-constant-term", fmt.Sprintf("announcement by %s", m.SenderAddr))
		}
	}
	for _, nd := range ce.W.Nodes {
		if NodeState(nd, ce.Round) != StIdle {
			continue
		}
		v := View(nd, ce.Round)
		for id, p := range v.Payload.DKGProposalPayload.Quorum {
			if !bytes.Equal(p.DkgMasterKey, groupKey) {
				bad("recorded-key-differs-from-constant-term", fmt.Sprintf("%s participant %s", nd.Name, id))
			}
		}
		hp, err := HotPoly(nd, ce.Round)
		if err != nil {
			bad("hot-polynomial-unreadable", fmt.Sprintf("%s: %v", nd.Name, err))
			continue
		}
		if !eqCommits(oracle.CommitsBytes(hp), ref) {
			bad("hot-polynomial-differs-from-machines", fmt.Sprintf("%s is signing-ready holding a polynomial different from the one the machines hold", nd.Name))
		}
		if v.Payload.Threshold != t {
			bad("hot-threshold", fmt.Sprintf("%s threshold %d", nd.Name, v.Payload.Threshold))
		}
	}
	// any t shares sign consistently; t-1 cannot
	suite := oracle.NewSuite()
	msg := []byte("c02-consistency-probe")
	var full0 []byte
	subs := sched.Subsets(n, t)
	for si, s := range subs {
		if len(s) != t || (si > 12 && si%7 != 0) {
			continue
		}
		var parts [][]byte
		for _, i := range s {
			ps, err := tbls.Sign(suite, krs[i].Share, msg)
			if err != nil {
				bad("share-cannot-sign", err.Error())
				continue
			}
			parts = append(parts, ps)
		}
		full, err := tbls.Recover(suite, refPoly, msg, parts, t, n)
		if err != nil {
			bad("t-shares-do-not-combine", fmt.Sprintf("subset %v: %v", s, err))
			continue
		}
		if okv, _ := oracle.VerifyG2(groupKey, msg, full); !okv {
			bad("t-shares-give-invalid-signature", fmt.Sprintf("subset %v", s))
		}
		if full0 == nil {
			full0 = full
		} else if !bytes.Equal(full0, full) {
			bad("subsets-give-different-signatures", fmt.Sprintf("subset %v", s))
		}
		c.Add("subsets_signed", 1)
	}
	if t > 1 {
		var parts [][]byte
		for i := 0; i < t-1; i++ {
			ps, _ := tbls.Sign(suite, krs[i].Share, msg)
			parts = append(parts, ps)
		}
		if _, err := tbls.Recover(suite, refPoly, msg, parts, t, n); err == nil {
			bad("t-minus-1-shares-combine", "Recover succeeded with t-1 shares")
		}
		if full, err := tbls.Recover(suite, refPoly, msg, parts, t-1, n); err == nil {
			if okv, _ := oracle.VerifyG2(groupKey, msg, full); okv {
				bad("t-minus-1-shares-give-valid-signature", "")
			}
		}
	}
	return ok
}

// c02SeveralRounds: the same nodes and machines complete several rounds (different thresholds; round
// identifiers that are near-duplicates of each other: trailing/leading whitespace, case, a prefix); the
// C02 invariant must hold for every one of them afterwards - nothing a later round stores may displace
// what an earlier one holds.
func c02SeveralRounds(c *Ctx) {
	reps := c.Pick(3, 20)
	Parallel(reps, 6, func(rep int) {
		seed := c.Seed*191 + uint64(rep)
		n := 3 + rep%2
		w, err := world.NewWorld(world.Options{N: n, T: 2, Seed: seed})
		if err != nil {
			c.Inconclusive("several-rounds world: %v", err)
			return
		}
		defer w.Close()
		base := fmt.Sprintf("%064x", seed*0x9E3779B97F4A7C15)
		base = "c0de" + base[4:] // at least one letter: the upper-cased variant below must be another string
		ids := []string{base, base + " ", strings.ToUpper(base), " " + base, base[:40]}
		ths := []int{2, 3, n, 2, 3}
		var ces []*Ceremony
		for k := 0; k < 3+rep%3 && k < len(ids); k++ {
			m := world.SignMsg(w.Nodes[k%n], ids[k], EvInit, w.InitPayload(ths[k], now().Add(time.Duration(k)*time.Second)), "")
			if err := w.Board.Send(m); err != nil {
				c.Inconclusive("several-rounds world: %v", err)
				return
			}
			if rep%2 == 0 {
				w.Run(world.RandomPolicy, 8000) // one after the other; odd reps run them concurrently
			}
			ces = append(ces, &Ceremony{W: w, N: n, T: ths[k], Round: ids[k]})
		}
		w.Run(world.RandomPolicy, 12000)
		for k, ce := range ces {
			wit := map[string]interface{}{"family": "several rounds on the same machines", "n": n, "round_ids": ids[:len(ces)], "thresholds": ths[:len(ces)], "judged_round": k, "case_seed": seed}
			c.Eval(1)
			c.Distinct(fmt.Sprintf("several-rounds n%d rep%d round%d", n, rep, k))
			if !ce.AllIn(StIdle) {
				c.Violate("C02/honest-key-generation-stalls", fmt.Sprintf("round %d (%q) of several on the same machines ended %v", k, ids[k], ce.States()), wit)
				continue
			}
			if judgeKeyMaterial(c, ce, "C02", wit) {
				c.Add("rounds_judged_on_machines_holding_several", 1)
			}
		}
	})
}

func checkC02(c *Ctx) {
	defer c02SeveralRounds(c)
	defer c02KeyringCodec(c)
	c.Rule = "full key generations for all (n,t), n<=5, under seeded random schedules (answer order per phase, poll splits, lagging nodes), judged by group arithmetic on public values + machine keyrings + prysm; plus the deviating-announcement family: one participant's key announcement rewritten between machine and node (different well-formed polynomial with the same constant term / no polynomial / different key), delivered first, in the middle or last. Fault family keystore-fails: one machine's key store (LevelDB handle) is closed right before the last operation of the ceremony and reopened afterwards; the invariant is judged on every signing-ready node. Family forged: the deviant also announces in everybody else's name (own signature and sender name) with a polynomial of his choosing, before the honest announcements. Keyring codec: for t = 1..40 a keyring built with kyber's own arithmetic goes through the machine's store format and the announcement format and must come back with the same commitments, a share on the polynomial, and t shares that combine. distinct = distinct (n,t,family,deviant,position) cases"
	c.Assumptions = []string{"kyber group arithmetic for public-value checks", "prysm/blst as signature judge", "machines' keyrings read with the harness-known password"}
	cases := ntCases(5)
	reps := c.Pick(10, 150)
	type job struct {
		n, t   int
		rep    int
		family string // honest | poly | key
		dev    int
		pos    int // 0 first, 1 middle, 2 last
	}
	var jobs []job
	for _, nt := range cases {
		for r := 0; r < reps; r++ {
			jobs = append(jobs, job{nt.N, nt.T, r, "honest", 0, 0})
		}
	}
	for _, nt := range cases {
		if nt.N > c.Pick(3, 5) {
			continue
		}
		for dev := 0; dev < nt.N; dev++ {
			for pos := 0; pos < 3; pos++ {
				jobs = append(jobs, job{nt.N, nt.T, 0, "poly", dev, pos}, job{nt.N, nt.T, 0, "key", dev, pos}, job{nt.N, nt.T, 0, "nopoly", dev, pos})
				if pos == 0 {
					jobs = append(jobs, job{nt.N, nt.T, 0, "forged", dev, pos})
				}
				if pos == 2 || c.Thorough() {
					jobs = append(jobs, job{nt.N, nt.T, 0, "polyext", dev, pos}, job{nt.N, nt.T, 0, "polycut", dev, pos}, job{nt.N, nt.T, 0, "polyswap", dev, pos})
				}
			}
		}
	}
	// the key store of one machine fails while it handles the last operation of the ceremony
	for _, nt := range cases {
		if nt.N > c.Pick(3, 5) {
			continue
		}
		for dev := 0; dev < nt.N; dev++ {
			if !c.Thorough() && dev != (nt.N+nt.T+int(c.Seed))%nt.N {
				continue
			}
			for pos := 0; pos < 3; pos++ {
				jobs = append(jobs, job{nt.N, nt.T, 0, "keystore-fails", dev, pos})
			}
		}
	}
	Parallel(len(jobs), 16, func(i int) {
		jb := jobs[i]
		seed := c.Seed*7919 + uint64(i)*31 + uint64(jb.rep)
		wit := map[string]interface{}{"n": jb.n, "t": jb.t, "family": jb.family, "deviant": jb.dev, "position": jb.pos, "case_seed": seed}
		if jb.family == "honest" {
			ce, err := NewCeremony(seed, jb.n, jb.t, world.RandomPolicy)
			if err != nil {
				c.Violate("C02/honest-key-generation-stalls", err.Error(), wit)
				return
			}
			defer ce.Close()
			c.Eval(1)
			c.Distinct(fmt.Sprintf("honest n%d t%d rep%d", jb.n, jb.t, jb.rep))
			if !ce.AllIn(StIdle) {
				c.Violate("C02/honest-key-generation-not-signing-ready", fmt.Sprint(ce.States()), wit)
				return
			}
			judgeKeyMaterial(c, ce, "C02", wit)
			c.Add("signing_ready_worlds_judged", 1)
			if jb.rep == 0 && jb.t == 2 {
				c.Sample(map[string]interface{}{"case": wit, "board_len": ce.W.Board.Len(), "states": ce.States()})
			}
			return
		}
		runC02Deviant(c, jb.n, jb.t, jb.family, jb.dev, jb.pos, seed, wit)
	})
}

// otherPoly returns a PubPolyBz with the same constant term but a different higher coefficient.
func otherPoly(orig []byte) ([]byte, error) {
	kr, err := dkg.LoadPubPolyBLSKeyringFromBytes(oracle.NewSuite(), orig)
	if err != nil {
		return nil, err
	}
	_, cs := kr.PubPoly.Info()
	if len(cs) < 2 {
		return nil, fmt.Errorf("polynomial too short")
	}
	cs[1] = oracle.NewSuite().Point().Add(cs[1], oracle.NewSuite().Point().Base())
	nk := &dkg.BLSKeyring{PubPoly: share.NewPubPoly(oracle.NewSuite(), nil, cs)}
	return nk.PubPolyBytes()
}

// reshapedPoly returns the polynomial with its commitment list lengthened by one valid point ("ext"),
// shortened by one ("cut"), or with the last two commitments swapped ("swap"): same constant term.
func reshapedPoly(orig []byte, how string) ([]byte, error) {
	kr, err := dkg.LoadPubPolyBLSKeyringFromBytes(oracle.NewSuite(), orig)
	if err != nil {
		return nil, err
	}
	_, cs := kr.PubPoly.Info()
	if len(cs) < 2 {
		return nil, fmt.Errorf("polynomial too short")
	}
	switch how {
	case "ext":
		cs = append(cs, oracle.NewSuite().Point().Add(cs[len(cs)-1], oracle.NewSuite().Point().Base()))
	case "cut":
		cs = cs[:len(cs)-1]
	case "swap":
		if len(cs) < 3 {
			cs = append(cs, cs[1])
		}
		cs[len(cs)-1], cs[len(cs)-2] = cs[len(cs)-2], cs[len(cs)-1]
	}
	nk := &dkg.BLSKeyring{PubPoly: share.NewPubPoly(oracle.NewSuite(), nil, cs)}
	return nk.PubPolyBytes()
}

func runC02Deviant(c *Ctx, n, t int, family string, dev, pos int, seed uint64, wit map[string]interface{}) {
	w, err := world.NewWorld(world.Options{N: n, T: t, Seed: seed, OddNames: seed%3 == 1})
	if err != nil {
		c.Inconclusive("world: %v", err)
		return
	}
	ce := &Ceremony{W: w, N: n, T: t}
	defer ce.Close()
	ce.Round, err = w.StartDKG(0, t, now())
	if err != nil {
		c.Inconclusive("start: %v", err)
		return
	}
	rewritten := false
	w.ResultHook = func(nd *world.Node, req, res *types.Operation) *types.Operation {
		if string(req.Type) != OpMasterKey || nd.Idx != dev || len(res.ResultMsgs) != 1 {
			return res
		}
		var r requests.DKGProposalMasterKeyConfirmationRequest
		if json.Unmarshal(res.ResultMsgs[0].Data, &r) != nil {
			return res
		}
		switch family {
		case "poly":
			np, err := otherPoly(r.PubPolyBz)
			if err != nil {
				return res
			}
			r.PubPolyBz = np
		case "polyext", "polycut", "polyswap":
			np, err := reshapedPoly(r.PubPolyBz, family[4:])
			if err != nil {
				return res
			}
			r.PubPolyBz = np
		case "forged":
			// the deviant also announces in everybody else's name (his own signature, his own sender name), with
			// a polynomial of his choosing, before the honest announcements
			np, err := otherPoly(r.PubPolyBz)
			if err != nil {
				return res
			}
			for _, o := range w.Nodes {
				if o.Idx == dev {
					continue
				}
				fr := r
				fr.ParticipantId = o.Idx
				fr.PubPolyBz = np
				bz, _ := json.Marshal(fr)
				_ = w.Board.Send(world.SignMsg(nd, req.DKGIdentifier, EvMasterKey, bz, ""))
			}
			r.PubPolyBz = np
		case "nopoly":
			r.PubPolyBz = nil
		case "key":
			r.MasterKey = oracle.PointBytes(oracle.NewSuite().Point().Pick(oracle.NewSuite().RandomStream()))
		}
		res.ResultMsgs[0].Data, _ = json.Marshal(r)
		rewritten = true
		return res
	}
	if family == "keystore-fails" {
		// not a deviating participant but a fault: the machine's key store goes away right before the last
		// operation is handled (medium unplugged / full / read-only) and is back afterwards; the operator
		// carries whatever result file the machine produced to the node, as usual
		w.ResultHook = nil
		w.ColdHook = func(nd *world.Node, op *types.Operation) (*types.Operation, error) {
			if string(op.Type) != OpMasterKey || nd.Idx != dev || rewritten || nd.Cold == nil {
				return nil, nil
			}
			rewritten = true
			world.CloseColdDB(nd.Cold)
			res, rerr := func() (r *types.Operation, e error) {
				defer func() {
					if p := recover(); p != nil {
						e = fmt.Errorf("PANIC in the machine: %v", p)
					}
				}()
				return w.ColdResult(nd, op, false)
			}()
			nm, err := world.OpenCold(nd.ColdDir, nd.Mnemonic, world.Password)
			if err != nil {
				c.Inconclusive("keystore-fails: the machine does not reopen: %v", err)
				return res, rerr
			}
			nd.AbandonCold(nm)
			wit["machine_result"] = fmt.Sprintf("%v / %v", func() interface{} {
				if res != nil {
					return res.Event
				}
				return nil
			}(), rerr)
			if rerr != nil {
				// no result file at all: the operator has nothing to carry back
				return nil, rerr
			}
			return res, nil
		}
	}
	// position of the deviant announcement among the n announcements
	want := []int{0, (n - 1) / 2, n - 1}[pos]
	w.OpFilter = func(nd *world.Node, op *types.Operation) bool {
		if string(op.Type) != OpMasterKey {
			return true
		}
		have := len(BoardMsgs(w, ce.Round, EvMasterKey))
		if nd.Idx == dev {
			return have >= want
		}
		// honest announcers wait for the deviant when it has to come earlier
		if have >= want && !rewritten {
			return false
		}
		return true
	}
	_, q := w.Run(world.RandomPolicy, 4000)
	c.Eval(1)
	c.Distinct(fmt.Sprintf("%s n%d t%d dev%d pos%d", family, n, t, dev, pos))
	if !q || !rewritten {
		c.Inconclusive("deviant world n=%d t=%d %s dev=%d pos=%d: quiescent=%v rewritten=%v", n, t, family, dev, pos, q, rewritten)
		return
	}
	ready := 0
	for _, s := range ce.States() {
		if s == StIdle {
			ready++
		}
	}
	wit["states"] = ce.States()
	if family == "key" {
		if ready > 0 {
			c.Violate("C02/differing-announced-key-still-signing-ready", fmt.Sprintf("%d node(s) signing-ready although participant %d announced a different group key", ready, dev), wit)
		}
		c.Add("differing_key_worlds_cancelled", 1)
		return
	}
	if ready > 0 {
		// the property's invariant must hold on every signing-ready round
		if !judgeKeyMaterial(c, ce, "C02", wit) {
			return
		}
	}
	c.Add("deviating_polynomial_worlds", 1)
	if pos == 2 && dev == 0 {
		c.Sample(map[string]interface{}{"case": wit, "signing_ready_nodes": ready})
	}
}

// c02KeyringCodec: what a machine stores and what a hot node retains goes through the keyring codec
// (dkg.BLSKeyring.Bytes / PubPolyBytes and their loaders). For thresholds far beyond the ceremonies played
// above (t = 1..40; a real ceremony with 40 machines is out of reach of the quick tier) a keyring built
// with kyber's own polynomial arithmetic must come back unchanged: same number of commitments, same
// points, a share that still lies on the polynomial, and t shares that still sign.
func c02KeyringCodec(c *Ctx) {
	suite := oracle.NewSuite()
	for t := 1; t <= 40; t++ {
		n := t + 2
		pri := share.NewPriPoly(suite, t, nil, suite.RandomStream())
		pub := pri.Commit(nil)
		shares := pri.Shares(n)
		want := oracle.CommitsBytes(pub)
		wit := map[string]interface{}{"family": "keyring codec", "threshold": t}
		c.Eval(1)
		c.Distinct(fmt.Sprintf("keyring-codec|t%d", t))
		kr := &dkg.BLSKeyring{PubPoly: pub, Share: shares[t%n]}
		full, err := kr.Bytes()
		if err != nil {
			c.Violate("C02/keyring-codec", fmt.Sprintf("t=%d: Bytes: %v", t, err), wit)
			continue
		}
		back, err := dkg.LoadBLSKeyringFromBytes(suite, full)
		if err != nil {
			c.Violate("C02/keyring-codec", fmt.Sprintf("t=%d: LoadBLSKeyringFromBytes: %v", t, err), wit)
			continue
		}
		if got := oracle.CommitsBytes(back.PubPoly); !eqCommits(got, want) {
			c.Violate("C02/machines-hold-different-polynomials", fmt.Sprintf("a keyring with %d commitments comes back from the machine's store format with %d (or other points)", len(want), len(got)), wit)
		}
		if back.Share == nil || back.Share.I != kr.Share.I || !back.Share.V.Equal(kr.Share.V) {
			c.Violate("C02/keyring-codec", fmt.Sprintf("t=%d: the share changes in the store format", t), wit)
		} else if !suite.Point().Mul(back.Share.V, nil).Equal(back.PubPoly.Eval(back.Share.I).V) {
			c.Violate("C02/share-not-on-polynomial", fmt.Sprintf("t=%d: after loading, the share does not lie on the loaded polynomial", t), wit)
		}
		pbz, err := kr.PubPolyBytes()
		if err != nil {
			c.Violate("C02/keyring-codec", fmt.Sprintf("t=%d: PubPolyBytes: %v", t, err), wit)
			continue
		}
		hot, err := dkg.LoadPubPolyBLSKeyringFromBytes(suite, pbz)
		if err != nil {
			c.Violate("C02/hot-polynomial-unreadable", fmt.Sprintf("t=%d: %v", t, err), wit)
			continue
		}
		if got := oracle.CommitsBytes(hot.PubPoly); !eqCommits(got, want) {
			c.Violate("C02/hot-polynomial-differs-from-machines", fmt.Sprintf("the announced polynomial (%d commitments) is read back by a hot node with %d (or other points)", len(want), len(got)), wit)
			continue
		}
		// t shares sign under the polynomial as the hot node reads it
		msg := []byte("c02-codec-probe")
		var parts [][]byte
		for i := 0; i < t; i++ {
			ps, err := tbls.Sign(suite, shares[i], msg)
			if err != nil {
				break
			}
			parts = append(parts, ps)
		}
		if _, err := tbls.Recover(suite, hot.PubPoly, msg, parts, t, n); err != nil {
			c.Violate("C02/t-shares-do-not-combine", fmt.Sprintf("t=%d: under the polynomial as read back by the hot node: %v", t, err), wit)
		}
		c.Add("keyring_codec_round_trips", 1)
	}
}
