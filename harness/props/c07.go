package props

import (
	"bytes"
	"encoding/json"
	"fmt"
	"sort"
	"strings"
	"time"

	"github.com/lidofinance/dc4bc/client/types"
	"github.com/lidofinance/dc4bc/storage"
	"github.com/lidofinance/dc4bc/fsm/types/requests"

	"verifharness/oracle"
	"verifharness/sched"
	"verifharness/world"
)

// C07: every batch signed by t honest participants is reconstructed on every node.
// Liveness, decided in its bounded form: after the schedule was played and every node polled to the
// end of the board with no pending answer of a non-slow participant left, every node stores a valid
// signature for every message of every batch that received >= t answers, and is signing-idle.
func init() { Register("C07", "exploration", checkC07) }

type c07Token struct {
	Kind  string // P (proposal) | A (answer)
	Batch int
	Node  int
}

func (t c07Token) String() string {
	if t.Kind == "P" {
		return fmt.Sprintf("P%d", t.Batch)
	}
	return fmt.Sprintf("A%d.%d", t.Node, t.Batch)
}

// enumOrders enumerates all causally feasible board orders of the primary messages:
// P_k before its answers; P_{k+1} only after >= t answers of batch k are on the board (the API
// refuses to propose while the proposer is collecting); answers may trail arbitrarily.
func enumOrders(n, t, batches int, answerSets [][]int) [][]c07Token {
	var all []c07Token
	for k := 1; k <= batches; k++ {
		all = append(all, c07Token{"P", k, 0})
		for _, j := range answerSets[k-1] {
			all = append(all, c07Token{"A", k, j})
		}
	}
	var out [][]c07Token
	used := make([]bool, len(all))
	var cur []c07Token
	var rec func()
	rec = func() {
		if len(cur) == len(all) {
			out = append(out, append([]c07Token{}, cur...))
			return
		}
		proposed := map[int]bool{}
		answers := map[int]int{}
		for _, tk := range cur {
			if tk.Kind == "P" {
				proposed[tk.Batch] = true
			} else {
				answers[tk.Batch]++
			}
		}
		for i, tk := range all {
			if used[i] {
				continue
			}
			if tk.Kind == "P" {
				if tk.Batch > 1 && (!proposed[tk.Batch-1] || answers[tk.Batch-1] < t) {
					continue
				}
				if tk.Batch > 1 && !proposed[tk.Batch-1] {
					continue
				}
			} else if !proposed[tk.Batch] {
				continue
			}
			used[i] = true
			cur = append(cur, tk)
			rec()
			cur = cur[:len(cur)-1]
			used[i] = false
		}
	}
	rec()
	return out
}

type c07World struct {
	ce    *Ceremony
	snaps []map[string][]byte
	board int
	key   []byte
}

// ageRound moves every timestamp stored for the round back by age on every node: the state a node
// holds when the key generation took place that long ago.
func ageRound(ce *Ceremony, age time.Duration) error {
	var shift func(v interface{}) interface{}
	shift = func(v interface{}) interface{} {
		switch t := v.(type) {
		case map[string]interface{}:
			for k, x := range t {
				t[k] = shift(x)
			}
		case []interface{}:
			for i, x := range t {
				t[i] = shift(x)
			}
		case string:
			if ts, err := time.Parse(time.RFC3339Nano, t); err == nil && !ts.IsZero() {
				return ts.Add(-age).Format(time.RFC3339Nano)
			}
		}
		return v
	}
	for _, nd := range ce.W.Nodes {
		key := world.Topic + "_fsm_state"
		bz, err := nd.State.Get(key)
		if err != nil {
			return err
		}
		var m map[string][]byte
		if err := json.Unmarshal(bz, &m); err != nil {
			return err
		}
		dec := json.NewDecoder(bytes.NewReader(m[ce.Round]))
		dec.UseNumber()
		var dump interface{}
		if err := dec.Decode(&dump); err != nil {
			return err
		}
		m[ce.Round], _ = json.Marshal(shift(dump))
		out, _ := json.Marshal(m)
		if err := nd.State.Set(key, out); err != nil {
			return err
		}
	}
	return nil
}

func newC07World(seed uint64, n, t int) (*c07World, error) { return newC07WorldAged(seed, n, t, 0) }

// newC07WorldAged: the key generation was completed `age` ago.
func newC07WorldAged(seed uint64, n, t int, age time.Duration) (*c07World, error) {
	// odd seeds: proposals, operation lists and answers go through the REST API
	ce, err := NewCeremonyVia(seed, n, t, world.EagerPolicy, seed%2 == 1)
	if err != nil {
		return nil, err
	}
	if !ce.AllIn(StIdle) {
		ce.Close()
		return nil, fmt.Errorf("ceremony: %v", ce.States())
	}
	key, _, err := ce.GroupKeyFromMachines()
	if err != nil {
		ce.Close()
		return nil, err
	}
	if age > 0 {
		if err := ageRound(ce, age); err != nil {
			ce.Close()
			return nil, fmt.Errorf("ageing the round: %w", err)
		}
		if !ce.AllIn(StIdle) {
			ce.Close()
			return nil, fmt.Errorf("aged ceremony: %v", ce.States())
		}
	}
	cw := &c07World{ce: ce, board: ce.W.Board.Len(), key: key}
	for _, nd := range ce.W.Nodes {
		cw.snaps = append(cw.snaps, nd.Mem.Snapshot())
	}
	return cw, nil
}

func (cw *c07World) reset() {
	for i, nd := range cw.ce.W.Nodes {
		nd.Mem.Restore(cw.snaps[i])
		nd.ResultCache = map[string][]byte{}
	}
	cw.ce.W.Board.Truncate(cw.board)
}

func (cw *c07World) pollAll(lazy *sched.Rng) {
	w := cw.ce.W
	for round := 0; round < 50; round++ {
		progressed := false
		for _, nd := range w.Nodes {
			if int(nd.Offset()) < w.Board.Len() {
				if lazy != nil && lazy.Intn(3) == 0 {
					continue // this node lags for now
				}
				upto := 0
				if lazy != nil && lazy.Intn(2) == 0 {
					upto = int(nd.Offset()) + 1 + lazy.Intn(w.Board.Len()-int(nd.Offset()))
				}
				_, _ = nd.PollStep(upto)
				progressed = true
			}
		}
		if !progressed {
			if lazy == nil {
				return
			}
			lazy = nil // final catch-up round is eager
		}
	}
}

// play executes one schedule; batchIDs[k] is filled with the id of batch k.
func (cw *c07World) play(order []c07Token, proposers []int, lazy *sched.Rng) (batchIDs map[int]string, expected map[string]map[string]ExpectedMsg, err error) {
	w := cw.ce.W
	batchIDs = map[int]string{}
	expected = map[string]map[string]ExpectedMsg{}
	for _, tk := range order {
		switch tk.Kind {
		case "P":
			if lazy != nil {
				// the proposer itself must be up to date to be allowed to propose
				for int(w.Nodes[proposers[tk.Batch-1]].Offset()) < w.Board.Len() {
					_, _ = w.Nodes[proposers[tk.Batch-1]].PollStep(0)
				}
			}
			before := w.Board.Len()
			if e := w.ProposeSign(proposers[tk.Batch-1], cw.ce.Round, c07BatchData(tk.Batch), nil); e != nil {
				return batchIDs, expected, fmt.Errorf("proposal of batch %d refused: %w", tk.Batch, e)
			}
			prop := w.Board.All()[before]
			bid, msgs, _ := ExpandProposal(prop.Data)
			batchIDs[tk.Batch] = bid
			expected[bid] = map[string]ExpectedMsg{}
			for _, m := range msgs {
				expected[bid][m.ID] = m
			}
		case "A":
			nd := w.Nodes[tk.Node]
			// the participant's node must have seen the proposal to hold the operation
			for int(nd.Offset()) < w.Board.Len() {
				_, _ = nd.PollStep(0)
			}
			var op *types.Operation
			for _, o := range w.PendingOps(nd) {
				if string(o.Type) == OpSigning && opBatchID(o) == batchIDs[tk.Batch] {
					op = o
				}
			}
			if op == nil {
				return batchIDs, expected, fmt.Errorf("%s: node %d has no pending operation for batch %d", tk, tk.Node, tk.Batch)
			}
			_ = w.HandleOp(nd, op) // a refusal by the node's API is part of the world
		}
		cw.pollAll(lazy)
	}
	cw.pollAll(nil)
	return
}

func (cw *c07World) judge(c *Ctx, batchIDs map[int]string, expected map[string]map[string]ExpectedMsg, answered map[int]int, wit map[string]interface{}) {
	w := cw.ce.W
	t := cw.ce.T
	for _, nd := range w.Nodes {
		if st := NodeState(nd, cw.ce.Round); st != StIdle {
			c.Violate("C07/node-not-idle-at-quiescence", fmt.Sprintf("%s ends in %s", nd.Name, st), wit)
		}
		store := SigStore(nd, cw.ce.Round)
		for k, bid := range batchIDs {
			if answered[k] < t {
				continue
			}
			for mid, exp := range expected[bid] {
				valid := false
				for _, e := range store[bid][mid] {
					if len(e.Signature) > 0 {
						if ok, _ := oracle.VerifyG2(cw.key, exp.Payload, e.Signature); ok {
							valid = true
						} else {
							c.Violate("C07/invalid-signature-stored", fmt.Sprintf("%s batch %d msg %s", nd.Name, k, mid), wit)
						}
					}
				}
				if !valid {
					c.Violate("C07/batch-with-t-answers-not-reconstructed", fmt.Sprintf("%s holds no valid signature for message %s of batch %d, which received %d >= t=%d answers", nd.Name, mid, k, answered[k], t), wit)
					return
				}
			}
		}
	}
}

func checkC07(c *Ctx) {
	c.Rule = "bounded progress: for n=3,t=2 and two batches, ALL causally feasible board orders of the primary messages (proposals, answers; every choice of the answering set with >= t members per batch; answers may trail into and beyond the next batch) are played with eager polling on one world rewound by snapshots; reconstruction broadcasts follow from the nodes themselves. Seeded sampling beyond: (n,t) in {(2,2),(3,3),(4,2),(4,3),(5,3)}, three batches, random orders, lazy polling with random splits, random slow sets. At quiescence every node must be signing-idle and store a prysm-valid signature for every message of every batch that received >= t answers. Further families: two rounds on the same nodes; proposer clocks minutes/hours ahead of or behind the answerers'; ordinary batches after a proposal over an empty baked range. A batch whose proposer goes offline right after proposing (judged on the others while it is away, on everybody after it caught up). The board refusing every node's broadcast of a finished batch once, a slower participant answering after it is back. Identifiers of an earlier batch used again (same baked window twice; per-batch numbering). distinct = distinct board orders played"
	c.Assumptions = []string{"participants are slow, not wrong (no junk shares)", "MemState; cold machines are stateless for signing"}
	// exhaustive part
	sets := sched.Subsets(3, 2)
	var jobs [][]c07Token
	var jobSets [][2][]int
	for _, s1 := range sets {
		for _, s2 := range sets {
			for _, o := range enumOrders(3, 2, 2, [][]int{s1, s2}) {
				jobs = append(jobs, o)
				jobSets = append(jobSets, [2][]int{s1, s2})
			}
		}
	}
	c.Set("feasible_orders_n3_t2_two_batches", len(jobs))
	stride := 1
	if !c.Thorough() && len(jobs) > 400 {
		stride = len(jobs)/400 + 1
	}
	var sel []int
	for i := int(c.Seed) % stride; i < len(jobs); i += stride {
		sel = append(sel, i)
	}
	const lanes = 12
	Parallel(lanes, lanes, func(lane int) {
		// every third lane: the key generation took place 8 / 400 days ago (signing may come however late)
		age := []time.Duration{0, 0, 8 * 24 * time.Hour, 0, 0, 400 * 24 * time.Hour}[lane%6]
		cw, err := newC07WorldAged(c.Seed*71+uint64(lane), 3, 2, age)
		if err != nil {
			c.Inconclusive("world: %v", err)
			return
		}
		defer cw.ce.Close()
		for x := lane; x < len(sel); x += lanes {
			i := sel[x]
			order := jobs[i]
			cw.reset()
			var names []string
			for _, tk := range order {
				names = append(names, tk.String())
			}
			wit := map[string]interface{}{"n": 3, "t": 2, "order": strings.Join(names, " "), "polling": "eager", "key_generation_completed_ago": age.String()}
			if age > 0 {
				c.Add("orders_played_on_a_round_older_than_a_week", 1)
			}
			if cw.ce.W.Opt.ViaHTTP {
				c.Add("orders_played_through_the_rest_api", 1)
			}
			batchIDs, expected, err := cw.play(order, []int{0, 1}, nil)
			c.Eval(1)
			c.Add("exhaustive_orders_played", 1)
			c.Distinct("n3t2|" + strings.Join(names, " "))
			if err != nil {
				c.Violate("C07/schedule-cannot-proceed", err.Error(), wit)
				continue
			}
			answered := map[int]int{1: len(jobSets[i][0]), 2: len(jobSets[i][1])}
			cw.judge(c, batchIDs, expected, answered, wit)
			if x < 2 {
				c.Sample(wit)
			}
		}
	})
	c.Exhaustive = stride == 1
	// concurrent proposals: a proposer that has not polled the running batch's proposal yet is allowed by
	// the API to propose; its proposal lands in the middle of the running batch and must not harm it
	{
		cw, err := newC07World(c.Seed*79, 3, 2)
		if err != nil {
			c.Inconclusive("world: %v", err)
		} else {
			for _, s1 := range sets {
				for _, perm := range permutations(s1) {
					for pos := 0; pos < 2 && pos <= len(perm); pos++ {
						// node 2 lags; its own answer (if any) can only come after it caught up, i.e. after its proposal
						ok := true
						for i := 0; i < pos; i++ {
							if perm[i] == 2 {
								ok = false
							}
						}
						if !ok {
							continue
						}
						cw.reset()
						w := cw.ce.W
						wit := map[string]interface{}{"n": 3, "t": 2, "family": "lagging proposer", "answers": perm, "second_proposal_after_answers": pos}
						pollOthers := func() {
							for round := 0; round < 20; round++ {
								for _, nd := range w.Nodes[:2] {
									_, _ = nd.PollStep(0)
								}
							}
						}
						if err := w.ProposeSign(0, cw.ce.Round, map[string][]byte{"doc-1": []byte("payload 1")}, nil); err != nil {
							c.Inconclusive("propose: %v", err)
							continue
						}
						prop := w.Board.All()[w.Board.Len()-1]
						bid, msgs, _ := ExpandProposal(prop.Data)
						expected := map[string]map[string]ExpectedMsg{bid: {}}
						for _, m := range msgs {
							expected[bid][m.ID] = m
						}
						pollOthers()
						answer := func(j int) {
							nd := w.Nodes[j]
							for int(nd.Offset()) < w.Board.Len() {
								_, _ = nd.PollStep(0)
							}
							for _, o := range w.PendingOps(nd) {
								if string(o.Type) == OpSigning && opBatchID(o) == bid {
									_ = w.HandleOp(nd, o)
								}
							}
						}
						for i := 0; i < pos; i++ {
							answer(perm[i])
							pollOthers()
						}
						// node 2 has seen nothing of batch 1 and proposes batch 2
						if err := w.ProposeSign(2, cw.ce.Round, map[string][]byte{"doc-2": []byte("payload 2")}, nil); err != nil {
							c.Violate("C07/schedule-cannot-proceed", "lagging proposer refused by its own API: "+err.Error(), wit)
							continue
						}
						pollOthers()
						for i := pos; i < len(perm); i++ {
							answer(perm[i])
							pollOthers()
						}
						cw.pollAll(nil)
						c.Eval(1)
						c.Add("lagging_proposer_orders_played", 1)
						c.Distinct(fmt.Sprintf("n3t2|lagging|%v|%d", perm, pos))
						cw.judge(c, map[int]string{1: bid}, expected, map[int]int{1: len(perm)}, wit)
					}
				}
			}
			cw.ce.Close()
		}
	}
	c07TwoRounds(c)
	c07SkewedClocks(c)
	c07DegenerateProposals(c)
	c07SameIdsAgain(c)
	c07ProposerOffline(c)
	c07BroadcastOutage(c)
	// sampled part
	cfgs := []ntCase{{2, 2}, {3, 3}, {4, 2}, {4, 3}, {5, 3}}
	per := c.Pick(12, 400)
	Parallel(len(cfgs), 8, func(ci int) {
		n, t := cfgs[ci].N, cfgs[ci].T
		age := time.Duration(ci%2) * 30 * 24 * time.Hour
		cw, err := newC07WorldAged(c.Seed*73+uint64(ci), n, t, age)
		if err != nil {
			c.Inconclusive("world n=%d t=%d: %v", n, t, err)
			return
		}
		defer cw.ce.Close()
		r := sched.Derive(c.Seed, 7, uint64(ci))
		subsets := sched.Subsets(n, t)
		for s := 0; s < per; s++ {
			cw.reset()
			// random feasible order of three batches
			var order []c07Token
			answered := map[int]int{}
			var late []c07Token
			proposers := []int{r.Intn(n), r.Intn(n), r.Intn(n)}
			for k := 1; k <= 3; k++ {
				order = append(order, c07Token{"P", k, 0})
				set := subsets[r.Intn(len(subsets))]
				answered[k] = len(set)
				perm := r.Perm(len(set))
				prompt := 0
				var pending []c07Token
				for _, pi := range perm {
					tk := c07Token{"A", k, set[pi]}
					if prompt < t || r.Intn(2) == 0 {
						pending = append(pending, tk)
						prompt++
					} else {
						late = append(late, tk)
					}
				}
				// earlier batches' late answers are woven into this batch
				for len(late) > 0 && r.Intn(2) == 0 {
					pos := r.Intn(len(pending) + 1)
					pending = append(pending[:pos], append([]c07Token{late[0]}, pending[pos:]...)...)
					late = late[1:]
				}
				order = append(order, pending...)
			}
			order = append(order, late...)
			var names []string
			for _, tk := range order {
				names = append(names, tk.String())
			}
			wit := map[string]interface{}{"n": n, "t": t, "order": strings.Join(names, " "), "polling": "lazy", "proposers": proposers, "key_generation_completed_ago": age.String()}
			batchIDs, expected, err := cw.play(order, proposers, sched.Derive(c.Seed, uint64(ci), uint64(s)))
			c.Eval(1)
			c.Distinct(fmt.Sprintf("n%dt%d|%s|lazy%d", n, t, strings.Join(names, " "), s))
			if err != nil {
				c.Violate("C07/schedule-cannot-proceed", err.Error(), wit)
				continue
			}
			cw.judge(c, batchIDs, expected, answered, wit)
			if s == 0 {
				c.Sample(wit)
			}
		}
		c.Add("sampled_schedules", per)
	})
	_ = sort.Strings
}

func permutations(a []int) [][]int {
	if len(a) <= 1 {
		return [][]int{append([]int{}, a...)}
	}
	var out [][]int
	for i := range a {
		rest := append(append([]int{}, a[:i]...), a[i+1:]...)
		for _, p := range permutations(rest) {
			out = append(out, append([]int{a[i]}, p...))
		}
	}
	return out
}

// c07BatchData: two documents per batch; every second batch also carries an empty file (zero bytes are
// a payload like any other and must come back signed).
func c07BatchData(k int) map[string][]byte {
	d := map[string][]byte{fmt.Sprintf("doc-%d-a", k): []byte(fmt.Sprintf("payload %d a", k)), fmt.Sprintf("doc-%d-b", k): []byte(fmt.Sprintf("payload %d b", k))}
	if k%2 == 0 {
		d[fmt.Sprintf("doc-%d-empty", k)] = []byte{}
	}
	if k%3 != 1 {
		// the same content under a second name (a participant's partial signatures for the two are equal)
		d[fmt.Sprintf("doc-%d-a-again", k)] = []byte(fmt.Sprintf("payload %d a", k))
	}
	return d
}

// c07TwoRounds: the same nodes hold two completed rounds (different thresholds, hence different group
// keys) and sign batches in both, interleaved, without restarting in between: every batch answered by t
// honest participants of its round is reconstructed under that round's key.
func c07TwoRounds(c *Ctx) {
	reps := c.Pick(3, 24)
	Parallel(reps, 6, func(rep int) {
		seed := c.Seed*181 + uint64(rep)
		r := sched.Derive(seed, 77)
		n := 3 + rep%2
		ts := [2]int{2, 2 + rep%2}
		if rep%3 == 2 {
			ts[1] = n
		}
		w, err := world.NewWorld(world.Options{N: n, T: ts[0], Seed: seed, ViaHTTP: rep%2 == 1})
		if err != nil {
			c.Inconclusive("two-round world: %v", err)
			return
		}
		var ces [2]*Ceremony
		defer w.Close()
		for k := 0; k < 2; k++ {
			id, err := w.StartDKG(r.Intn(n), ts[k], now().Add(time.Duration(k)*time.Second))
			if err != nil {
				c.Inconclusive("two-round world: start %d: %v", k, err)
				return
			}
			ces[k] = &Ceremony{W: w, N: n, T: ts[k], Round: id}
			if k == 0 && rep%2 == 0 {
				w.Run(world.RandomPolicy, 6000) // sequential key generations; otherwise concurrent
			}
		}
		w.Run(world.RandomPolicy, 8000)
		var keys [2][]byte
		for k := 0; k < 2; k++ {
			if !ces[k].AllIn(StIdle) {
				c.Inconclusive("two-round world: round %d ended %v", k, ces[k].States())
				return
			}
			if keys[k], _, err = ces[k].GroupKeyFromMachines(); err != nil {
				c.Inconclusive("two-round world: %v", err)
				return
			}
		}
		var order []int
		for i := 0; i < 5; i++ {
			order = append(order, r.Intn(2))
		}
		order = append(order, 0, 1)
		wit := map[string]interface{}{"family": "two rounds on the same nodes", "n": n, "thresholds": ts, "batch_order_by_round": order, "case_seed": seed}
		for bi, k := range order {
			ce := ces[k]
			subsets := sched.Subsets(n, ce.T)
			set := subsets[r.Intn(len(subsets))]
			prop, err := ce.RunBatch(BatchSpec{Proposer: r.Intn(n), Signers: set, NoLate: r.Intn(2) == 0, Data: map[string][]byte{fmt.Sprintf("doc-%d", bi): []byte(fmt.Sprintf("round %d batch %d", k, bi))}}, world.RandomPolicy)
			c.Eval(1)
			c.Add("batches_in_two_round_worlds", 1)
			c.Distinct(fmt.Sprintf("two-rounds|n%d|t%v|%v|%d", n, ts, order, bi))
			if err != nil || prop == nil {
				c.Violate("C07/schedule-cannot-proceed", fmt.Sprintf("batch %d (round %d of two on the same nodes): %v", bi, k, err), wit)
				return
			}
			bid, msgs, _ := ExpandProposal(prop.Data)
			for _, nd := range w.Nodes {
				if st := NodeState(nd, ce.Round); st != StIdle {
					c.Violate("C07/node-not-idle-at-quiescence", fmt.Sprintf("%s ends in %s after batch %d of round %d", nd.Name, st, bi, k), wit)
					return
				}
				store := SigStore(nd, ce.Round)
				for _, m := range msgs {
					valid := false
					for _, e := range store[bid][m.ID] {
						if ok, _ := oracle.VerifyG2(keys[k], m.Payload, e.Signature); ok && len(e.Signature) > 0 {
							valid = true
						}
					}
					if !valid {
						c.Violate("C07/batch-with-t-answers-not-reconstructed", fmt.Sprintf("%s holds no valid signature for batch %d (round %d of two on the same nodes, %d answers, t=%d)", nd.Name, bi, k, len(set), ce.T), wit)
						return
					}
				}
			}
		}
	})
}

// c07SkewedClocks: the participants' machines do not share a clock. A proposal carries the proposer's
// time stamp, every answer the answering node's; batches whose proposer runs minutes or hours ahead of /
// behind the others must be reconstructed like any other, and an ordinary batch must follow.
func c07SkewedClocks(c *Ctx) {
	skews := []time.Duration{5 * time.Minute, 2 * time.Hour, -5 * time.Minute, -36 * time.Hour}
	reps := c.Pick(2, 8)
	Parallel(reps, 4, func(rep int) {
		seed := c.Seed*191 + uint64(rep)
		r := sched.Derive(seed, 78)
		n, t := 3, 2+rep%2
		ce, err := NewCeremonyVia(seed, n, t, world.RandomPolicy, rep%2 == 1)
		if err != nil {
			c.Inconclusive("skewed-clock world: %v", err)
			return
		}
		defer ce.Close()
		w := ce.W
		if !ce.AllIn(StIdle) {
			c.Inconclusive("skewed-clock world: key generation ended %v", ce.States())
			return
		}
		key, _, err := ce.GroupKeyFromMachines()
		if err != nil {
			c.Inconclusive("skewed-clock world: %v", err)
			return
		}
		for bi := 0; bi < 2*len(skews); bi++ {
			p := r.Intn(n)
			subsets := sched.Subsets(n, t)
			set := subsets[r.Intn(len(subsets))]
			spec := BatchSpec{Proposer: p, Signers: set, NoLate: r.Intn(2) == 0}
			skew := time.Duration(0)
			if bi%2 == 0 {
				skew = skews[(bi/2+rep)%len(skews)]
				req := requests.SigningBatchProposalStartRequest{BatchID: fmt.Sprintf("skew-%d-%d", rep, bi), ParticipantId: p, CreatedAt: now().Add(skew),
					SigningTasks: []requests.SigningTask{{MessageID: fmt.Sprintf("skewed-%d", bi), File: "f", Payload: r.Bytes(16)}}}
				msg := world.SignMsg(w.Nodes[p], ce.Round, EvSigningStart, mkReq(req), "")
				spec.Hand = &msg
			} else {
				spec.Data = map[string][]byte{fmt.Sprintf("after-skew-%d", bi): r.Bytes(12)}
			}
			wit := map[string]interface{}{"family": "proposer's clock differs from the others'", "n": n, "t": t, "batch": bi, "proposer_clock_offset": skew.String(), "prompt_signers": set, "case_seed": seed}
			prop, err := ce.RunBatch(spec, world.RandomPolicy)
			c.Eval(1)
			c.Add("batches_with_a_skewed_proposer_clock", 1)
			c.Distinct(fmt.Sprintf("skew|t%d|%s|%d", t, skew, bi%2))
			if err != nil || prop == nil {
				c.Violate("C07/schedule-cannot-proceed", fmt.Sprintf("batch %d (proposer's clock offset %s): %v", bi, skew, err), wit)
				return
			}
			bid, msgs, _ := ExpandProposal(prop.Data)
			for _, nd := range w.Nodes {
				if st := NodeState(nd, ce.Round); st != StIdle {
					c.Violate("C07/node-not-idle-at-quiescence", fmt.Sprintf("%s ends in %s after batch %d (proposer's clock offset %s)", nd.Name, st, bi, skew), wit)
					return
				}
				store := SigStore(nd, ce.Round)
				for _, m := range msgs {
					valid := false
					for _, e := range store[bid][m.ID] {
						if ok, _ := oracle.VerifyG2(key, m.Payload, e.Signature); ok && len(e.Signature) > 0 {
							valid = true
						}
					}
					if !valid {
						c.Violate("C07/batch-with-t-answers-not-reconstructed", fmt.Sprintf("%s holds no valid signature for batch %d (proposer's clock offset %s, %d answers, t=%d)", nd.Name, bi, skew, len(set), t), wit)
						return
					}
				}
			}
		}
	})
}

// c07DegenerateProposals: proposals that nobody can answer - a baked range that contains no position
// (start == end), offered through the operator's API like any other - must not cost the round its
// ability to sign: the ordinary batch that follows is answered by t participants and has to be
// reconstructed on every node.
func c07DegenerateProposals(c *Ctx) {
	reps := c.Pick(2, 8)
	Parallel(reps, 4, func(rep int) {
		seed := c.Seed*193 + uint64(rep)
		r := sched.Derive(seed, 79)
		n, t := 3, 2+rep%2
		ce, err := NewCeremonyVia(seed, n, t, world.RandomPolicy, rep%2 == 1)
		if err != nil {
			c.Inconclusive("degenerate-proposal world: %v", err)
			return
		}
		defer ce.Close()
		w := ce.W
		if !ce.AllIn(StIdle) {
			c.Inconclusive("degenerate-proposal world: key generation ended %v", ce.States())
			return
		}
		key, _, err := ce.GroupKeyFromMachines()
		if err != nil {
			c.Inconclusive("degenerate-proposal world: %v", err)
			return
		}
		for bi := 0; bi < 3; bi++ {
			p := r.Intn(n)
			at := []int{0, 7, 18631}[bi%3]
			// whether the API (or later every node) refuses it is not judged here
			perr := w.ProposeSign(p, ce.Round, nil, &world.Range{Start: at, End: at})
			w.Run(world.RandomPolicy, 2000)
			subsets := sched.Subsets(n, t)
			set := subsets[r.Intn(len(subsets))]
			wit := map[string]interface{}{"family": "a proposal over an empty baked range, then an ordinary batch", "n": n, "t": t, "empty_range_at": at, "empty_proposal_outcome": fmt.Sprint(perr), "prompt_signers": set, "case_seed": seed}
			prop, err := ce.RunBatch(BatchSpec{Proposer: r.Intn(n), Signers: set, NoLate: r.Intn(2) == 0, Data: map[string][]byte{fmt.Sprintf("after-empty-%d", bi): r.Bytes(12)}}, world.RandomPolicy)
			c.Eval(1)
			c.Add("ordinary_batches_after_an_empty_range_proposal", 1)
			c.Distinct(fmt.Sprintf("empty-range|t%d|%d", t, at))
			if err != nil || prop == nil {
				c.Violate("C07/schedule-cannot-proceed", fmt.Sprintf("the ordinary batch after a proposal over the empty range %d..%d: %v (states %v)", at, at, err, ce.States()), wit)
				return
			}
			bid, msgs, _ := ExpandProposal(prop.Data)
			for _, nd := range w.Nodes {
				if st := NodeState(nd, ce.Round); st != StIdle {
					c.Violate("C07/node-not-idle-at-quiescence", fmt.Sprintf("%s ends in %s after the batch that followed an empty-range proposal", nd.Name, st), wit)
					return
				}
				store := SigStore(nd, ce.Round)
				for _, m := range msgs {
					valid := false
					for _, e := range store[bid][m.ID] {
						if ok, _ := oracle.VerifyG2(key, m.Payload, e.Signature); ok && len(e.Signature) > 0 {
							valid = true
						}
					}
					if !valid {
						c.Violate("C07/batch-with-t-answers-not-reconstructed", fmt.Sprintf("%s holds no valid signature for the batch that followed an empty-range proposal (%d answers, t=%d)", nd.Name, len(set), t), wit)
						return
					}
				}
			}
		}
	})
}

// c07SameIdsAgain: message identifiers are only unique within a batch - a baked window signed a second
// time (the identifier is the validator index), or a proposer who numbers his documents per batch. The
// later batch, answered by t participants, must end with a valid signature for every one of its messages
// on every node, like the first one.
func c07SameIdsAgain(c *Ctx) {
	reps := c.Pick(2, 8)
	Parallel(reps, 4, func(rep int) {
		seed := c.Seed*197 + uint64(rep)
		r := sched.Derive(seed, 80)
		n, t := 3, 2+rep%2
		ce, err := NewCeremonyVia(seed, n, t, world.RandomPolicy, rep%2 == 1)
		if err != nil || !ce.AllIn(StIdle) {
			c.Inconclusive("same-ids world: %v", err)
			return
		}
		defer ce.Close()
		w := ce.W
		key, _, err := ce.GroupKeyFromMachines()
		if err != nil {
			c.Inconclusive("same-ids world: %v", err)
			return
		}
		lo := r.Intn(18000)
		for bi := 0; bi < 4; bi++ {
			p := r.Intn(n)
			subsets := sched.Subsets(n, t)
			set := subsets[r.Intn(len(subsets))]
			spec := BatchSpec{Proposer: p, Signers: set, NoLate: r.Intn(2) == 0}
			kind := "baked window again"
			if bi < 2 {
				spec.Range = &world.Range{Start: lo, End: lo + 3}
			} else {
				kind = "per-batch numbering with other payloads"
				req := requests.SigningBatchProposalStartRequest{BatchID: fmt.Sprintf("numbered-%d-%d", rep, bi), ParticipantId: p, CreatedAt: now(),
					SigningTasks: []requests.SigningTask{{MessageID: "1", File: "doc-1", Payload: r.Bytes(14)}, {MessageID: "2", File: "doc-2", Payload: r.Bytes(14)}}}
				msg := world.SignMsg(w.Nodes[p], ce.Round, EvSigningStart, mkReq(req), "")
				spec.Hand = &msg
			}
			wit := map[string]interface{}{"family": "identifiers of an earlier batch used again", "n": n, "t": t, "batch": bi, "kind": kind, "prompt_signers": set, "case_seed": seed}
			prop, err := ce.RunBatch(spec, world.RandomPolicy)
			c.Eval(1)
			c.Add("batches_reusing_identifiers_of_an_earlier_batch", bi%2)
			c.Distinct(fmt.Sprintf("same-ids|t%d|%d", t, bi))
			if err != nil || prop == nil {
				c.Violate("C07/schedule-cannot-proceed", fmt.Sprintf("batch %d (%s): %v", bi, kind, err), wit)
				return
			}
			bid, msgs, _ := ExpandProposal(prop.Data)
			for _, nd := range w.Nodes {
				if st := NodeState(nd, ce.Round); st != StIdle {
					c.Violate("C07/node-not-idle-at-quiescence", fmt.Sprintf("%s ends in %s after batch %d (%s)", nd.Name, st, bi, kind), wit)
					return
				}
				store := SigStore(nd, ce.Round)
				for _, m := range msgs {
					valid := false
					for _, e := range store[bid][m.ID] {
						if ok, _ := oracle.VerifyG2(key, m.Payload, e.Signature); ok && len(e.Signature) > 0 {
							valid = true
						}
					}
					if !valid {
						c.Violate("C07/batch-with-t-answers-not-reconstructed", fmt.Sprintf("%s holds no valid signature for message %q of batch %d (%s; %d answers, t=%d)", nd.Name, m.ID, bi, kind, len(set), t), wit)
						return
					}
				}
			}
		}
	})
}

// c07ProposerOffline: "every node that keeps polling" - the proposer of a batch need not be one of them.
// The proposer posts the proposal and goes offline (its node neither answers nor polls, so its own
// reconstruction broadcast never comes); the others answer and keep polling: each of them must hold a valid
// signature for every message. Then the proposer comes back and catches up; a later batch proposed by
// somebody else is signed as usual.
func c07ProposerOffline(c *Ctx) {
	cases := [][2]int{{3, 2}, {4, 3}, {4, 2}, {3, 2}}
	for rep := 0; rep < c.Pick(4, 12); rep++ {
		func() {
			n, t := cases[rep%len(cases)][0], cases[rep%len(cases)][1]
			seed := c.Seed*733 + uint64(rep)
			cw, err := newC07World(seed, n, t)
			if err != nil {
				c.Inconclusive("proposer-offline world: %v", err)
				return
			}
			defer cw.ce.Close()
			w := cw.ce.W
			p := rep % n
			wit := map[string]interface{}{"family": "the proposer goes offline after proposing", "n": n, "t": t, "proposer": p, "case_seed": seed}
			pollOthers := func(skip int) {
				for round := 0; round < 40; round++ {
					progressed := false
					for _, nd := range w.Nodes {
						if nd.Idx != skip && int(nd.Offset()) < w.Board.Len() {
							_, _ = nd.PollStep(0)
							progressed = true
						}
					}
					if !progressed {
						return
					}
				}
			}
			judge := func(when string, bid string, msgs []ExpectedMsg, skip int) {
				for _, nd := range w.Nodes {
					if nd.Idx == skip {
						continue
					}
					store := SigStore(nd, cw.ce.Round)
					for _, m := range msgs {
						valid := false
						for _, e := range store[bid][m.ID] {
							if len(e.Signature) > 0 {
								if ok, _ := oracle.VerifyG2(cw.key, m.Payload, e.Signature); ok {
									valid = true
								}
							}
						}
						if !valid {
							c.Violate("C07/batch-with-t-answers-not-reconstructed", fmt.Sprintf("%s: %s kept polling and holds no valid signature for message %s of the batch, which received %d >= t=%d answers", when, nd.Name, m.ID, n-1, t), wit)
							return
						}
					}
					if st := NodeState(nd, cw.ce.Round); st != StIdle {
						c.Violate("C07/node-not-idle-at-quiescence", fmt.Sprintf("%s: %s is in %s", when, nd.Name, st), wit)
					}
				}
			}
			runBatch := func(k, proposer, offline int) (string, []ExpectedMsg, bool) {
				before := w.Board.Len()
				if e := w.ProposeSign(proposer, cw.ce.Round, c07BatchData(k), nil); e != nil {
					c.Inconclusive("proposer-offline world: proposal refused: %v", e)
					return "", nil, false
				}
				bid, msgs, _ := ExpandProposal(w.Board.All()[before].Data)
				pollOthers(offline)
				for _, nd := range w.Nodes {
					if nd.Idx == offline {
						continue
					}
					for _, o := range w.PendingOps(nd) {
						if string(o.Type) == OpSigning && opBatchID(o) == bid {
							_ = w.HandleOp(nd, o)
						}
					}
					pollOthers(offline)
				}
				pollOthers(offline)
				return bid, msgs, true
			}
			bid, msgs, ok := runBatch(1, p, p)
			if !ok {
				return
			}
			c.Eval(1)
			c.Add("batches_whose_proposer_went_offline", 1)
			c.Distinct(fmt.Sprintf("proposer-offline|n%d t%d p%d", n, t, p))
			judge("while the proposer is offline", bid, msgs, p)
			// the proposer comes back (it never answers the old batch: its operation stays unanswered)
			pollOthers(-1)
			judge("after the proposer caught up", bid, msgs, -1)
			bid2, msgs2, ok := runBatch(2, (p+1)%n, -1)
			if ok {
				judge("next batch, everybody online", bid2, msgs2, -1)
			}
		}()
	}
}

// c07BroadcastOutage: the board refuses writes at the moment the nodes want to publish a finished batch (every
// node's broadcast of the reconstructed signatures fails once); reading keeps working. When the board is back
// a slower participant answers the same batch: with t <= n-1 prompt answers plus this one there are still at
// least t correct answers on the board, so every polling node must end up with valid signatures, idle.
func c07BroadcastOutage(c *Ctx) {
	cases := [][2]int{{3, 2}, {4, 2}, {4, 3}}
	for rep := 0; rep < c.Pick(3, 9); rep++ {
		func() {
			n, t := cases[rep%len(cases)][0], cases[rep%len(cases)][1]
			seed := c.Seed*739 + uint64(rep)
			cw, err := newC07World(seed, n, t)
			if err != nil {
				c.Inconclusive("broadcast-outage world: %v", err)
				return
			}
			defer cw.ce.Close()
			w := cw.ce.W
			wit := map[string]interface{}{"family": "board refuses the broadcast of a finished batch once per node", "n": n, "t": t, "case_seed": seed}
			outage := true
			refused := 0
			for _, nd := range w.Nodes {
				nd.NB.FailSendIf = func(msgs []storage.Message) error {
					for _, m := range msgs {
						if outage && m.Event == EvSigRecon {
							refused++
							return fmt.Errorf("board unreachable (injected)")
						}
					}
					return nil
				}
			}
			before := w.Board.Len()
			if e := w.ProposeSign(0, cw.ce.Round, c07BatchData(1), nil); e != nil {
				c.Inconclusive("broadcast-outage world: proposal refused: %v", e)
				return
			}
			bid, msgs, _ := ExpandProposal(w.Board.All()[before].Data)
			cw.pollAll(nil)
			answer := func(nd *world.Node) {
				for _, o := range w.PendingOps(nd) {
					if string(o.Type) == OpSigning && opBatchID(o) == bid {
						_ = w.HandleOp(nd, o)
					}
				}
				cw.pollAll(nil)
			}
			for i := 0; i < t; i++ {
				answer(w.Nodes[i])
			}
			outage = false
			c.Eval(1)
			c.Distinct(fmt.Sprintf("broadcast-outage|n%d t%d|refused=%v", n, t, refused > 0))
			if refused == 0 {
				c.Inconclusive("broadcast-outage world: no broadcast was attempted during the outage")
				return
			}
			c.Add("broadcasts_of_a_finished_batch_refused_by_the_board", refused)
			// the board is back; a slower participant answers the same batch
			for i := t; i < n; i++ {
				answer(w.Nodes[i])
			}
			cw.pollAll(nil)
			for _, nd := range w.Nodes {
				store := SigStore(nd, cw.ce.Round)
				for _, m := range msgs {
					valid := false
					for _, e := range store[bid][m.ID] {
						if len(e.Signature) > 0 {
							if ok, _ := oracle.VerifyG2(cw.key, m.Payload, e.Signature); ok {
								valid = true
							}
						}
					}
					if !valid {
						c.Violate("C07/batch-with-t-answers-not-reconstructed", fmt.Sprintf("%s holds no valid signature for message %s: %d correct answers are on the board (t=%d); the board refused the nodes' broadcasts once and was back before the last answer", nd.Name, m.ID, n, t), wit)
						return
					}
				}
				if st := NodeState(nd, cw.ce.Round); st != StIdle {
					c.Violate("C07/node-not-idle-at-quiescence", fmt.Sprintf("after a board outage at the broadcasts: %s is in %s", nd.Name, st), wit)
				}
			}
		}()
	}
}
