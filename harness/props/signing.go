package props

import (
	"bytes"
	"encoding/json"
	"fmt"
	"os"

	"github.com/corestario/kyber/share"

	"github.com/lidofinance/dc4bc/client/types"
	fsmtypes "github.com/lidofinance/dc4bc/fsm/types"
	"github.com/lidofinance/dc4bc/fsm/types/requests"
	"github.com/lidofinance/dc4bc/pkg/utils"
	"github.com/lidofinance/dc4bc/storage"

	"verifharness/oracle"
	"verifharness/world"
)

// BatchSpec describes one signing batch of a workload.
type BatchSpec struct {
	Proposer int
	Signers  []int // who answers promptly; the others answer late (after completion)
	Data     map[string][]byte
	Range    *world.Range
	Hand     *storage.Message // hand-built proposal instead of the API path
	NoLate   bool             // the slow participants never answer
}

func opBatchID(op *types.Operation) string {
	var p struct{ BatchID string }
	_ = json.Unmarshal(op.Payload, &p)
	return p.BatchID
}

// RunBatch proposes a batch and drives the world to quiescence: prompt signers first, late
// answers afterwards. It returns the proposal message as found on the board.
func (ce *Ceremony) RunBatch(b BatchSpec, policy world.RunPolicy) (*storage.Message, error) {
	w := ce.W
	before := w.Board.Len()
	if b.Hand != nil {
		if err := w.Board.Send(*b.Hand); err != nil {
			return nil, err
		}
	} else if err := w.ProposeSign(b.Proposer, ce.Round, b.Data, b.Range); err != nil {
		return nil, fmt.Errorf("propose: %w", err)
	}
	var prop *storage.Message
	for _, m := range w.Board.All()[before:] {
		if m.Event == EvSigningStart {
			mm := m
			prop = &mm
		}
	}
	if prop == nil {
		return nil, fmt.Errorf("proposal not on board")
	}
	// what the operator asked to be signed (name -> content) is what the proposal on the board carries
	if b.Hand == nil && len(b.Data) > 0 {
		ce.ProposalMismatch = requestVsProposal(b.Data, prop.Data)
	} else {
		ce.ProposalMismatch = ""
	}
	in := map[int]bool{}
	for _, s := range b.Signers {
		in[s] = true
	}
	w.OpFilter = func(n *world.Node, op *types.Operation) bool {
		if string(op.Type) != OpSigning {
			return true
		}
		return len(b.Signers) == 0 || in[n.Idx]
	}
	_, q := w.Run(policy, 5000)
	if b.NoLate {
		w.OpFilter = func(n *world.Node, op *types.Operation) bool { return string(op.Type) != OpSigning }
	} else {
		w.OpFilter = nil
	}
	_, q2 := w.Run(policy, 5000)
	w.OpFilter = nil
	if !q || !q2 {
		return prop, fmt.Errorf("batch did not reach quiescence")
	}
	return prop, nil
}

// GroupKeyFromMachines returns the 48-byte group key all machines hold (error if they differ or
// a machine has none).
func (ce *Ceremony) GroupKeyFromMachines() ([]byte, *share.PubPoly, error) {
	var key []byte
	var poly *share.PubPoly
	for _, n := range ce.W.Nodes {
		kr, err := Keyring(n, ce.Round)
		if err != nil {
			return nil, nil, err
		}
		if kr == nil {
			return nil, nil, fmt.Errorf("%s holds no keyring", n.Name)
		}
		k := oracle.PointBytes(kr.PubPoly.Commit())
		if key == nil {
			key, poly = k, kr.PubPoly
		} else if !bytes.Equal(key, k) {
			return nil, nil, fmt.Errorf("machines disagree on the group key")
		}
	}
	return key, poly, nil
}

// sigJudge accumulates every signature value observed for a payload and judges C01.
type sigJudge struct {
	c        *Ctx
	key      []byte
	byMsg    map[string][]byte // payload-hash -> first signature seen
	Verified int
	Empty    int
}

func newSigJudge(c *Ctx, key []byte) *sigJudge {
	return &sigJudge{c: c, key: key, byMsg: map[string][]byte{}}
}

// observe judges one signature value found at `where` for expected payload.
func (j *sigJudge) observe(where string, payload, sig []byte, wit interface{}) {
	if len(sig) == 0 {
		j.Empty++
		return
	}
	ok, err := oracle.VerifyG2(j.key, payload, sig)
	if err != nil || !ok {
		j.c.Violate("C01/invalid-signature:"+whereClass(where), fmt.Sprintf("%s: signature rejected by prysm (err=%v) payload=%x sig=%x", where, err, trunc(string(payload), 40), trunc(string(sig), 20)), wit)
		return
	}
	j.Verified++
	h := oracle.Hash(string(payload))
	if prev, ok := j.byMsg[h]; ok {
		if !bytes.Equal(prev, sig) {
			j.c.Violate("C01/signatures-differ-for-one-payload", fmt.Sprintf("%s: two valid signatures of one payload differ: %x vs %x", where, prev[:8], sig[:8]), wit)
		}
	} else {
		j.byMsg[h] = append([]byte{}, sig...)
	}
	if len(sig) != 96 {
		j.c.Violate("C01/signature-length", fmt.Sprintf("%s: %d bytes", where, len(sig)), wit)
	}
}

func whereClass(w string) string {
	for i := 0; i < len(w); i++ {
		if w[i] == ':' {
			return w[:i]
		}
	}
	return w
}

// JudgeSignatures applies the C01 oracle to everything the world holds for the given proposals.
// expected: batchID -> msgID -> ExpectedMsg. complete: batches that must be fully signed in the
// export (those that received >= t prompt answers).
func (ce *Ceremony) JudgeSignatures(c *Ctx, j *sigJudge, expected map[string]map[string]ExpectedMsg, complete map[string]bool, wit interface{}) {
	// (a) reconstruction broadcasts on the board
	for _, m := range BoardMsgs(ce.W, ce.Round, EvSigRecon) {
		var sigs []fsmtypes.ReconstructedSignature
		if err := json.Unmarshal(m.Data, &sigs); err != nil {
			c.Violate("C01/unparsable-broadcast", err.Error(), wit)
			continue
		}
		for _, s := range sigs {
			exp, ok := expected[s.BatchID][s.MessageID]
			if !ok {
				c.Violate("C01/broadcast-for-unproposed-message", fmt.Sprintf("batch %s msg %s by %s", s.BatchID, s.MessageID, m.SenderAddr), wit)
				continue
			}
			j.observe("broadcast:"+m.SenderAddr, exp.Payload, s.Signature, wit)
		}
	}
	// (b) every node's store, (c) the export the CLI produces from it
	for _, n := range ce.W.Nodes {
		store := SigStore(n, ce.Round)
		for batch, msgs := range store {
			for mid, entries := range msgs {
				exp, ok := expected[batch][mid]
				if !ok {
					c.Violate("C01/stored-for-unproposed-message", fmt.Sprintf("%s batch %s msg %s", n.Name, batch, mid), wit)
					continue
				}
				for _, e := range entries {
					j.observe("store:"+n.Name, exp.Payload, e.Signature, wit)
				}
			}
			if !complete[batch] {
				continue
			}
			exp, err := utils.PrepareSignaturesToDump(msgs)
			if err != nil {
				c.Violate("C01/export-fails", fmt.Sprintf("%s batch %s: %v", n.Name, batch, err), wit)
				continue
			}
			for mid, want := range expected[batch] {
				ent, ok := (*exp)[mid]
				if !ok {
					c.Violate("C01/export-misses-message", fmt.Sprintf("%s batch %s msg %s", n.Name, batch, mid), wit)
					continue
				}
				if len(ent.Signature) == 0 {
					c.Violate("C01/export-without-signature", fmt.Sprintf("%s batch %s msg %s: export entry has an empty signature after quiescence", n.Name, batch, mid), wit)
					continue
				}
				j.observe("export:"+n.Name, want.Payload, ent.Signature, wit)
			}
		}
		// (d) what the REST API serves for the round (operators read signatures there)
		if n.API != nil {
			served, err := n.API.Signatures(ce.Round)
			if err != nil {
				c.Violate("C01/api-does-not-serve-signatures", fmt.Sprintf("%s GET /getSignatures: %v", n.Name, err), wit)
			}
			nServed, nStored := 0, 0
			for batch, msgs := range served {
				for mid, entries := range msgs {
					exp, ok := expected[batch][mid]
					if !ok {
						c.Violate("C01/served-for-unproposed-message", fmt.Sprintf("%s batch %s msg %s", n.Name, batch, mid), wit)
						continue
					}
					for _, e := range entries {
						nServed++
						j.observe("api:"+n.Name, exp.Payload, e.Signature, wit)
					}
				}
			}
			for _, msgs := range store {
				for _, entries := range msgs {
					nStored += len(entries)
				}
			}
			if err == nil && nServed != nStored {
				c.Violate("C01/api-serves-other-entries-than-stored", fmt.Sprintf("%s: %d entries served, %d stored", n.Name, nServed, nStored), wit)
			}
			c.Add("signature_entries_read_through_the_rest_api", nServed)
		}
		// (e) the dump `dc4bc_cli export_signatures` writes (operators publish from it)
		if n.CLI != nil {
			path, err := n.CLI.ExportSignatures(ce.Round)
			if err != nil {
				c.Violate("C01/export-tool-fails", fmt.Sprintf("%s: %v", n.Name, err), wit)
			} else if path != "" {
				bz, _ := os.ReadFile(path)
				var dump map[string]struct {
					Payload   []byte `json:"payload_base64"`
					Signature []byte `json:"signature"`
					File      string `json:"file"`
				}
				if err := json.Unmarshal(bz, &dump); err != nil {
					c.Violate("C01/export-tool-wrote-unparsable-file", fmt.Sprintf("%s %s: %v", n.Name, path, err), wit)
				} else {
					c.Add("signature_dumps_written_by_the_cli_tool", 1)
					for mid, e := range dump {
						known := false
						for _, msgs := range expected {
							if exp, ok := msgs[mid]; ok && bytes.Equal(exp.Payload, e.Payload) {
								known = true
							}
						}
						if !known {
							c.Violate("C01/export-tool-entry-for-unproposed-message", fmt.Sprintf("%s: id %q with a payload nobody proposed under that id", n.Name, mid), wit)
							continue
						}
						j.observe("cli-export:"+n.Name, e.Payload, e.Signature, wit)
						c.Add("entries_in_cli_dumps_judged", 1)
					}
				}
			}
		}
		for batch := range complete {
			if _, ok := store[batch]; !ok && complete[batch] {
				c.Violate("C01/store-misses-batch", fmt.Sprintf("%s has nothing for completed batch %s", n.Name, batch), wit)
			}
		}
	}
}

// requestVsProposal compares the files an operator handed to the API / tool with the tasks of the proposal
// that reached the board: every file once, under its own name, with its own bytes, nothing else.
func requestVsProposal(data map[string][]byte, proposal []byte) string {
	var req requests.SigningBatchProposalStartRequest
	if err := json.Unmarshal(proposal, &req); err != nil {
		return "proposal does not parse: " + err.Error()
	}
	seen := map[string]bool{}
	for _, tk := range req.SigningTasks {
		want, ok := data[tk.File]
		if !ok {
			return fmt.Sprintf("the proposal carries a task for file %q, which was not among the %d files handed in", tk.File, len(data))
		}
		if seen[tk.File] {
			return fmt.Sprintf("file %q appears twice in the proposal", tk.File)
		}
		seen[tk.File] = true
		if !bytes.Equal(tk.Payload, want) {
			return fmt.Sprintf("file %q (%d bytes) is proposed with a payload of %d bytes that differs from the file's content", tk.File, len(want), len(tk.Payload))
		}
	}
	if len(seen) != len(data) {
		return fmt.Sprintf("%d files were handed in, the proposal carries %d of them", len(data), len(seen))
	}
	return ""
}
