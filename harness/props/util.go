package props

import (
	"runtime/debug"
	"syscall"
)

func dupFd(fd int) int {
	n, err := syscall.Dup(fd)
	if err != nil {
		return fd
	}
	return n
}

func stack() string { return string(debug.Stack()) }
