package world

import (
	"bytes"
	"encoding/json"
	"fmt"
	"io"
	"net/http"
	"net/http/httptest"
	"net/url"
	"reflect"
	"sync"
	"unsafe"

	"github.com/lidofinance/dc4bc/client/api/http_api"
	"github.com/lidofinance/dc4bc/client/config"
	"github.com/lidofinance/dc4bc/client/services"
	"github.com/lidofinance/dc4bc/client/types"
	fsmtypes "github.com/lidofinance/dc4bc/fsm/types"
)

// HTTPOp is the operator's view of a node through the repository's real REST API: router, middleware,
// request binding + validation, DTO conversion and handlers are the production ones. Requests are
// served in-process (the echo instance's ServeHTTP), so there is no port and no timing involved.
type HTTPOp struct {
	mu sync.Mutex
	h  http.Handler
	// Calls counts requests per endpoint (evidence: which handlers the workload reached).
	Calls map[string]int
}

// NewHTTPOp builds the REST API over node n's currently wired services.
func NewHTTPOp(n *Node) (*HTTPOp, error) {
	sp := &services.ServiceProvider{}
	sp.SetLogger(n.Logger)
	sp.SetState(n.State)
	sp.SetKeyStore(n.Keys)
	sp.SetStorage(n.NB)
	sp.SetFSMService(n.FSM)
	sp.SetOperationService(n.Ops)
	sp.SetSignatureService(n.Sigs)
	cfg := &config.Config{Username: n.Name, HttpApiConfig: &config.HttpApiConfig{ListenAddr: "127.0.0.1:0"}, KafkaStorageConfig: &config.KafkaStorageConfig{Topic: Topic}}
	srv := http_api.NewRESTApi(cfg, n.Svc, sp)
	f := reflect.ValueOf(srv).Elem().FieldByName("echoInstance")
	if !f.IsValid() {
		return nil, fmt.Errorf("RESTApiProvider has no echoInstance field")
	}
	h, ok := reflect.NewAt(f.Type(), unsafe.Pointer(f.UnsafeAddr())).Elem().Interface().(http.Handler)
	if !ok || h == nil {
		return nil, fmt.Errorf("echo instance is not an http.Handler")
	}
	return &HTTPOp{h: h, Calls: map[string]int{}}, nil
}

// APIError is a refusal by the API (status >= 400).
type APIError struct {
	Status int
	Msg    string
	// Panicked: the handler panicked (the real server would drop the connection)
	Panicked bool
}

func (e *APIError) Error() string { return fmt.Sprintf("api %d: %s", e.Status, e.Msg) }

func (a *HTTPOp) do(method, path string, q url.Values, body []byte) (json.RawMessage, error) {
	a.mu.Lock()
	a.Calls[path]++
	a.mu.Unlock()
	target := path
	if len(q) > 0 {
		target += "?" + q.Encode()
	}
	var rd io.Reader
	if body != nil {
		rd = bytes.NewReader(body)
	}
	req := httptest.NewRequest(method, target, rd)
	if body != nil {
		req.Header.Set("Content-Type", "application/json")
	}
	rec := httptest.NewRecorder()
	var pan interface{}
	func() {
		// net/http recovers a handler panic per connection (the client sees the connection drop)
		defer func() { pan = recover() }()
		a.h.ServeHTTP(rec, req)
	}()
	if pan != nil {
		return nil, &APIError{Status: 0, Msg: fmt.Sprintf("handler panicked: %v", pan), Panicked: true}
	}
	var env struct {
		Result       json.RawMessage `json:"result"`
		ErrorMessage string          `json:"error_message"`
	}
	_ = json.Unmarshal(rec.Body.Bytes(), &env)
	if rec.Code >= 400 || env.ErrorMessage != "" {
		msg := env.ErrorMessage
		if msg == "" {
			msg = rec.Body.String()
		}
		return nil, &APIError{Status: rec.Code, Msg: msg}
	}
	return env.Result, nil
}

func (a *HTTPOp) StartDKG(payload []byte) error {
	_, err := a.do("POST", "/startDKG", nil, payload)
	return err
}

func (a *HTTPOp) Operations() (map[string]*types.Operation, error) {
	res, err := a.do("GET", "/getOperations", nil, nil)
	if err != nil {
		return nil, err
	}
	var ops map[string]*types.Operation
	if err := json.Unmarshal(res, &ops); err != nil {
		return nil, fmt.Errorf("getOperations result does not parse: %w", err)
	}
	return ops, nil
}

func (a *HTTPOp) Operation(id string) (*types.Operation, error) {
	res, err := a.do("GET", "/getOperation", url.Values{"operationID": {id}}, nil)
	if err != nil {
		return nil, err
	}
	var op types.Operation
	if err := json.Unmarshal(res, &op); err != nil {
		return nil, err
	}
	return &op, nil
}

func (a *HTTPOp) Approve(opID string) error {
	bz, _ := json.Marshal(map[string]string{"operationID": opID})
	_, err := a.do("POST", "/approveDKGParticipation", nil, bz)
	return err
}

// Submit uploads a result operation exactly as the file the machine wrote (JSON of the operation).
func (a *HTTPOp) Submit(resultJSON []byte) error {
	_, err := a.do("POST", "/handleProcessedOperationJSON", nil, resultJSON)
	return err
}

func (a *HTTPOp) ProposeBatch(dkgID []byte, data map[string][]byte) error {
	bz, _ := json.Marshal(map[string]interface{}{"dkgID": dkgID, "data": data})
	_, err := a.do("POST", "/proposeSignBatchMessages", nil, bz)
	return err
}

func (a *HTTPOp) ProposeBaked(dkgID []byte, lo, hi int) error {
	bz, _ := json.Marshal(map[string]interface{}{"dkgID": dkgID, "range_start": lo, "range_end": hi})
	_, err := a.do("POST", "/proposeSignBakedMessages", nil, bz)
	return err
}

func (a *HTTPOp) Reinit(payload []byte) error {
	_, err := a.do("POST", "/reinitDKG", nil, payload)
	return err
}

// Signatures returns batch -> message id -> entries as /getSignatures serves them.
func (a *HTTPOp) Signatures(dkgID string) (map[string]map[string][]fsmtypes.ReconstructedSignature, error) {
	res, err := a.do("GET", "/getSignatures", url.Values{"dkgID": {dkgID}}, nil)
	if err != nil {
		return nil, err
	}
	var out map[string]map[string][]fsmtypes.ReconstructedSignature
	if err := json.Unmarshal(res, &out); err != nil {
		return nil, fmt.Errorf("getSignatures result does not parse: %w", err)
	}
	return out, nil
}

func (a *HTTPOp) Batches(dkgID string) (json.RawMessage, error) {
	return a.do("GET", "/getBatches", url.Values{"dkgID": {dkgID}}, nil)
}

func (a *HTTPOp) FSMDump(dkgID string) (json.RawMessage, error) {
	return a.do("GET", "/getFSMDump", url.Values{"dkgID": {dkgID}}, nil)
}

func (a *HTTPOp) FSMList() (json.RawMessage, error) { return a.do("GET", "/getFSMList", nil, nil) }

func (a *HTTPOp) Offset() (uint64, error) {
	res, err := a.do("GET", "/getOffset", nil, nil)
	if err != nil {
		return 0, err
	}
	var v uint64
	err = json.Unmarshal(res, &v)
	return v, err
}

func (a *HTTPOp) SaveOffset(o uint64) error {
	bz, _ := json.Marshal(map[string]uint64{"offset": o})
	_, err := a.do("POST", "/saveOffset", nil, bz)
	return err
}

func (a *HTTPOp) Username() (string, error) {
	res, err := a.do("GET", "/getUsername", nil, nil)
	if err != nil {
		return "", err
	}
	var s string
	err = json.Unmarshal(res, &s)
	return s, err
}

// Raw exposes the transport for hostile requests.
func (a *HTTPOp) Raw(method, path string, q url.Values, body []byte) (json.RawMessage, error) {
	return a.do(method, path, q, body)
}
