package props

import (
	"crypto/sha256"
	"encoding/hex"
	"encoding/json"
	"fmt"
	"os"
	"path/filepath"
	"sort"
	"strings"
	"sync"
	"time"

	"github.com/lidofinance/dc4bc/client/api/dto"
	"github.com/lidofinance/dc4bc/client/modules/state"
	oprepo "github.com/lidofinance/dc4bc/client/repositories/operation"
	"github.com/lidofinance/dc4bc/client/types"

	"verifharness/oracle"
	"verifharness/sched"
	"verifharness/world"
)

// C14: API requests concurrent with polling behave as if executed one at a time.
func init() { Register("C14", "exploration", checkC14) }

type c14Scenario struct {
	Name   string
	W      *world.World
	V      *world.Node
	Snap   map[string][]byte
	Board  int
	API    func() error // activity 0
	Poll   func() error // activity 1
	Closer func()
	// a schedule left both activities parked for good: the node cannot be used (or closed) any more
	slowSend         time.Duration // when > 0: the request's first board send of the next schedule takes this long
	apiOps           []string      // the request's sequence of gated calls in a serial run
	poisoned         bool
	deadlock         string
	deadlockReported bool
	hungReported     bool
}

// logicalState is the canonical, id/time-masked content the property speaks about.
func logicalState(v *world.Node, w *world.World, boardStart int) string {
	snap := v.Mem.Snapshot()
	var parts []string
	opsSummary := func(key string) string {
		var ops map[string]*types.Operation
		_ = json.Unmarshal(snap[key], &ops)
		var l []string
		for id, o := range ops {
			h := sha256.Sum256(o.Payload)
			if string(o.Type) == "reinit_dkg" {
				// its payload (and the id derived from it) carries run-dependent values: masked
				l = append(l, fmt.Sprintf("reinit_dkg/%s/%s", trunc(o.DKGIdentifier, 6), o.Event))
				continue
			}
			l = append(l, fmt.Sprintf("%s/%s/%s/%s/%s", id[:8], o.Type, trunc(o.DKGIdentifier, 6), hex.EncodeToString(h[:4]), o.Event))
		}
		sort.Strings(l)
		return strings.Join(l, ",")
	}
	parts = append(parts, "ops="+opsSummary(world.Topic+"_operations"), "deleted="+opsSummary(world.Topic+"_deleted_operations"))
	var rounds map[string][]byte
	_ = json.Unmarshal(snap[world.Topic+"_fsm_state"], &rounds)
	for _, r := range sortedKeys(rounds) {
		p, _ := oracle.Project(rounds[r], oracle.ProjOpts{})
		parts = append(parts, "round "+trunc(r, 6)+"="+oracle.Hash(p))
	}
	for _, k := range sortedKeys(snap) {
		if strings.HasPrefix(k, "signatures_") {
			parts = append(parts, "sigs "+trunc(k, 18)+"="+oracle.Hash(string(snap[k])))
		}
	}
	parts = append(parts, fmt.Sprintf("offset=%d", offsetOf(snap)), fmt.Sprintf("resets=%d", v.Mem.Resets))
	var sent []string
	for _, m := range w.Board.All()[boardStart:] {
		h := sha256.Sum256(m.Data)
		sent = append(sent, fmt.Sprintf("%s/%s/%s/%s", m.Event, m.SenderAddr, m.RecipientAddr, hex.EncodeToString(h[:4])))
	}
	parts = append(parts, "sent="+strings.Join(sent, ","))
	return strings.Join(parts, "\n")
}

func (s *c14Scenario) reset() {
	s.V.Mem.Restore(s.Snap)
	s.V.Mem.Resets = 0
	s.W.Board.Truncate(s.Board)
	s.W.Board.UnignoreMessages()
}

// runSchedule executes both activities under a baton plan and returns the final logical state.
func (s *c14Scenario) runSchedule(first int, plan []int) (final string, trace string, preempt int, errs [2]error, hung bool) {
	if s.poisoned {
		return "", "", 0, errs, true
	}
	s.reset()
	b := sched.NewBaton(first, plan)
	slow := s.slowSend
	apiGoid := int64(-1)
	gate := func(op, key string, val []byte) string {
		b.Point()
		if slow > 0 && op == "send" && sched.Goid() == apiGoid {
			// delay injection: the board is slow for the request's post (the request holds the node's lock)
			time.Sleep(slow)
			slow = 0
		}
		return ""
	}
	s.V.State.SetGate(gate)
	s.V.NB.SetGate(gate)
	var wg sync.WaitGroup
	run := func(id int, f func() error) {
		defer wg.Done()
		if id == 0 {
			apiGoid = sched.Goid()
		}
		b.Enter(id)
		defer b.Exit(id)
		defer func() {
			if r := recover(); r != nil {
				errs[id] = fmt.Errorf("PANIC: %v", r)
			}
		}()
		errs[id] = f()
	}
	wg.Add(2)
	go run(0, s.API)
	go run(1, s.Poll)
	done := make(chan struct{})
	go func() { wg.Wait(); close(done) }()
	dead, stacks, hung := b.AwaitOrDeadlock(done, 30*time.Second)
	b.Stop()
	if dead {
		// both activities are parked on locks of the node for good: the goroutines (and the locks they
		// hold) cannot be recovered, the scenario's node is not usable any more
		s.poisoned = true
		s.deadlock = stacks
		return "", string(b.Trace), b.Preemptions, errs, true
	}
	if hung {
		s.poisoned = true
		return
	}
	s.V.State.SetGate(nil)
	s.V.NB.SetGate(nil)
	return logicalState(s.V, s.W, s.Board), string(b.Trace), b.Preemptions, errs, false
}

func (s *c14Scenario) serial(first int) (string, [2]int) {
	s.reset()
	var pts [2]int
	cnt := 0
	var ops []string
	gate := func(op, key string, val []byte) string { cnt++; ops = append(ops, op); return "" }
	s.V.State.SetGate(gate)
	s.V.NB.SetGate(gate)
	acts := []func() error{s.API, s.Poll}
	cnt = 0
	_ = acts[first]()
	pts[first] = cnt
	if first == 0 {
		s.apiOps = append([]string{}, ops...)
	}
	cnt = 0
	_ = acts[1-first]()
	pts[1-first] = cnt
	s.V.State.SetGate(nil)
	s.V.NB.SetGate(nil)
	return logicalState(s.V, s.W, s.Board), pts
}

func checkC14(c *Ctx) {
	c.Rule = "controlled two-activity scheduler: one API request and one poll step (1-3 board messages) run in goroutines on the same real node service; every State/Storage call first asks for the baton. All schedules with at most 2 (quick) / 3 (thorough) pre-emptions are enumerated per (request kind, message kind) scenario, each replayed from a snapshot; the final logical state (operation pool, tombstones, round projections, signature stores, offset, messages posted; ids/times masked) must equal the final state of one of the two serial orders. Thorough adds a free-running soak of the same pairs on real LevelDB with the real Poll() under the Go race detector. A schedule after which every unfinished activity is parked on a mutex for good (wait states from the goroutine dump, no scheduling point reached on 12 consecutive samples) is a violation (deadlock). One schedule per scenario injects a slow board send; a refused reset on real LevelDB followed by a poll step runs under the hang observation; a reset onto directory D repeated (second request refused: D is in use) must leave the state in D on disk (a copy is opened like a restarted node would). distinct = distinct executed interleavings (grant traces)"
	c.Assumptions = []string{"MemState (one lock per call, like LevelDBState.Get/Set) for the enumerated schedules; LevelDBState itself only in the race soak", "scheduling granularity = State/Storage interface calls"}
	builders := []func(seed uint64) (*c14Scenario, error){scnSubmitVsProposal, scnApproveVsOtherRound, scnReinitFinishVsOtherRound, scnResetVsPoll, scnSaveOffsetVsPoll, scnSubmitVsSameRound, scnSubmitVsSignatures, scnReinitFinishVsSameRoundProposal, scnReinitFinishVsOtherReinit, scnSecondApproveVsOtherRound, scnListOperationsVsPoll, scnSubmitNewerOfTwoVsOtherRound}
	maxPre := c.Pick(2, 3)
	Parallel(len(builders), 8, func(bi int) {
		s, err := builders[bi](c.Seed*1000 + uint64(bi))
		if err != nil {
			c.Inconclusive("scenario %d: %v", bi, err)
			return
		}
		defer func() {
			if !s.poisoned {
				s.Closer()
			}
		}()
		ser0, pts := s.serial(0)
		ser1, _ := s.serial(1)
		// serial runs must be deterministic, otherwise the comparison is meaningless
		if again, _ := s.serial(0); again != ser0 {
			c.Inconclusive("scenario %s: serial execution is not deterministic under the projection: %s", s.Name, oracle.FirstDiff(ser0, again))
			return
		}
		seen := map[string]bool{}
		runs, bad := 0, 0
		try := func(first int, plan []int) {
			final, trace, pre, errs, hung := s.runSchedule(first, plan)
			runs++
			c.Eval(1)
			if hung && s.deadlock != "" {
				if !s.deadlockReported {
					s.deadlockReported = true
					bad++
					c.Violate("C14/deadlock:"+s.Name, fmt.Sprintf("scenario %s: under schedule first=%d plan=%v the API request and the poll step end up parked on each other's locks for good (every unfinished activity in a mutex wait, no scheduling point reached any more): neither takes effect, which equals neither serial order", s.Name, first, plan),
						map[string]interface{}{"scenario": s.Name, "first": first, "plan": plan, "grant_trace": trace, "stacks": s.deadlock})
				}
				return
			}
			if hung {
				if !s.hungReported {
					s.hungReported = true
					c.Inconclusive("scenario %s plan %v hung (watchdog); the rest of the scenario is skipped", s.Name, plan)
				}
				return
			}
			if s.slowSend > 0 {
				trace += "|slow-send"
			}
			if seen[trace] {
				return
			}
			seen[trace] = true
			c.Distinct(s.Name + "|" + trace)
			if final != ser0 && final != ser1 {
				bad++
				diff := diffLines(final, ser0)
				key := "C14/not-equivalent-to-a-serial-order:" + s.Name
				_ = diffKinds
				c.Violate(key, fmt.Sprintf("scenario %s: schedule with %d pre-emption(s) ends in a state equal to neither serial order; vs API-first: %s", s.Name, pre, trunc(diff, 300)),
					map[string]interface{}{"scenario": s.Name, "first": first, "plan": plan, "grant_trace": trace, "errors": fmt.Sprint(errs), "final": final, "serial_api_first": ser0, "serial_poll_first": ser1})
			}
		}
		pa, pb := pts[0], pts[1]
		for first := 0; first < 2; first++ {
			pf, po := pa, pb
			if first == 1 {
				pf, po = pb, pa
			}
			for s1 := 0; s1 <= pf; s1++ {
				try(first, []int{s1})
				if maxPre < 2 {
					continue
				}
				for s2 := 1; s2 <= po; s2++ {
					try(first, []int{s1, s2})
					if maxPre < 3 {
						continue
					}
					for s3 := 1; s3 <= pf-s1; s3++ {
						try(first, []int{s1, s2, s3})
					}
				}
			}
		}
		// one more schedule with a delay injected: the request is pre-empted right before its first board send
		// (it holds the node's lock), the poller starts, and the send then takes 0.8 s - a slow board. The
		// verdict is the same state comparison; the delay only widens the window.
		for i, op := range s.apiOps {
			if op == "send" {
				s.slowSend = 800 * time.Millisecond
				try(0, []int{i})
				s.slowSend = 0
				c.Add("schedules_with_a_slow_board_send", 1)
				break
			}
		}
		c.Add("schedules_run", runs)
		c.Add("schedules_not_serializable", bad)
		c.Sample(map[string]interface{}{"scenario": s.Name, "api_points": pa, "poll_points": pb, "schedules_run": runs, "distinct_interleavings": len(seen), "not_serializable": bad})
	})
	c.Exhaustive = true
	c14RefusedReset(c)
	c14ResetRepeated(c)
	if c.Thorough() {
		raceSoak(c)
	}
}

func diffLines(a, b string) string {
	la, lb := strings.Split(a, "\n"), strings.Split(b, "\n")
	var out []string
	for i := 0; i < len(la) || i < len(lb); i++ {
		x, y := "", ""
		if i < len(la) {
			x = la[i]
		}
		if i < len(lb) {
			y = lb[i]
		}
		if x != y {
			out = append(out, fmt.Sprintf("[%s] vs [%s]", trunc(x, 120), trunc(y, 120)))
		}
	}
	return strings.Join(out, "; ")
}

// diffKinds names which parts of the state differ from both serial finals (finding-key class).
func diffKinds(f, a, b string) string {
	kinds := map[string]bool{}
	for _, ref := range []string{a, b} {
		lf, lr := strings.Split(f, "\n"), strings.Split(ref, "\n")
		mr := map[string]bool{}
		for _, l := range lr {
			mr[l] = true
		}
		for _, l := range lf {
			if !mr[l] {
				k := l
				if i := strings.IndexAny(l, "= "); i > 0 {
					k = l[:i]
				}
				kinds[k] = true
			}
		}
	}
	return strings.Join(sortedKeys(kinds), "+")
}

// ---- scenarios ----

func baseWorld(seed uint64, n, t int) (*Ceremony, error) {
	return NewCeremony(seed, n, t, world.EagerPolicy)
}

// the slow signer holds two invitations of the same round (batch 1 was completed without it, batch 2 is being
// collected); it submits the answer to the newer one while the poller handles the opening of another round
func scnSubmitNewerOfTwoVsOtherRound(seed uint64) (*c14Scenario, error) {
	ce, err := baseWorld(seed, 3, 2)
	if err != nil {
		return nil, err
	}
	w := ce.W
	v := w.Nodes[2]
	if _, err := ce.RunBatch(BatchSpec{Proposer: 0, Signers: []int{0, 1}, NoLate: true, Data: map[string][]byte{"one": []byte("1")}}, world.EagerPolicy); err != nil {
		ce.Close()
		return nil, err
	}
	if err := w.ProposeSign(1, ce.Round, map[string][]byte{"two": []byte("2")}, nil); err != nil {
		ce.Close()
		return nil, err
	}
	_, _ = v.PollStep(0)
	ops := w.PendingOps(v)
	if len(ops) != 2 {
		ce.Close()
		return nil, fmt.Errorf("expected two pending invitations on the slow signer, have %d", len(ops))
	}
	newer := ops[0]
	if ops[1].CreatedAt.After(newer.CreatedAt) {
		newer = ops[1]
	}
	res, err := w.ColdResult(v, newer, false)
	if err != nil {
		ce.Close()
		return nil, err
	}
	if _, err := w.StartDKG(0, 2, now()); err != nil {
		ce.Close()
		return nil, err
	}
	s := &c14Scenario{Name: "submit-newer-of-two-answers||poll-opening-of-another-round", W: w, V: v, Snap: v.Mem.Snapshot(), Board: w.Board.Len(), Closer: ce.Close}
	s.API = func() error { return viaREST(v).Submit(mkReq(res)) }
	s.Poll = func() error { _, err := v.PollStep(0); return err }
	return s, nil
}

// submit the (late) answer to batch 1 while the poller handles the proposal of batch 2
func scnSubmitVsProposal(seed uint64) (*c14Scenario, error) {
	ce, err := baseWorld(seed, 3, 2)
	if err != nil {
		return nil, err
	}
	w := ce.W
	v := w.Nodes[2]
	if _, err := ce.RunBatch(BatchSpec{Proposer: 0, Signers: []int{0, 1}, NoLate: true, Data: map[string][]byte{"one": []byte("1")}}, world.EagerPolicy); err != nil {
		return nil, err
	}
	ops := w.PendingOps(v)
	if len(ops) != 1 {
		return nil, fmt.Errorf("expected the slow signer's pending operation, have %d", len(ops))
	}
	res, err := w.ColdResult(v, ops[0], false)
	if err != nil {
		return nil, err
	}
	if err := w.ProposeSign(0, ce.Round, map[string][]byte{"two": []byte("2")}, nil); err != nil {
		return nil, err
	}
	s := &c14Scenario{Name: "submit-answer||poll-new-proposal", W: w, V: v, Snap: v.Mem.Snapshot(), Board: w.Board.Len(), Closer: ce.Close}
	s.API = func() error { return viaREST(v).Submit(mkReq(res)) }
	s.Poll = func() error { _, err := v.PollStep(0); return err }
	return s, nil
}

// approve participation in round A while the poller handles the opening proposal of round B
func scnApproveVsOtherRound(seed uint64) (*c14Scenario, error) {
	w, err := world.NewWorld(world.Options{N: 2, T: 2, Seed: seed})
	if err != nil {
		return nil, err
	}
	v := w.Nodes[1]
	if _, err := w.StartDKG(0, 2, now()); err != nil {
		return nil, err
	}
	if _, err := v.PollStep(0); err != nil {
		return nil, err
	}
	ops := w.PendingOps(v)
	if len(ops) != 1 {
		return nil, fmt.Errorf("no confirmation operation")
	}
	if _, err := w.StartDKG(0, 2, now().Add(time.Hour)); err != nil {
		return nil, err
	}
	id := ops[0].ID
	s := &c14Scenario{Name: "approve-participation||poll-other-rounds-proposal", W: w, V: v, Snap: v.Mem.Snapshot(), Board: w.Board.Len(), Closer: w.Close}
	s.API = func() error { return viaREST(v).Approve(id) }
	s.Poll = func() error { _, err := v.PollStep(0); return err }
	return s, nil
}

// threeInvitations: the node holds two pending invitations (rounds R1, R2); the first one is approved (and
// thereby retired) before the scenario starts, the proposal of a third round waits on the board.
func threeInvitations(seed uint64) (*world.World, *world.Node, string, error) {
	w, err := world.NewWorld(world.Options{N: 2, T: 2, Seed: seed})
	if err != nil {
		return nil, nil, "", err
	}
	v := w.Nodes[1]
	for k := 0; k < 2; k++ {
		if _, err := w.StartDKG(0, 2, now().Add(time.Duration(k)*time.Hour)); err != nil {
			w.Close()
			return nil, nil, "", err
		}
		if _, err := v.PollStep(0); err != nil {
			w.Close()
			return nil, nil, "", err
		}
	}
	ops := w.PendingOps(v)
	if len(ops) != 2 {
		w.Close()
		return nil, nil, "", fmt.Errorf("expected two invitations, have %d", len(ops))
	}
	sort.Slice(ops, func(i, j int) bool { return ops[i].ID < ops[j].ID })
	if err := viaREST(v).Approve(ops[0].ID); err != nil {
		w.Close()
		return nil, nil, "", err
	}
	if _, err := w.StartDKG(0, 2, now().Add(5*time.Hour)); err != nil {
		w.Close()
		return nil, nil, "", err
	}
	return w, v, ops[1].ID, nil
}

// approve the second of two invitations (the first one was approved and retired just before) while the
// poller handles the proposal of a third round
func scnSecondApproveVsOtherRound(seed uint64) (*c14Scenario, error) {
	w, v, id, err := threeInvitations(seed)
	if err != nil {
		return nil, err
	}
	s := &c14Scenario{Name: "approve-after-an-earlier-approval||poll-other-rounds-proposal", W: w, V: v, Snap: v.Mem.Snapshot(), Board: w.Board.Len(), Closer: w.Close}
	s.API = func() error { return viaREST(v).Approve(id) }
	s.Poll = func() error { _, err := v.PollStep(0); return err }
	return s, nil
}

// a read-only request (the operator's client lists the pending operations once a second) right after an
// operation was retired, while the poller handles a proposal that creates a new one
func scnListOperationsVsPoll(seed uint64) (*c14Scenario, error) {
	w, v, _, err := threeInvitations(seed)
	if err != nil {
		return nil, err
	}
	s := &c14Scenario{Name: "list-operations||poll-other-rounds-proposal", W: w, V: v, Snap: v.Mem.Snapshot(), Board: w.Board.Len(), Closer: w.Close}
	s.API = func() error { _, err := viaREST(v).Operations(); return err }
	s.Poll = func() error { _, err := v.PollStep(0); return err }
	return s, nil
}

// finish a reinitialisation (writes the round map) while the poller handles a message of another round
func scnReinitFinishVsOtherRound(seed uint64) (*c14Scenario, error) {
	old, err := baseWorld(seed, 2, 2)
	if err != nil {
		return nil, err
	}
	var names []string
	for _, n := range old.W.Nodes {
		names = append(names, n.Name)
	}
	w, err := world.NewWorld(world.Options{N: 2, T: 2, Seed: seed, CommSeed: seed + 5, Names: names})
	if err != nil {
		old.Close()
		return nil, err
	}
	closer := func() { w.Close(); old.Close() }
	keys := map[string][]byte{}
	for _, n := range w.Nodes {
		keys[n.Name] = n.KeyPair.Pub
	}
	msgs, _ := old.W.Board.GetMessages(0)
	re, err := types.GenerateReDKGMessage(msgs, keys)
	if err != nil {
		closer()
		return nil, err
	}
	bz, _ := json.Marshal(re)
	if err := w.Nodes[0].Svc.ReInitDKG(&dto.ReInitDKGDTO{ID: re.DKGID, Payload: bz}); err != nil {
		closer()
		return nil, err
	}
	v := w.Nodes[1]
	if _, err := v.PollStep(0); err != nil {
		closer()
		return nil, err
	}
	var reinitOp *types.Operation
	for _, o := range w.PendingOps(v) {
		if string(o.Type) == "reinit_dkg" {
			reinitOp = o
		}
	}
	if reinitOp == nil {
		closer()
		return nil, fmt.Errorf("no reinit operation on the node")
	}
	res, err := w.ColdResult(v, reinitOp, false)
	if err != nil || res.Event != types.OperationProcessed {
		closer()
		return nil, fmt.Errorf("reinit through the machine failed: %v event=%s", err, res.Event)
	}
	if _, err := w.StartDKG(0, 2, now().Add(time.Hour)); err != nil {
		closer()
		return nil, err
	}
	s := &c14Scenario{Name: "finish-reinit||poll-other-rounds-proposal", W: w, V: v, Snap: v.Mem.Snapshot(), Board: w.Board.Len(), Closer: closer}
	s.API = func() error { return viaREST(v).Submit(mkReq(res)) }
	s.Poll = func() error { _, err := v.PollStep(0); return err }
	return s, nil
}

// finish a reinitialisation while the poller applies a signing proposal of the SAME round
func scnReinitFinishVsSameRoundProposal(seed uint64) (*c14Scenario, error) {
	s, err := scnReinitFinishVsOtherRound(seed)
	if err != nil {
		return nil, err
	}
	w := s.W
	// drop the other round's proposal; instead node 0 (already through its own replay, hence signing-idle)
	// proposes a batch for the reinitialised round
	w.Board.Truncate(s.Board - 1)
	var round string
	for _, o := range w.PendingOps(s.V) {
		if string(o.Type) == "reinit_dkg" {
			round = o.DKGIdentifier
		}
	}
	_, _ = w.Nodes[0].PollStep(0)
	if err := w.ProposeSign(0, round, map[string][]byte{"after-reinit": []byte("x")}, nil); err != nil {
		s.Closer()
		return nil, fmt.Errorf("peer cannot propose: %w", err)
	}
	s.Name = "finish-reinit||poll-signing-proposal-of-same-round"
	s.Snap = s.V.Mem.Snapshot()
	s.Board = w.Board.Len()
	return s, nil
}

// finish the reinitialisation of round S while the poller applies the reinit_dkg message of ANOTHER
// round R (whose embedded log it replays, rewriting the round map once per replayed message)
func scnReinitFinishVsOtherReinit(seed uint64) (*c14Scenario, error) {
	s, err := scnReinitFinishVsOtherRound(seed)
	if err != nil {
		return nil, err
	}
	w := s.W
	w.Board.Truncate(s.Board - 1) // drop the other round's opening proposal
	old2, err := baseWorld(seed+1000, 2, 2)
	if err != nil {
		s.Closer()
		return nil, err
	}
	prev := s.Closer
	s.Closer = func() { old2.Close(); prev() }
	keys := map[string][]byte{}
	for _, n := range w.Nodes {
		keys[n.Name] = n.KeyPair.Pub
	}
	msgs, _ := old2.W.Board.GetMessages(0)
	re, err := types.GenerateReDKGMessage(msgs, keys)
	if err != nil {
		s.Closer()
		return nil, err
	}
	bz, _ := json.Marshal(re)
	if err := w.Nodes[0].Svc.ReInitDKG(&dto.ReInitDKGDTO{ID: re.DKGID, Payload: bz}); err != nil {
		s.Closer()
		return nil, err
	}
	s.Name = "finish-reinit||poll-reinit-message-of-another-round"
	s.Snap = s.V.Mem.Snapshot()
	s.Board = w.Board.Len()
	return s, nil
}

// reset the state while the poller applies two messages
func scnResetVsPoll(seed uint64) (*c14Scenario, error) {
	w, err := world.NewWorld(world.Options{N: 2, T: 2, Seed: seed})
	if err != nil {
		return nil, err
	}
	v := w.Nodes[1]
	if _, err := w.StartDKG(0, 2, now()); err != nil {
		return nil, err
	}
	// node 0 confirms; v has not polled anything yet: two messages (proposal, confirmation) unread
	w.Nodes[0].PollStep(0)
	for _, o := range w.PendingOps(w.Nodes[0]) {
		_ = w.HandleOp(w.Nodes[0], o)
	}
	s := &c14Scenario{Name: "reset-state||poll-two-messages", W: w, V: v, Snap: v.Mem.Snapshot(), Board: w.Board.Len(), Closer: w.Close}
	s.API = func() error {
		_, err := viaREST(v).Raw("POST", "/resetState", nil, mkReq(map[string]interface{}{"new_state_dbdsn": "fresh"}))
		return err
	}
	s.Poll = func() error { _, err := v.PollStep(0); return err }
	return s, nil
}

// rewind the offset through the API while the poller applies two messages
func scnSaveOffsetVsPoll(seed uint64) (*c14Scenario, error) {
	s, err := scnResetVsPoll(seed)
	if err != nil {
		return nil, err
	}
	v := s.V
	s.Name = "save-offset-0||poll-two-messages"
	s.API = func() error { return viaREST(v).SaveOffset(0) }
	return s, nil
}

// submit the commit result while the poller applies the other participants' commits of the same round
func scnSubmitVsSameRound(seed uint64) (*c14Scenario, error) {
	w, err := world.NewWorld(world.Options{N: 3, T: 2, Seed: seed})
	if err != nil {
		return nil, err
	}
	v := w.Nodes[2]
	if _, err := w.StartDKG(0, 2, now()); err != nil {
		return nil, err
	}
	pollAll := func() {
		for _, nd := range w.Nodes {
			_, _ = nd.PollStep(0)
		}
	}
	pollAll() // everybody sees the proposal
	for _, nd := range w.Nodes {
		for _, o := range w.PendingOps(nd) {
			_ = w.HandleOp(nd, o) // approvals
		}
	}
	pollAll() // everybody sees the three confirmations and holds the commits operation
	var op *types.Operation
	for _, o := range w.PendingOps(v) {
		if string(o.Type) == OpCommits {
			op = o
		}
	}
	if op == nil {
		w.Close()
		return nil, fmt.Errorf("no commits operation")
	}
	res, err := w.ColdResult(v, op, false)
	if err != nil {
		w.Close()
		return nil, err
	}
	// the other two post their commits; v has not polled them yet
	for _, nd := range w.Nodes[:2] {
		for _, o := range w.PendingOps(nd) {
			_ = w.HandleOp(nd, o)
		}
	}
	s := &c14Scenario{Name: "submit-commit||poll-two-commits-of-same-round", W: w, V: v, Snap: v.Mem.Snapshot(), Board: w.Board.Len(), Closer: w.Close}
	s.API = func() error { return viaREST(v).Submit(mkReq(res)) }
	s.Poll = func() error { _, err := v.PollStep(0); return err }
	return s, nil
}

// submit the late answer to a batch while the poller stores the reconstructed signatures of that batch
func scnSubmitVsSignatures(seed uint64) (*c14Scenario, error) {
	ce, err := baseWorld(seed, 3, 2)
	if err != nil {
		return nil, err
	}
	w := ce.W
	v := w.Nodes[2]
	if err := w.ProposeSign(0, ce.Round, map[string][]byte{"one": []byte("1")}, nil); err != nil {
		return nil, err
	}
	_, _ = v.PollStep(0) // v sees the proposal and holds its operation, then lags
	for round := 0; round < 6; round++ {
		for _, nd := range w.Nodes[:2] {
			_, _ = nd.PollStep(0)
			for _, o := range w.PendingOps(nd) {
				_ = w.HandleOp(nd, o)
			}
		}
	}
	if len(BoardMsgs(w, ce.Round, EvSigRecon)) == 0 {
		ce.Close()
		return nil, fmt.Errorf("no reconstruction broadcast")
	}
	ops := w.PendingOps(v)
	if len(ops) != 1 {
		ce.Close()
		return nil, fmt.Errorf("expected one pending operation on the slow signer, have %d", len(ops))
	}
	res, err := w.ColdResult(v, ops[0], false)
	if err != nil {
		ce.Close()
		return nil, err
	}
	s := &c14Scenario{Name: "submit-late-answer||poll-answers-and-signatures", W: w, V: v, Snap: v.Mem.Snapshot(), Board: w.Board.Len(), Closer: ce.Close}
	s.API = func() error { return viaREST(v).Submit(mkReq(res)) }
	s.Poll = func() error { _, err := v.PollStep(int(v.Offset()) + 3); return err }
	return s, nil
}

// raceSoak is filled in by c14race.go
var raceSoak = func(c *Ctx) {}

// viaREST: the request activity of every scenario enters through the repository's REST layer (router,
// binding, handler), as the property says ("through the local API"), not by calling the node directly.
func viaREST(v *world.Node) *world.HTTPOp {
	a := apiFor(v)
	if a == nil {
		panic("REST API cannot be built for " + v.Name)
	}
	return a
}

// c14RefusedReset: the reset request with a store that cannot be opened is refused - and must then have no
// effect at all on what the poller does next. Played on the real LevelDB store (the request fails inside
// LevelDBState.Reset), in both serial orders; the poll step runs under the hang observation (a request that
// leaves a lock behind shows as a poller parked on a mutex for good).
// c14ResetRepeated: the same reset request given twice (an operator repeats the command, or two operators run
// it): the first moves the node onto directory D, the second names D again and is refused because D is the
// store in use. A refused request must have no effect: what the node holds (pending operation, round, read
// position) must still be on disk in D - judged by opening a copy of D the way a restarted node would.
func c14ResetRepeated(c *Ctx) {
	w, err := world.NewWorld(world.Options{N: 2, T: 2, Seed: c.Seed*257 + 3, UseLevelDB: true})
	if err != nil {
		c.Inconclusive("repeated-reset world: %v", err)
		return
	}
	defer w.Close()
	v := w.Nodes[1]
	round, err := w.StartDKG(0, 2, now())
	if err != nil {
		c.Inconclusive("repeated-reset world: %v", err)
		return
	}
	if _, err := v.PollStep(0); err != nil {
		c.Inconclusive("repeated-reset world: poll: %v", err)
		return
	}
	dir := filepath.Join(w.Dir, "state-after-reset")
	wit := map[string]interface{}{"scenario": "reset-state onto directory D, then the same request again (refused: D is in use), then poll"}
	if _, err := viaREST(v).Raw("POST", "/resetState", nil, mkReq(map[string]interface{}{"new_state_dbdsn": dir})); err != nil {
		c.Inconclusive("repeated-reset world: first reset refused: %v", err)
		return
	}
	_, _ = v.PollStep(0)
	if len(w.PendingOps(v)) == 0 {
		c.Inconclusive("repeated-reset world: no pending operation after the first reset and replay")
		return
	}
	_, rerr := viaREST(v).Raw("POST", "/resetState", nil, mkReq(map[string]interface{}{"new_state_dbdsn": dir}))
	c.Eval(1)
	c.Distinct(fmt.Sprintf("repeated-reset|second-refused=%v", rerr != nil))
	if rerr == nil {
		c.Note("the second reset onto the directory in use was accepted (not judged)")
		return
	}
	var perr error
	if hung, stk := runOrHang(func() { _, perr = v.PollStep(0) }); hung {
		wit["stack"] = trunc(stk, 1500)
		c.Violate("C14/deadlock:reset-state-refused||poll", "after a repeated reset request that was refused the poller never gets through again", wit)
		return
	}
	if perr != nil || len(w.PendingOps(v)) == 0 || int(v.Offset()) != w.Board.Len() {
		c.Violate("C14/not-equivalent-to-a-serial-order:reset-state-refused||poll", fmt.Sprintf("after a refused repeated reset and a poll: err=%v, %d pending operation(s), offset %d of %d (round %s in %q)", perr, len(w.PendingOps(v)), v.Offset(), w.Board.Len(), trunc(round, 6), NodeState(v, round)), wit)
		return
	}
	// what a restarted node would find in D
	cp := filepath.Join(w.Dir, "state-after-reset-copy")
	if err := world.CopyDir(dir, cp); err != nil {
		c.Violate("C14/refused-reset-lost-the-durable-state", fmt.Sprintf("after a refused repeated reset the node's state directory cannot be read any more: %v", err), wit)
		return
	}
	_ = os.Remove(filepath.Join(cp, "LOCK"))
	st, err := state.NewLevelDBState(cp, world.Topic)
	if err != nil {
		c.Violate("C14/refused-reset-lost-the-durable-state", fmt.Sprintf("after a refused repeated reset a copy of the node's state directory does not open: %v", err), wit)
		return
	}
	off, _ := st.LoadOffset()
	nOps := -1
	if repo, err := oprepo.NewOperationRepo(st, world.Topic); err == nil {
		if ops, err := repo.GetOperations(); err == nil {
			nOps = len(ops)
		}
	}
	if int(off) != int(v.Offset()) || nOps != len(w.PendingOps(v)) {
		c.Violate("C14/refused-reset-lost-the-durable-state", fmt.Sprintf("after a refused repeated reset the running node shows %d pending operation(s) at offset %d, a node restarted on its state directory finds %d at offset %d", len(w.PendingOps(v)), v.Offset(), nOps, off), wit)
	}
	c.Add("repeated_resets_judged_on_disk", 1)
}

func c14RefusedReset(c *Ctx) {
	for _, order := range []string{"reset-then-poll", "poll-then-reset-then-poll"} {
		w, err := world.NewWorld(world.Options{N: 2, T: 2, Seed: c.Seed*251 + uint64(len(order)), UseLevelDB: true})
		if err != nil {
			c.Inconclusive("refused-reset world: %v", err)
			return
		}
		func() {
			defer w.Close()
			v := w.Nodes[1]
			round, err := w.StartDKG(0, 2, now())
			if err != nil {
				c.Inconclusive("refused-reset world: %v", err)
				return
			}
			wit := map[string]interface{}{"scenario": "refused reset-state on LevelDB, then poll", "order": order}
			if order != "reset-then-poll" {
				if _, err := v.PollStep(0); err != nil {
					c.Inconclusive("refused-reset world: poll: %v", err)
					return
				}
				_, _ = w.StartDKG(0, 2, now().Add(time.Hour))
			}
			_, rerr := viaREST(v).Raw("POST", "/resetState", nil, mkReq(map[string]interface{}{"new_state_dbdsn": "/dev/null/x"}))
			c.Eval(1)
			c.Distinct("refused-reset|" + order)
			if rerr == nil {
				c.Note("reset onto /dev/null/x was accepted (not judged)")
				return
			}
			var perr error
			if hung, stk := runOrHang(func() { _, perr = v.PollStep(0) }); hung {
				wit["stack"] = trunc(stk, 1500)
				c.Violate("C14/deadlock:reset-state-refused||poll", "after a reset request that was refused (the new store cannot be opened) the poller never gets through again: parked on a mutex for good", wit)
				return
			}
			if perr != nil {
				c.Violate("C14/not-equivalent-to-a-serial-order:reset-state-refused||poll", fmt.Sprintf("the poll step after a refused reset fails: %v", perr), wit)
				return
			}
			if len(w.PendingOps(v)) == 0 || int(v.Offset()) != w.Board.Len() {
				c.Violate("C14/not-equivalent-to-a-serial-order:reset-state-refused||poll", fmt.Sprintf("after a refused reset and a poll: %d pending operation(s), offset %d of %d (round %s in %q)", len(w.PendingOps(v)), v.Offset(), w.Board.Len(), trunc(round, 6), NodeState(v, round)), wit)
			}
			c.Add("refused_resets_followed_by_a_poll", 1)
		}()
	}
}
