package props

import (
	"fmt"
	"os"
	"path/filepath"
	"strings"
	"sync"
	"time"

	"github.com/lidofinance/dc4bc/airgapped"
	"github.com/lidofinance/dc4bc/client/types"

	"verifharness/sched"
	"verifharness/world"
)

// runC04Expiry: the password-expiration timer of the airgapped prompt fires while a command is running.
//
// The prompt (cmd/airgapped) holds the machine's lock for the whole command and its timer goroutine
// calls Machine.DropSensitiveData. The harness plays both parts on the real machine: it takes the lock
// like the prompt does, starts the timer's call in a goroutine, waits until that goroutine has either
// finished or is parked on a mutex (observed in the runtime's goroutine dump), runs the command, and
// releases the lock. Afterwards the operator re-enters the password exactly as
// enterEncryptionPasswordIfNeeded does. One ceremony + one signed batch per operation type, the timer
// firing during the victim's first operation of that type.
//
// Oracle: whatever the schedule, the key material in the database opens under the operator's password
// and under no other (the empty one included), and the plaintext is not in the files.
func runC04Expiry(c *Ctx, seed uint64) {
	const n, t, victim = 2, 2, 2
	// the operation types the victim's machine sees, learnt from a plain run
	var order []string
	{
		w, err := world.NewWorld(world.Options{N: n, T: t, Seed: seed})
		if err != nil {
			c.Inconclusive("expiry: world: %v", err)
			return
		}
		seen := map[string]bool{}
		var mu sync.Mutex
		w.ResultHook = func(nd *world.Node, req, res *types.Operation) *types.Operation {
			mu.Lock()
			if nd.Idx == victim-1 && !seen[string(req.Type)] {
				seen[string(req.Type)] = true
				order = append(order, string(req.Type))
			}
			mu.Unlock()
			return res
		}
		round, err := w.StartDKG(0, t, now())
		if err == nil {
			w.Run(world.EagerPolicy, 4000)
			_ = w.ProposeSign(0, round, map[string][]byte{"a": []byte("expiry-a"), "b": []byte("expiry-b")}, nil)
			w.Run(world.EagerPolicy, 4000)
		}
		w.Close()
		if len(order) < 5 {
			c.Inconclusive("expiry: plain run shows only %d operation types at the victim", len(order))
			return
		}
	}
	Parallel(len(order), 4, func(oi int) {
		target := order[oi]
		wit := map[string]interface{}{"scenario": "password-expiry-during-a-command", "n": n, "t": t, "victim": victim - 1, "during": target, "case_seed": seed}
		w, err := world.NewWorld(world.Options{N: n, T: t, Seed: seed})
		if err != nil {
			c.Inconclusive("expiry: world: %v", err)
			return
		}
		defer w.Close()
		fired := false
		outcome := ""
		var lastSigning *types.Operation
		w.ResultHook = func(nd *world.Node, req, res *types.Operation) *types.Operation {
			if nd.Idx == victim-1 && string(req.Type) == OpSigning {
				cp := *req
				lastSigning = &cp
			}
			return res
		}
		w.ColdHook = func(nd *world.Node, op *types.Operation) (*types.Operation, error) {
			if nd.Idx != victim-1 || string(op.Type) != target || fired || nd.Cold == nil {
				return nil, nil
			}
			fired = true
			am := nd.Cold
			am.Lock() // the prompt's terExe
			done := make(chan struct{})
			gid := make(chan int64, 1)
			go func() { // the prompt's dropSensitiveDataByTicker
				gid <- sched.Goid()
				am.DropSensitiveData()
				close(done)
			}()
			g := <-gid
			parked := false
			for i := 0; i < 5000 && !parked; i++ {
				select {
				case <-done:
					parked = true
					outcome = "timer-ran-inside-the-command"
				default:
					if st, _ := sched.GoroutineStates([]int64{g}); sched.LockWait(st[g]) {
						parked = true
						outcome = "timer-waited-for-the-command"
					} else {
						time.Sleep(time.Millisecond)
					}
				}
			}
			if !parked {
				am.Unlock()
				<-done
				c.Inconclusive("expiry: the timer goroutine neither finished nor parked on the machine lock")
				return nil, nil
			}
			res, rerr := func() (r *types.Operation, e error) {
				defer func() {
					if p := recover(); p != nil {
						e = fmt.Errorf("PANIC in the command: %v", p)
					}
				}()
				return w.ColdResult(nd, op, false)
			}()
			am.Unlock()
			select {
			case <-done:
			case <-time.After(30 * time.Second):
				c.Inconclusive("expiry: DropSensitiveData did not return after the command released the lock")
				return res, rerr
			}
			// next command: the prompt asks for the password again
			if am.SensitiveDataRemoved() {
				// the operator mistypes the password first: the prompt's check (InitKeys) must refuse it
				am.SetEncryptionKey([]byte(world.Password + "x"))
				c.Add("mistyped_passwords_entered_after_an_expiry", 1)
				if err := am.InitKeys(); err == nil {
					c.Violate("C04/wrong-password-accepted-after-expiry", fmt.Sprintf("after the password expired during %s the machine accepted a mistyped password (the prompt's check passed)", target), wit)
				}
				am.DropSensitiveData()
				am.SetEncryptionKey([]byte(world.Password))
				if err := am.LoadKeysFromDB(); err != nil {
					c.Violate("C04/keys-do-not-load-with-right-password", fmt.Sprintf("after the password expired during %s: %v", target, err), wit)
				}
			} else {
				c.Inconclusive("expiry: sensitive data still present after DropSensitiveData returned")
			}
			return res, rerr
		}
		round, err := w.StartDKG(0, t, now())
		if err != nil {
			c.Inconclusive("expiry: start: %v", err)
			return
		}
		w.Run(world.EagerPolicy, 4000)
		var runErr error
		if NodeState(w.Nodes[0], round) == StIdle {
			if runErr = w.ProposeSign(0, round, map[string][]byte{"a": []byte("expiry-a"), "b": []byte("expiry-b")}, nil); runErr == nil {
				w.Run(world.EagerPolicy, 4000)
			}
		}
		c.Eval(1)
		if !fired {
			c.Inconclusive("expiry: no %s operation reached the victim", target)
			return
		}
		wit["outcome"] = outcome
		wit["run_error"] = fmt.Sprint(runErr)
		wit["end_states"] = fmt.Sprint(NodeState(w.Nodes[0], round), "/", NodeState(w.Nodes[1], round))
		c.Distinct("expiry|" + target + "|" + outcome)
		c.Add("expiry_"+outcome, 1)
		judgeStoredSecrets(c, w, w.Nodes[victim-1], sched.Derive(seed, 404, uint64(oi)), wit)
		// the running machine after its password expired / with a wrong password set: a signing operation
		// must not be answered with a partial signature (the share has to come through the password)
		if lastSigning != nil && w.Nodes[victim-1].Cold != nil {
			am := w.Nodes[victim-1].Cold
			for _, how := range []string{"expired", "wrong-password"} {
				am.DropSensitiveData()
				if how == "wrong-password" {
					am.SetEncryptionKey([]byte("not the operator's password"))
				}
				c.Eval(1)
				res, err := func() (r types.Operation, e error) {
					defer func() {
						if p := recover(); p != nil {
							e = fmt.Errorf("PANIC: %v", p)
						}
					}()
					return am.GetOperationResult(*lastSigning)
				}()
				c.Distinct("signing-on-a-locked-machine|" + how)
				c.Add("signing_operations_fed_to_a_locked_machine", 1)
				if err == nil && string(res.Event) == EvPartialSign {
					c.Violate("C04/share-used-without-the-password", fmt.Sprintf("the running machine (%s) answered a signing operation with a partial signature", how), wit)
				}
			}
			am.SetEncryptionKey([]byte(world.Password))
			_ = am.LoadKeysFromDB()
		}
	})
}

// judgeStoredSecrets opens a copy of the machine's database under wrong passwords (must fail) and the
// right one (must work).
func judgeStoredSecrets(c *Ctx, w *world.World, nd *world.Node, r *sched.Rng, wit map[string]interface{}) {
	judgeSecretsIn(c, w.Dir, nd.ColdDir, fmt.Sprintf("machine %d", nd.Idx), r, wit)
}

// judgeSecretsIn: srcDB is a machine's LevelDB directory (possibly still open elsewhere).
func judgeSecretsIn(c *Ctx, workDir, srcDB, label string, r *sched.Rng, wit map[string]interface{}) {
	copyDir := filepath.Join(workDir, fmt.Sprintf("pwcopy_x_%d", r.Intn(1<<30)), "db")
	_ = os.MkdirAll(filepath.Dir(copyDir), 0o755)
	// the copy is taken the way a thief would take it: the files as they are
	if err := world.CopyDir(srcDB, copyDir); err != nil {
		c.Inconclusive("copy: %v", err)
		return
	}
	_ = os.Remove(filepath.Join(copyDir, "LOCK"))
	// every sealed record (long-term key pair, one keyring per round) is AES-GCM under ONE key (one salt per
	// database): a nonce (the first 12 bytes of a record) seen twice gives the XOR of two plaintexts away
	// to anybody holding the files
	if dump, err := world.DumpLevelDB(copyDir); err == nil {
		seen := map[string]string{}
		for k, v := range dump {
			if k != "public_key" && k != "private_key" && !strings.Contains(k, "keyring") {
				continue
			}
			if len(v) < 12 {
				continue
			}
			c.Add("sealed_records_inspected", 1)
			nonce := string(v[:12])
			if other, dup := seen[nonce]; dup {
				c.Violate("C04/nonce-reused-between-sealed-records", fmt.Sprintf("%s: records %q and %q are sealed under the same key with the same AES-GCM nonce", label, trunc(other, 24), trunc(k, 24)), wit)
			}
			seen[nonce] = k
		}
	}
	am, err := airgapped.NewMachine(copyDir)
	if err != nil {
		c.Inconclusive("open copy: %v", err)
		return
	}
	tmp := &world.Node{Cold: am}
	defer tmp.CloseHandles()
	type pw struct {
		label string
		key   []byte
	}
	pws := []pw{{"nil", nil}, {"empty", []byte{}}}
	for _, l := range []int{1, 8, len(world.Password), 32} {
		pws = append(pws, pw{fmt.Sprintf("%d zero bytes", l), make([]byte, l)})
	}
	// the operator's password with blanks or a line terminator around it is another password
	// (not tried: the password followed by NUL bytes - scrypt's PBKDF2-HMAC pads a short key with zeros, so
	// that is the same key for the primitive, and it cannot be typed at the prompt)
	for _, v := range []string{world.Password + " ", " " + world.Password, world.Password + "\n", world.Password + "\r\n", "\t" + world.Password} {
		pws = append(pws, pw{fmt.Sprintf("%q", v), []byte(v)})
	}
	for k := 1; k < 8; k++ {
		s := fmt.Sprintf("%s%x", []string{"", "x", world.Password[:len(world.Password)-1], world.Password + " "}[k%4], r.Bytes(k%5))
		if s != world.Password {
			pws = append(pws, pw{fmt.Sprintf("%q", s), []byte(s)})
		}
	}
	for _, p := range pws {
		am.SetEncryptionKey(p.key)
		c.Eval(1)
		if err := am.LoadKeysFromDB(); err == nil {
			c.Violate("C04/keys-load-with-wrong-password", fmt.Sprintf("%s password %s", label, p.label), wit)
		}
		if krs, err := am.GetBLSKeyrings(); err == nil && len(krs) > 0 {
			c.Violate("C04/keyrings-load-with-wrong-password", fmt.Sprintf("%s password %s", label, p.label), wit)
		}
		c.Add("wrong_password_attempts", 1)
	}
	am.SetEncryptionKey([]byte(world.Password))
	if err := am.LoadKeysFromDB(); err != nil {
		c.Violate("C04/keys-do-not-load-with-right-password", err.Error(), wit)
	}
	if _, err := am.GetBLSKeyrings(); err != nil {
		c.Violate("C04/keyrings-do-not-load-with-right-password", err.Error(), wit)
	}
}
