package props

import (
	"bytes"
	"encoding/base64"
	"encoding/gob"
	"encoding/hex"
	"encoding/json"
	"fmt"
	"os"
	"path/filepath"
	"strings"
	"sync"
	"time"

	"github.com/corestario/kyber"
	"github.com/corestario/kyber/encrypt/ecies"

	"github.com/lidofinance/dc4bc/client/types"
	"github.com/lidofinance/dc4bc/fsm/types/requests"

	"verifharness/oracle"
	"verifharness/sched"
	"verifharness/world"
)

// C04: secrets stay inside the airgapped machine and are never reused across rounds.
func init() { Register("C04", "exploration", checkC04) }

type needle struct {
	Name string
	Raw  []byte
}

func reverse(b []byte) []byte {
	o := make([]byte, len(b))
	for i := range b {
		o[len(b)-1-i] = b[i]
	}
	return o
}

// forms returns every searched encoding of a needle.
func (n needle) forms() map[string][]byte {
	out := map[string][]byte{}
	for tag, raw := range map[string][]byte{"be": n.Raw, "le": reverse(n.Raw)} {
		out[tag+"/raw"] = raw
		out[tag+"/hex"] = []byte(hex.EncodeToString(raw))
		out[tag+"/HEX"] = bytes.ToUpper([]byte(hex.EncodeToString(raw)))
		out[tag+"/b64std"] = []byte(base64.StdEncoding.EncodeToString(raw))
		out[tag+"/b64url"] = []byte(base64.URLEncoding.EncodeToString(raw))
		out[tag+"/b64raw"] = []byte(base64.RawStdEncoding.EncodeToString(raw))
	}
	return out
}

// expand returns blob plus everything that can be decoded out of it, recursively.
func expand(blob []byte, depth int, out *[][]byte) {
	*out = append(*out, blob)
	if depth <= 0 || len(blob) < 8 {
		return
	}
	// JSON: every string and the document's nested values
	var v interface{}
	if json.Unmarshal(blob, &v) == nil {
		var walkv func(x interface{})
		walkv = func(x interface{}) {
			switch t := x.(type) {
			case string:
				expand([]byte(t), depth-1, out)
			case []interface{}:
				for _, e := range t {
					walkv(e)
				}
			case map[string]interface{}:
				for _, e := range t {
					walkv(e)
				}
			}
		}
		switch v.(type) {
		case map[string]interface{}, []interface{}:
			walkv(v)
		case string:
			walkv(v)
		}
	}
	s := string(bytes.TrimSpace(blob))
	for _, enc := range []*base64.Encoding{base64.StdEncoding, base64.URLEncoding, base64.RawStdEncoding, base64.RawURLEncoding} {
		if d, err := enc.DecodeString(s); err == nil && len(d) >= 8 {
			expand(d, depth-1, out)
			break
		}
	}
	if d, err := hex.DecodeString(s); err == nil && len(d) >= 8 {
		expand(d, depth-1, out)
	}
	// gob-encoded scalar/struct payloads: try to pull byte slices out
	var gb []byte
	if gob.NewDecoder(bytes.NewReader(blob)).Decode(&gb) == nil && len(gb) >= 8 {
		expand(gb, depth-1, out)
	}
}

func searchNeedles(c *Ctx, where string, blob []byte, needles []needle, wit map[string]interface{}) int {
	var parts [][]byte
	expand(blob, 6, &parts)
	for _, n := range needles {
		for form, pat := range n.forms() {
			for _, p := range parts {
				if len(pat) >= 16 && bytes.Contains(p, pat) {
					c.Violate("C04/secret-leaves-the-machine:"+n.Name, fmt.Sprintf("%s contains the %s (%s encoding)", where, n.Name, form), wit)
				}
			}
		}
	}
	return len(parts)
}

type c04Machine struct {
	sk     kyber.Scalar
	seed   []byte
	poly   [][]byte // dealer secret coefficients (for the round's threshold)
	needle []needle
}

func checkC04(c *Ctx) {
	c.Rule = "(a) every result operation a machine hands out during full ceremonies, signing, reinitialisation and deliberately failing operations is decoded recursively (JSON strings, base64 std/url, hex, gob; depth 6) and searched for the long-term private scalar, the seed, each coefficient of the dealer's secret polynomial and the BLS share in raw/hex/base64 forms and both byte orders; every needle is first validated against public values (sk*G == GetPubKey, Commit(f) == broadcast commitments). (b) every deal ciphertext is tried with every non-addressee's private key (must fail) and the addressee's (must open). (c) ten wrong passwords per machine: LoadKeysFromDB and GetBLSKeyrings must fail; the raw LevelDB files are searched for the private key and the share. (d) pairs of rounds on the same machines (same/different threshold, same/permuted/partly different participants): group key, shares and dealer commitment vectors must differ. (h) monitor over the Schnorr nonces inside the deals with machines restarted between and inside rounds. (i) the prompt's password-expiration timer (DropSensitiveData in a goroutine, the harness holding the machine lock like cmd/airgapped does; the goroutine's wait state is read from the goroutine dump) fires during each operation type; afterwards the database must open under the operator's password and under no other. (j) the same password judgement on the database left by the shipped cmd/airgapped binary operated through its prompt on a pseudo-terminal (child process). After (i): the running machine, locked (DropSensitiveData) or with a wrong password set, is fed a signing operation and must not answer with a partial signature. Nonce monitor: the sealed records of every judged database (AES-GCM under one key) must carry pairwise different nonces; the real binary completes further rounds in separate process lives. distinct = distinct (part, n, t, operation type or pair shape)"
	c.Assumptions = []string{"the harness knows the mnemonic, hence the seed; re-derived secrets that do not validate against public values are reported inconclusive, never skipped silently", "the clause 'nothing learned in one round helps against another' is decided through its observable consequences only"}
	cases := ntCases(c.Pick(4, 5))
	Parallel(len(cases), 8, func(i int) { runC04Ceremony(c, cases[i].N, cases[i].T, c.Seed*137+uint64(i)) })
	runC04RoundPairs(c)
	// (e) ceremonies with a dealer whose broadcast commitments contradict its deals: the honest machines
	// answer with error results, which are searched like every other result
	var fj []struct {
		n, t, D int
		kind    string
	}
	for _, nt := range []ntCase{{3, 2}, {2, 2}, {4, 3}}[:c.Pick(2, 3)] {
		for _, k := range []string{"commitments-swapped", "commitments-of-another-dealer", "commitments-shortened", "commitments-lengthened"} {
			for D := 0; D < nt.N; D++ {
				if !c.Thorough() && D != (len(fj)+int(c.Seed))%nt.N {
					continue
				}
				fj = append(fj, struct {
					n, t, D int
					kind    string
				}{nt.N, nt.T, D, k})
			}
		}
	}
	Parallel(len(fj), 8, func(i int) { runC04Faulty(c, fj[i].n, fj[i].t, fj[i].D, fj[i].kind, c.Seed*149+uint64(i)) })
	// (f) participants whose names are near-duplicates (case, surrounding whitespace, a common prefix):
	// every deal still opens under its addressee's key only
	nameSets := [][]string{{"Alice", "alice", "bob"}, {"carol", "carol ", "CAROL", " carol"}, {"node", "node_", "node_1", "Node_1"}}
	Parallel(len(nameSets), 4, func(i int) { runC04Names(c, nameSets[i], c.Seed*151+uint64(i)) })
	// (h) nonces of the signatures made with the long-term key (sequential: UseOpLog is process-wide)
	for i := 0; i < c.Pick(2, 8); i++ {
		runC04Nonces(c, c.Seed*163+uint64(i))
	}
	// (i) the prompt's password-expiration timer firing while a command runs
	for i := 0; i < c.Pick(1, 4); i++ {
		runC04Expiry(c, c.Seed*167+uint64(i))
	}
	// (j) what the shipped binary, operated through its prompt, leaves on disk (child process)
	c.RunPartInChild("c04proc", "C04/real-binary-part-died")
	// (g) user names re-bound to other machines between two rounds
	Parallel(c.Pick(2, 12), 4, func(i int) { runC04Swapped(c, c.Seed*157+uint64(i)) })
}

// runC04Swapped: after a completed round two operators swap machines (the same user names are now
// bound to other long-term keys); in the next round every deal must open under the key of the machine
// that is NOW behind the addressee's name, and under no other.
func runC04Swapped(c *Ctx, seed uint64) {
	n, t := 3+int(seed%2), 2
	wit := map[string]interface{}{"family": "machines swapped between two rounds", "n": n, "t": t, "case_seed": seed}
	w, err := world.NewWorld(world.Options{N: n, T: t, Seed: seed})
	if err != nil {
		c.Inconclusive("world: %v", err)
		return
	}
	ce := &Ceremony{W: w, N: n, T: t}
	defer ce.Close()
	if ce.Round, err = w.StartDKG(0, t, now()); err != nil {
		c.Inconclusive("start: %v", err)
		return
	}
	w.Run(world.RandomPolicy, 6000)
	if !ce.AllIn(StIdle) {
		c.Inconclusive("first round: %v", ce.States())
		return
	}
	a, b := w.Nodes[1], w.Nodes[n-1]
	if seed%2 == 0 {
		a.Cold, b.Cold = b.Cold, a.Cold
		a.ColdDir, b.ColdDir = b.ColdDir, a.ColdDir
		a.Mnemonic, b.Mnemonic = b.Mnemonic, a.Mnemonic
	} else {
		// one operator's machine is replaced by a new one (new seed) instead
		wit["family"] = "a machine replaced between two rounds"
		dir := filepath.Join(w.Dir, "replacement", "db")
		_ = os.MkdirAll(filepath.Dir(dir), 0o755)
		mn := world.MnemonicFor(sched.Derive(seed, 0x4E57))
		nm, err := world.OpenCold(dir, mn, world.Password)
		if err != nil {
			c.Inconclusive("replacement machine: %v", err)
			return
		}
		b.AbandonCold(nm)
		b.ColdDir, b.Mnemonic = dir, mn
	}
	suite := oracle.NewSuite()
	sks := make([]kyber.Scalar, n)
	for i, nd := range w.Nodes {
		sks[i] = oracle.LongTermKey(oracle.SeedFromMnemonic(nd.Mnemonic))
		if !suite.Point().Mul(sks[i], nil).Equal(nd.Cold.GetPubKey()) {
			c.Inconclusive("long-term key of %s does not validate after the swap", nd.Name)
			return
		}
	}
	ce2 := &Ceremony{W: w, N: n, T: t}
	if ce2.Round, err = w.StartDKG(1, t, now().Add(time.Second)); err != nil {
		c.Inconclusive("second start: %v", err)
		return
	}
	w.Run(world.RandomPolicy, 6000)
	deals := 0
	for _, m := range BoardMsgs(w, ce2.Round, EvDeal) {
		var r requests.DKGProposalDealConfirmationRequest
		if json.Unmarshal(m.Data, &r) != nil || string(r.Deal) == "self-confirm" {
			continue
		}
		deals++
		for i, nd := range w.Nodes {
			_, err := ecies.Decrypt(suite, sks[i], r.Deal, suite.Hash)
			c.Eval(1)
			if nd.Name == m.RecipientAddr {
				if err != nil {
					c.Violate("C04/addressee-cannot-open-its-deal", fmt.Sprintf("second round (%v): %s -> %s: %v", wit["family"], m.SenderAddr, m.RecipientAddr, err), wit)
				}
			} else if err == nil {
				c.Violate("C04/deal-opens-under-a-non-addressee-key", fmt.Sprintf("second round (%v): deal %s -> %s opens under the key of the machine now behind %s", wit["family"], m.SenderAddr, m.RecipientAddr, nd.Name), wit)
			}
		}
	}
	c.Distinct(fmt.Sprintf("swapped-machines|n%d", n))
	c.Add("deals_after_a_machine_swap", deals)
	if deals == 0 {
		c.Inconclusive("no deal was posted in the round after the swap (states %v)", ce2.States())
	} else if !ce2.AllIn(StIdle) {
		c.Violate("C04/addressee-cannot-open-its-deal", fmt.Sprintf("the round after the swap does not complete: %v", ce2.States()), wit)
	}
}

// schnorrMonitor watches the Schnorr signatures a dealer makes with its long-term key (inside the deals
// its machine hands out). Two sound rules, each of which would let the reader of the signature compute
// the private key: (1) the same commitment R under two different responses s (one nonce, two messages);
// (2) R equal to a public point of the signer (long-term public key, a broadcast polynomial commitment):
// then the nonce is a secret whose public image is known and s = k + h*x gives x.
type schnorrMonitor struct {
	seenR  map[string]string // dealer|R -> s
	public map[string]string // point -> what it is
	sigs   int
}

func newSchnorrMonitor() *schnorrMonitor {
	return &schnorrMonitor{seenR: map[string]string{}, public: map[string]string{}}
}

func (sm *schnorrMonitor) observe(c *Ctx, dealer, where string, sig []byte, wit map[string]interface{}) {
	if len(sig) <= 32 {
		return
	}
	sm.sigs++
	R, sv := hex.EncodeToString(sig[:len(sig)-32]), hex.EncodeToString(sig[len(sig)-32:])
	if what, ok := sm.public[R]; ok {
		c.Violate("C04/signature-nonce-is-a-secret-with-a-public-image", fmt.Sprintf("%s: the commitment R of a Schnorr signature by %s equals %s, so the signature reveals that secret (and with it the long-term private key)", where, dealer, what), wit)
	}
	if prev, ok := sm.seenR[dealer+"|"+R]; ok && prev != sv {
		c.Violate("C04/signature-nonce-reused-for-another-message", fmt.Sprintf("%s: %s signed two different messages with the same nonce: the long-term private key follows from the two signatures", where, dealer), wit)
	}
	sm.seenR[dealer+"|"+R] = sv
}

// observeDeals opens every deal of the round with its addressee's key and feeds the signatures inside.
func (sm *schnorrMonitor) observeDeals(c *Ctx, w *world.World, round string, sks []kyber.Scalar, wit map[string]interface{}) {
	suite := oracle.NewSuite()
	for _, m := range BoardMsgs(w, round, EvDeal) {
		var r requests.DKGProposalDealConfirmationRequest
		if json.Unmarshal(m.Data, &r) != nil || string(r.Deal) == "self-confirm" {
			continue
		}
		for i, nd := range w.Nodes {
			if nd.Name != m.RecipientAddr {
				continue
			}
			plain, err := ecies.Decrypt(suite, sks[i], r.Deal, suite.Hash)
			if err != nil {
				continue
			}
			var d struct {
				Index     uint32
				Deal      struct{ DHKey, Signature, Nonce, Cipher []byte }
				Signature []byte
			}
			if json.Unmarshal(plain, &d) != nil {
				continue
			}
			where := fmt.Sprintf("deal %s -> %s of round %s", m.SenderAddr, m.RecipientAddr, trunc(round, 8))
			sm.observe(c, m.SenderAddr, where+" (signature over the deal)", d.Signature, wit)
			sm.observe(c, m.SenderAddr, where+" (signature over the ephemeral key)", d.Deal.Signature, wit)
		}
	}
}

// runC04Nonces: two rounds on the same machines with every machine stopped and reopened from its
// database in between (keys loaded, not generated, in the process that runs the second round).
func runC04Nonces(c *Ctx, seed uint64) {
	n, t := 3, 2
	wit := map[string]interface{}{"family": "signature nonces; machines restarted between two rounds", "n": n, "t": t, "case_seed": seed}
	w, err := world.NewWorld(world.Options{N: n, T: t, Seed: seed})
	if err != nil {
		c.Inconclusive("world: %v", err)
		return
	}
	defer w.Close()
	suite := oracle.NewSuite()
	sm := newSchnorrMonitor()
	sks := make([]kyber.Scalar, n)
	for i, nd := range w.Nodes {
		sks[i] = oracle.LongTermKey(oracle.SeedFromMnemonic(nd.Mnemonic))
		pub := nd.Cold.GetPubKey()
		if !suite.Point().Mul(sks[i], nil).Equal(pub) {
			c.Inconclusive("long-term key of %s does not validate", nd.Name)
			return
		}
		sm.public[hex.EncodeToString(oracle.PointBytes(pub))] = "the long-term public key of " + nd.Name
	}
	world.UseOpLog = true
	defer func() { world.UseOpLog = false }()
	for k := 0; k < 2; k++ {
		ce := &Ceremony{W: w, N: n, T: t}
		if k == 1 {
			// in the second round one machine is additionally stopped in the middle of the deals step (result
			// computed, nothing logged), reopened and replayed: what it publishes afterwards is observed too
			done := false
			w.ColdHook = func(nd *world.Node, op *types.Operation) (*types.Operation, error) {
				if !done && nd.Idx == int(seed%uint64(n)) && string(op.Type) == OpDeals {
					done = true
					if in, err := world.JSONRoundTrip(op); err == nil {
						_, _ = nd.Cold.GetOperationResult(*in)
					}
					if _, _, _, err := restartMachine(w, nd, op.DKGIdentifier, 3000); err != nil {
						return nil, err
					}
				}
				return nil, nil
			}
		}
		if ce.Round, err = w.StartDKG(k, t, now().Add(time.Duration(k)*time.Second)); err != nil {
			c.Inconclusive("start %d: %v", k, err)
			return
		}
		w.Run(world.RandomPolicy, 6000)
		if !ce.AllIn(StIdle) {
			c.Inconclusive("round %d: %v", k, ce.States())
			return
		}
		for _, m := range BoardMsgs(w, ce.Round, EvCommit) {
			var r requests.DKGProposalCommitConfirmationRequest
			var cs [][]byte
			if json.Unmarshal(m.Data, &r) == nil && json.Unmarshal(r.Commit, &cs) == nil {
				for j, p := range cs {
					sm.public[hex.EncodeToString(p)] = fmt.Sprintf("commitment %d broadcast by %s", j, m.SenderAddr)
				}
			}
		}
		sm.observeDeals(c, w, ce.Round, sks, wit)
		if k == 0 {
			for i, nd := range w.Nodes {
				if _, _, _, err := restartMachine(w, nd, ce.Round, 2000+i); err != nil {
					c.Inconclusive("machine restart: %v", err)
					return
				}
			}
		}
	}
	c.Eval(1)
	c.Add("schnorr_signatures_observed", sm.sigs)
	c.Distinct("signature-nonces|restart-between-rounds")
	if sm.sigs == 0 {
		c.Inconclusive("no signature could be read from the deals")
	}
}

func runC04Names(c *Ctx, names []string, seed uint64) {
	n, t := len(names), 2
	wit := map[string]interface{}{"names": names, "t": t, "case_seed": seed}
	w, err := world.NewWorld(world.Options{N: n, T: t, Seed: seed, Names: names})
	if err != nil {
		c.Inconclusive("world: %v", err)
		return
	}
	ce := &Ceremony{W: w, N: n, T: t}
	defer ce.Close()
	suite := oracle.NewSuite()
	sks := make([]kyber.Scalar, n)
	for i, nd := range w.Nodes {
		sks[i] = oracle.LongTermKey(oracle.SeedFromMnemonic(nd.Mnemonic))
		if !suite.Point().Mul(sks[i], nil).Equal(nd.Cold.GetPubKey()) {
			c.Inconclusive("long-term key of %q does not validate", nd.Name)
			return
		}
	}
	if ce.Round, err = w.StartDKG(0, t, now()); err != nil {
		c.Inconclusive("start with names %q: %v", names, err)
		return
	}
	w.Run(world.RandomPolicy, 6000)
	deals := 0
	for _, m := range BoardMsgs(w, ce.Round, EvDeal) {
		var r requests.DKGProposalDealConfirmationRequest
		if json.Unmarshal(m.Data, &r) != nil || string(r.Deal) == "self-confirm" {
			continue
		}
		deals++
		for i, nd := range w.Nodes {
			_, err := ecies.Decrypt(suite, sks[i], r.Deal, suite.Hash)
			c.Eval(1)
			if nd.Name == m.RecipientAddr {
				if err != nil {
					c.Violate("C04/addressee-cannot-open-its-deal", fmt.Sprintf("%q -> %q: %v", m.SenderAddr, m.RecipientAddr, err), wit)
				}
			} else if err == nil {
				c.Violate("C04/deal-opens-under-a-non-addressee-key", fmt.Sprintf("deal %q -> %q opens under the key of %q", m.SenderAddr, m.RecipientAddr, nd.Name), wit)
			} else {
				c.Add("deal_openings_refused_for_non_addressee", 1)
			}
		}
	}
	c.Distinct(fmt.Sprintf("near-duplicate-names|%q", names))
	c.Add("deals_between_near_duplicate_names", deals)
	if deals == 0 {
		c.Inconclusive("no deal was posted with names %q (states %v)", names, ce.States())
	} else if !ce.AllIn(StIdle) {
		c.Note("names %q: ceremony ended %v", names, ce.States())
	}
}

// runC04Faulty: dealer D's broadcast commitment list is rewritten between its machine and its node.
func runC04Faulty(c *Ctx, n, t, D int, kind string, seed uint64) {
	wit := map[string]interface{}{"n": n, "t": t, "faulty_dealer": D, "kind": kind, "case_seed": seed}
	w, err := world.NewWorld(world.Options{N: n, T: t, Seed: seed})
	if err != nil {
		c.Inconclusive("world: %v", err)
		return
	}
	ce := &Ceremony{W: w, N: n, T: t}
	defer ce.Close()
	suite := oracle.NewSuite()
	var needles []needle
	for _, nd := range w.Nodes {
		sd := oracle.SeedFromMnemonic(nd.Mnemonic)
		sk := oracle.LongTermKey(sd)
		if !suite.Point().Mul(sk, nil).Equal(nd.Cold.GetPubKey()) {
			c.Inconclusive("long-term key of %s does not validate against GetPubKey", nd.Name)
			return
		}
		needles = append(needles, needle{"long-term-private-key", oracle.ScalarBytes(sk)}, needle{"seed", sd})
		for k, co := range oracle.DealerPoly(sd, t).Coefficients() {
			needles = append(needles, needle{fmt.Sprintf("dealer-polynomial-coefficient-%d", k), oracle.ScalarBytes(co)})
		}
	}
	type captured struct {
		node     int
		typ, evt string
		res      []byte
	}
	var mu sync.Mutex
	var caps []captured
	var otherCommit []byte
	applied := false
	suite2 := oracle.NewSuite() // used inside the hook only (one goroutine drives the world)
	w.ResultHook = func(nd *world.Node, req, res *types.Operation) *types.Operation {
		if string(req.Type) == OpCommits && len(res.ResultMsgs) == 1 {
			var r requests.DKGProposalCommitConfirmationRequest
			if json.Unmarshal(res.ResultMsgs[0].Data, &r) == nil {
				mu.Lock()
				if nd.Idx != D && otherCommit == nil {
					otherCommit = append([]byte{}, r.Commit...)
				}
				oc := otherCommit
				mu.Unlock()
				var cs [][]byte
				if nd.Idx == D && json.Unmarshal(r.Commit, &cs) == nil && len(cs) > 0 {
					switch kind {
					case "commitments-swapped":
						cs[0], cs[len(cs)-1] = cs[len(cs)-1], cs[0]
						r.Commit, _ = json.Marshal(cs)
					case "commitments-of-another-dealer":
						// the other dealer's commitment vector, computed from its re-derived polynomial
						_ = oc
						o := w.Nodes[(D+1)%n]
						r.Commit, _ = json.Marshal(oracle.CommitsBytes(oracle.DealerPoly(oracle.SeedFromMnemonic(o.Mnemonic), t).Commit(suite2.Point().Base())))
					case "commitments-shortened":
						r.Commit, _ = json.Marshal(cs[:len(cs)-1])
					case "commitments-lengthened":
						r.Commit, _ = json.Marshal(append(cs, cs[0]))
					}
					res.ResultMsgs[0].Data, _ = json.Marshal(r)
					applied = true
				}
			}
		}
		bz, _ := json.Marshal(res)
		mu.Lock()
		caps = append(caps, captured{nd.Idx, string(req.Type), string(res.Event), bz})
		mu.Unlock()
		return res
	}
	ce.Round, err = w.StartDKG(0, t, now())
	if err != nil {
		c.Inconclusive("start: %v", err)
		return
	}
	if _, q := w.Run(world.RandomPolicy, 6000); !q {
		c.Inconclusive("faulty-dealer ceremony not quiescent: %v", wit)
		return
	}
	if !applied {
		c.Inconclusive("deviation %s never applied: %v", kind, wit)
		return
	}
	errResults := 0
	for _, cp := range caps {
		if strings.Contains(cp.evt, "error") || strings.Contains(cp.evt, "canceled") {
			errResults++
			c.Distinct(fmt.Sprintf("error-result|%s|%s|%s", kind, cp.typ, cp.evt))
		}
		parts := searchNeedles(c, fmt.Sprintf("result of %s (event %s) from machine %d in a ceremony whose dealer %d broadcast %s", cp.typ, cp.evt, cp.node, D, kind), cp.res, needles, wit)
		c.Eval(1)
		c.Add("decoded_blobs_searched", parts)
	}
	// what reached the board is what the operators uploaded: search it as well
	for _, m := range w.Board.All() {
		bz, _ := json.Marshal(m)
		c.Add("decoded_blobs_searched", searchNeedles(c, fmt.Sprintf("board message %d (%s by %s)", m.Offset, m.Event, m.SenderAddr), bz, needles, wit))
		c.Eval(1)
	}
	c.Add("error_results_searched", errResults)
	c.Distinct(fmt.Sprintf("faulty-dealer|n%d t%d|%s", n, t, kind))
	if errResults == 0 {
		c.Note("faulty dealer %d (%s, n=%d t=%d): no machine answered with an error result (states %v)", D, kind, n, t, ce.States())
	}
}

func runC04Ceremony(c *Ctx, n, t int, seed uint64) {
	wit := map[string]interface{}{"n": n, "t": t, "case_seed": seed}
	w, err := world.NewWorld(world.Options{N: n, T: t, Seed: seed})
	if err != nil {
		c.Inconclusive("world: %v", err)
		return
	}
	ce := &Ceremony{W: w, N: n, T: t}
	defer ce.Close()
	suite := oracle.NewSuite()
	ms := make([]*c04Machine, n)
	for i, nd := range w.Nodes {
		m := &c04Machine{seed: oracle.SeedFromMnemonic(nd.Mnemonic)}
		m.sk = oracle.LongTermKey(m.seed)
		if !suite.Point().Mul(m.sk, nil).Equal(nd.Cold.GetPubKey()) {
			c.Inconclusive("long-term key of %s does not validate against GetPubKey", nd.Name)
			return
		}
		m.needle = append(m.needle, needle{"long-term-private-key", oracle.ScalarBytes(m.sk)}, needle{"seed", m.seed})
		ms[i] = m
	}
	type captured struct {
		node int
		req  types.Operation
		res  types.Operation
	}
	var mu sync.Mutex
	var caps []captured
	w.ResultHook = func(nd *world.Node, req, res *types.Operation) *types.Operation {
		mu.Lock()
		caps = append(caps, captured{nd.Idx, *req, *res})
		mu.Unlock()
		return res
	}
	ce.Round, err = w.StartDKG(0, t, now())
	if err != nil {
		c.Inconclusive("start: %v", err)
		return
	}
	w.Run(world.RandomPolicy, 6000)
	if !ce.AllIn(StIdle) {
		c.Inconclusive("ceremony: %v", ce.States())
		return
	}
	// dealer polynomial needles, validated against the commitments each machine broadcast
	for _, m := range BoardMsgs(w, ce.Round, EvCommit) {
		var r requests.DKGProposalCommitConfirmationRequest
		var cs [][]byte
		if json.Unmarshal(m.Data, &r) != nil || json.Unmarshal(r.Commit, &cs) != nil {
			continue
		}
		for i, nd := range w.Nodes {
			if nd.Name != m.SenderAddr {
				continue
			}
			f := oracle.DealerPoly(ms[i].seed, t)
			pub := oracle.CommitsBytes(f.Commit(suite.Point().Base()))
			if !eqCommits(pub, cs) {
				c.Inconclusive("dealer polynomial of %s does not validate against its broadcast commitments", nd.Name)
				continue
			}
			for k, co := range f.Coefficients() {
				ms[i].needle = append(ms[i].needle, needle{fmt.Sprintf("dealer-polynomial-coefficient-%d", k), oracle.ScalarBytes(co)})
				ms[i].poly = append(ms[i].poly, oracle.ScalarBytes(co))
			}
			c.Add("dealer_polynomials_validated", 1)
		}
	}
	for i, nd := range w.Nodes {
		kr, err := Keyring(nd, ce.Round)
		if err != nil || kr == nil {
			c.Inconclusive("keyring: %v", err)
			return
		}
		ms[i].needle = append(ms[i].needle, needle{"bls-share", oracle.ScalarBytes(kr.Share.V)})
	}
	// signing + failing operations + reinit produce more results
	if _, err := ce.RunBatch(BatchSpec{Proposer: 0, Data: map[string][]byte{"f": []byte("payload")}, Range: nil}, world.RandomPolicy); err != nil {
		c.Inconclusive("batch: %v", err)
	}
	for i, nd := range w.Nodes {
		mu.Lock()
		mine := append([]captured{}, caps...)
		mu.Unlock()
		for _, cp := range mine {
			if cp.node != i {
				continue
			}
			// the same operation once more (fails now) and with a broken payload: error results
			for _, variant := range []string{"again", "broken-payload"} {
				op := cp.req
				if variant == "broken-payload" {
					op.Payload = append([]byte{}, op.Payload...)
					if len(op.Payload) > 10 {
						op.Payload[len(op.Payload)/2] ^= 0x20
					}
				}
				res, err := nd.Cold.GetOperationResult(op)
				if err == nil {
					mu.Lock()
					caps = append(caps, captured{i, op, res})
					mu.Unlock()
				}
			}
		}
	}
	// reinitialisation results (fresh machines, same mnemonics -> same secrets)
	if re, _, err := ReinitFrom(ce, seed+99, nil, world.EagerPolicy); err == nil {
		for i, nd := range re.W.Nodes {
			bz, _ := nd.State.Get(world.Topic + "_deleted_operations")
			var ops map[string]*types.Operation
			_ = json.Unmarshal(bz, &ops)
			for _, o := range ops {
				mu.Lock()
				caps = append(caps, captured{i, *o, *o})
				mu.Unlock()
			}
		}
		re.Close()
	} else {
		c.Note("reinit for C04 failed: %v", err)
	}
	// (a) search everything that left a machine
	for _, cp := range caps {
		bz, _ := json.Marshal(cp.res)
		// own secrets and - because results travel over the board - everybody's
		var all []needle
		for _, m := range ms {
			all = append(all, m.needle...)
		}
		parts := searchNeedles(c, fmt.Sprintf("result of %s (event %s) from machine %d", cp.req.Type, cp.res.Event, cp.node), bz, all, wit)
		c.Eval(1)
		c.Add("decoded_blobs_searched", parts)
		c.Distinct(fmt.Sprintf("leak|n%d t%d|%s|%s", n, t, cp.req.Type, cp.res.Event))
	}
	// (b) deals open for the addressee only
	for _, m := range BoardMsgs(w, ce.Round, EvDeal) {
		var r requests.DKGProposalDealConfirmationRequest
		if json.Unmarshal(m.Data, &r) != nil || string(r.Deal) == "self-confirm" {
			continue
		}
		for i, nd := range w.Nodes {
			_, err := ecies.Decrypt(suite, ms[i].sk, r.Deal, suite.Hash)
			c.Eval(1)
			if nd.Name == m.RecipientAddr {
				if err != nil {
					c.Violate("C04/addressee-cannot-open-its-deal", fmt.Sprintf("%s -> %s: %v", m.SenderAddr, m.RecipientAddr, err), wit)
				}
				c.Add("deals_opened_by_addressee", 1)
			} else if err == nil {
				c.Violate("C04/deal-opens-under-a-non-addressee-key", fmt.Sprintf("deal %s -> %s opens under %s's key", m.SenderAddr, m.RecipientAddr, nd.Name), wit)
			} else {
				c.Add("deal_openings_refused_for_non_addressee", 1)
			}
		}
		c.Distinct(fmt.Sprintf("deal|n%d t%d|%s->%s", n, t, m.SenderAddr, m.RecipientAddr))
	}
	// (c) wrong passwords and raw database files
	r := sched.Derive(seed, 4)
	for i, nd := range w.Nodes {
		copyDir := filepath.Join(w.Dir, fmt.Sprintf("pwcopy_%d", i), "db")
		_ = os.MkdirAll(filepath.Dir(copyDir), 0o755)
		if err := world.CopyDir(nd.ColdDir, copyDir); err != nil {
			c.Inconclusive("copy: %v", err)
			continue
		}
		judgeSecretsIn(c, w.Dir, nd.ColdDir, fmt.Sprintf("machine %d", i), r, wit)
		files, _ := os.ReadDir(copyDir)
		for _, f := range files {
			bz, err := os.ReadFile(filepath.Join(copyDir, f.Name()))
			if err != nil {
				continue
			}
			for _, nd2 := range ms[i].needle {
				if nd2.Name != "long-term-private-key" && nd2.Name != "bls-share" {
					continue
				}
				for form, pat := range nd2.forms() {
					if bytes.Contains(bz, pat) {
						c.Violate("C04/plaintext-secret-in-database-file:"+nd2.Name, fmt.Sprintf("machine %d file %s contains the %s (%s)", i, f.Name(), nd2.Name, form), wit)
					}
				}
			}
			c.Add("database_bytes_searched", len(bz))
		}
		c.Distinct(fmt.Sprintf("password|n%d t%d|machine%d", n, t, i))
	}
	c.Sample(map[string]interface{}{"case": wit, "results_searched": len(caps), "needles_per_machine": len(ms[0].needle)})
}

// runC04RoundPairs: (d) key material of different rounds on the same machines is unrelated.
func runC04RoundPairs(c *Ctx) {
	shapes := []struct {
		name   string
		n1, t1 int
		n2, t2 int
		perm   bool
		swap   bool // one participant replaced
	}{
		{"same-list-same-t", 3, 2, 3, 2, false, false},
		{"same-list-different-t", 3, 2, 3, 3, false, false},
		{"permuted-list", 3, 2, 3, 2, true, false},
		{"one-participant-replaced", 3, 2, 3, 2, false, true},
	}
	Parallel(len(shapes), 4, func(si int) {
		sh := shapes[si]
		seed := c.Seed*139 + uint64(si)
		wit := map[string]interface{}{"pair": sh.name, "case_seed": seed}
		w, err := world.NewWorld(world.Options{N: 4, T: 2, Seed: seed})
		if err != nil {
			c.Inconclusive("world: %v", err)
			return
		}
		defer w.Close()
		type result struct {
			round   string
			key     []byte
			shares  map[string][]byte
			commits map[string][][]byte // dealer -> broadcast commitments
		}
		run := func(members []*world.Node, t int, at time.Time) (*result, error) {
			// only the listed nodes take part; the others ignore the round (they are not invited)
			round, err := w.StartDKG(members[0].Idx, t, at, members...)
			if err != nil {
				return nil, err
			}
			w.Run(world.EagerPolicy, 6000)
			res := &result{round: round, shares: map[string][]byte{}, commits: map[string][][]byte{}}
			for _, nd := range members {
				if st := NodeState(nd, round); st != StIdle {
					return nil, fmt.Errorf("%s ends in %s", nd.Name, st)
				}
				kr, err := Keyring(nd, round)
				if err != nil || kr == nil {
					return nil, fmt.Errorf("keyring %s: %v", nd.Name, err)
				}
				res.key = oracle.PointBytes(kr.PubPoly.Commit())
				res.shares[nd.Name] = oracle.ScalarBytes(kr.Share.V)
			}
			for _, m := range BoardMsgs(w, round, EvCommit) {
				var r requests.DKGProposalCommitConfirmationRequest
				var cs [][]byte
				if json.Unmarshal(m.Data, &r) == nil && json.Unmarshal(r.Commit, &cs) == nil {
					res.commits[m.SenderAddr] = cs
				}
			}
			return res, nil
		}
		first := []*world.Node{w.Nodes[0], w.Nodes[1], w.Nodes[2]}
		second := []*world.Node{w.Nodes[0], w.Nodes[1], w.Nodes[2]}
		if sh.perm {
			second = []*world.Node{w.Nodes[2], w.Nodes[0], w.Nodes[1]}
		}
		if sh.swap {
			second = []*world.Node{w.Nodes[0], w.Nodes[1], w.Nodes[3]}
		}
		a, err := run(first, sh.t1, now())
		if err != nil {
			c.Inconclusive("pair %s first round: %v", sh.name, err)
			return
		}
		b, err := run(second, sh.t2, now().Add(time.Minute))
		if err != nil {
			c.Inconclusive("pair %s second round: %v", sh.name, err)
			return
		}
		c.Eval(1)
		c.Distinct("pair|" + sh.name)
		wit["round_a"], wit["round_b"] = trunc(a.round, 10), trunc(b.round, 10)
		if bytes.Equal(a.key, b.key) {
			c.Violate("C04/group-key-reused-across-rounds", fmt.Sprintf("%s: two rounds with different ids have the same group key", sh.name), wit)
		}
		for name, s := range a.shares {
			if s2, ok := b.shares[name]; ok && bytes.Equal(s, s2) {
				c.Violate("C04/share-reused-across-rounds", fmt.Sprintf("%s: %s holds the same share in both rounds", sh.name, name), wit)
			}
		}
		for name, cs := range a.commits {
			cs2, ok := b.commits[name]
			if !ok || len(cs) == 0 || len(cs2) == 0 {
				continue
			}
			common := 0
			for k := 0; k < len(cs) && k < len(cs2); k++ {
				if bytes.Equal(cs[k], cs2[k]) {
					common++
				}
			}
			if common > 0 {
				c.Violate("C04/dealer-polynomial-reused-across-rounds", fmt.Sprintf("%s: dealer %s publishes %d identical commitment(s) (same secret coefficients) in both rounds", sh.name, name, common), wit)
			}
		}
		c.Sample(map[string]interface{}{"pair": sh.name, "group_key_a": hex.EncodeToString(a.key[:8]), "group_key_b": hex.EncodeToString(b.key[:8])})
	})
}
