package world

import (
	"fmt"
	"io"
	"os"
	"path/filepath"
	"strconv"
	"strings"
	"time"

	"github.com/syndtr/goleveldb/leveldb"

	"github.com/lidofinance/dc4bc/client/config"
	"github.com/lidofinance/dc4bc/client/modules/keystore"
	"github.com/lidofinance/dc4bc/client/modules/state"
	"github.com/lidofinance/dc4bc/client/services"
)

// CopyDir copies a LevelDB directory (without its LOCK file): exactly what a `kill -9` at a
// quiescent interface boundary leaves on disk.
func CopyDir(src, dst string) error {
	// LevelDB may still be compacting in the background right after an open: a copy is only a faithful
	// "as on disk at one instant" snapshot if no file changed while it was taken - retry until stable.
	var err error
	for try := 0; try < 50; try++ {
		before := dirListing(src)
		_ = os.RemoveAll(dst)
		if err = copyDirOnce(src, dst); err == nil && before == dirListing(src) {
			return nil
		}
		time.Sleep(4 * time.Millisecond)
	}
	if err == nil {
		err = fmt.Errorf("directory %s kept changing while it was copied", src)
	}
	return err
}

func dirListing(dir string) string {
	ents, err := os.ReadDir(dir)
	if err != nil {
		return "ERR:" + err.Error()
	}
	out := ""
	for _, e := range ents {
		if e.Name() == "LOCK" || e.Name() == "LOG" || e.Name() == "LOG.old" {
			continue
		}
		if fi, err := e.Info(); err == nil {
			out += fmt.Sprintf("%s:%d:%d;", e.Name(), fi.Size(), fi.ModTime().UnixNano())
		}
	}
	return out
}

func copyDirOnce(src, dst string) error {
	if err := os.MkdirAll(dst, 0o755); err != nil {
		return err
	}
	ents, err := os.ReadDir(src)
	if err != nil {
		return err
	}
	for _, e := range ents {
		if e.IsDir() || e.Name() == "LOCK" {
			continue
		}
		in, err := os.Open(filepath.Join(src, e.Name()))
		if err != nil {
			return err
		}
		out, err := os.Create(filepath.Join(dst, e.Name()))
		if err != nil {
			in.Close()
			return err
		}
		_, err = io.Copy(out, in)
		in.Close()
		out.Close()
		if err != nil {
			return err
		}
	}
	return nil
}

// DumpLevelDB reads the logical content of a LevelDB directory through a scratch copy.
func DumpLevelDB(dir string) (map[string][]byte, error) {
	var m map[string][]byte
	var err error
	for try := 0; try < 5; try++ {
		if m, err = dumpLevelDBOnce(dir); err == nil {
			return m, nil
		}
		time.Sleep(10 * time.Millisecond)
	}
	return nil, err
}

func dumpLevelDBOnce(dir string) (map[string][]byte, error) {
	tmp := dir + ".dump"
	_ = os.RemoveAll(tmp)
	if err := CopyDir(dir, tmp); err != nil {
		return nil, err
	}
	defer os.RemoveAll(tmp)
	db, err := leveldb.OpenFile(tmp, nil)
	if err != nil {
		return nil, err
	}
	defer db.Close()
	out := map[string][]byte{}
	it := db.NewIterator(nil, nil)
	for it.Next() {
		out[string(it.Key())] = append([]byte{}, it.Value()...)
	}
	it.Release()
	return out, it.Error()
}

// EnsureKeyStoreOnDisk writes the node's communication key pair to a LevelDB key store (needed
// by the repository's own start-up sequence).
func (n *Node) EnsureKeyStoreOnDisk(dir string) (string, error) {
	ksDir := filepath.Join(dir, fmt.Sprintf("keystore_%d", n.Idx))
	if _, err := os.Stat(ksDir); err == nil {
		return ksDir, nil
	}
	ks, err := keystore.NewLevelDBKeyStore(n.Name, ksDir)
	if err != nil {
		return "", err
	}
	if err := ks.PutKeys(n.Name, n.KeyPair); err != nil {
		return "", err
	}
	if lks, ok := ks.(*keystore.LevelDBKeyStore); ok {
		closeDBField(lks, "keystoreDb")
	}
	// release the LevelDB lock: the key store has no Close(); copy it and use the copy
	final := ksDir + "_ro"
	if err := CopyDir(ksDir, final); err != nil {
		return "", err
	}
	return final, nil
}

// CrashRestart emulates `kill -9` + start on the same state directory: the current database
// directory is copied as it is on disk now, the old handles are abandoned, and the node is
// started on the copy through the repository's own start-up sequence
// (services.CreateServiceProviderWithCfg), after which the decorated services are wired on the
// State that sequence opened.
func (n *Node) CrashRestart(board Board, workDir string) error {
	if n.LDB == nil {
		return fmt.Errorf("CrashRestart needs a LevelDB node")
	}
	n.Restarts++
	newDir := fmt.Sprintf("%s.r%d", n.DBDir, n.Restarts)
	if err := CopyDir(n.DBDir, newDir); err != nil {
		return err
	}
	if tw := n.TornNext; tw != nil {
		n.TornNext = nil
		if err := TearWrite(newDir, tw); err != nil {
			return fmt.Errorf("harness: cannot prepare the torn write: %w", err)
		}
	}
	ksSrc, err := n.EnsureKeyStoreOnDisk(workDir)
	if err != nil {
		return err
	}
	ksDir := fmt.Sprintf("%s.r%d", ksSrc, n.Restarts)
	if err := CopyDir(ksSrc, ksDir); err != nil {
		return err
	}
	cfg := &config.Config{
		Username:      n.Name,
		StateDBSN:     newDir,
		KeyStoreDBDSN: ksDir,
		HttpApiConfig: &config.HttpApiConfig{ListenAddr: "127.0.0.1:0"},
		KafkaStorageConfig: &config.KafkaStorageConfig{DBDSN: "127.0.0.1:1", Topic: Topic, ConsumerGroup: "g",
			ProducerCredentials: "u:p", ConsumerCredentials: "u:p", ReadDuration: "1s", Timeout: "1s"},
	}
	sp, err := services.CreateServiceProviderWithCfg(cfg)
	if err != nil {
		return fmt.Errorf("start-up sequence failed: %w", err)
	}
	if st := sp.GetStorage(); st != nil {
		_ = st.Close()
	}
	ldb, ok := sp.GetState().(*state.LevelDBState)
	if !ok {
		return fmt.Errorf("unexpected state type %T", sp.GetState())
	}
	n.DBDir = newDir
	n.oldLDB = append(n.oldLDB, n.LDB)
	n.LDB = ldb
	// from now on the node reads its communication key from the real key store the start-up sequence
	// opened (closed with the world)
	if ks, ok := sp.GetKeyStore().(*keystore.LevelDBKeyStore); ok {
		n.Keys = ks
		n.oldKS = append(n.oldKS, ks)
	}
	if err := n.WireHot(ldb, board); err != nil {
		return err
	}
	content, err := DumpLevelDB(newDir)
	if err == nil {
		n.State.SetShadow(content)
	}
	return nil
}


// TornWrite describes the state write a process was killed in the middle of: the record of Put(Key, Val)
// reaches the journal only up to a cut (Cut selects where: 1 = all but the last byte, 2 = half of the
// record, 3 = a few bytes of it).
type TornWrite struct {
	Key   string
	Val   []byte
	Cut   int
	Bytes int // filled in: length of the whole record
	Kept  int // filled in: bytes of it left in the journal
}

// TearWrite performs the write on the database in dir with the library's default options (exactly what
// LevelDBState.Set does), closes it, and truncates the journal inside the record just written.
func TearWrite(dir string, tw *TornWrite) error {
	db, err := leveldb.OpenFile(dir, nil)
	if err != nil {
		return err
	}
	journal := func() (string, int64) {
		ents, _ := os.ReadDir(dir)
		best, bestN := "", int64(-1)
		for _, e := range ents {
			name := e.Name()
			if !strings.HasSuffix(name, ".log") {
				continue
			}
			n, err := strconv.ParseInt(strings.TrimSuffix(name, ".log"), 10, 64)
			if err == nil && n > bestN {
				best, bestN = name, n
			}
		}
		if best == "" {
			return "", 0
		}
		st, err := os.Stat(filepath.Join(dir, best))
		if err != nil {
			return "", 0
		}
		return filepath.Join(dir, best), st.Size()
	}
	j0, s0 := journal()
	if err := db.Put([]byte(tw.Key), tw.Val, nil); err != nil {
		_ = db.Close()
		return err
	}
	j1, s1 := journal()
	if err := db.Close(); err != nil {
		return err
	}
	if j0 == "" || j0 != j1 || s1 <= s0 {
		return fmt.Errorf("journal did not grow as expected (%s %d -> %s %d)", j0, s0, j1, s1)
	}
	rec := int(s1 - s0)
	keep := rec - 1
	switch tw.Cut {
	case 2:
		keep = rec / 2
	case 3:
		keep = 5
		if keep >= rec {
			keep = rec - 1
		}
	}
	tw.Bytes, tw.Kept = rec, keep
	return os.Truncate(j1, s0+int64(keep))
}
