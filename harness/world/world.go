package world

import (
	"crypto/sha256"
	"encoding/hex"
	"encoding/json"
	"fmt"
	"os"
	"path/filepath"
	"reflect"
	"sort"
	"strings"
	"time"

	"github.com/lidofinance/dc4bc/client/api/dto"
	"github.com/lidofinance/dc4bc/client/types"
	"github.com/lidofinance/dc4bc/fsm/fsm"
	spf "github.com/lidofinance/dc4bc/fsm/state_machines/signature_proposal_fsm"
	"github.com/lidofinance/dc4bc/fsm/types/requests"
	"github.com/lidofinance/dc4bc/storage"

	"verifharness/sched"
)

// BaseTime is the fixed "now" used for every timestamp the harness itself creates.
var BaseTime = time.Date(2024, 1, 2, 3, 4, 5, 0, time.UTC)

type Options struct {
	N, T       int
	Seed       uint64
	UseLevelDB bool
	NoCold     bool
	Names      []string
	// CommSeed, if non-zero, seeds the ed25519 communication keys separately from the mnemonics
	// (reinitialisation: same machines, fresh communication keys).
	CommSeed uint64
	// Mnemonics, if given, override the derived ones (recorded ceremonies).
	Mnemonics []string
	WorkRoot  string // default $VERIF_WORK or /verif/work
	// ViaHTTP: the operator driver reaches the nodes through the repository's REST API (router,
	// binding, validation, DTO conversion, handlers) instead of calling the node service directly.
	ViaHTTP bool
	// ViaCLI (implies ViaHTTP): the operator uses the dc4bc_cli binary built from the tree under test,
	// one child process per command, against the node's REST API on a loopback port; operations and
	// results travel as the JSON files the tools write. Falls back to ViaHTTP when no binary was built.
	ViaCLI bool
	// OddNames: participants are called by names from a zoo of legal but unusual user names (case
	// variants of each other, inner and outer whitespace, non-ASCII, long, numeric) instead of node_<i>.
	OddNames bool
}

type World struct {
	live *liveState
	// MachinePanics counts operations on which an airgapped machine panicked (see ColdResult).
	MachinePanics int
	Opt           Options
	Dir           string
	Board         *MemBoard
	Nodes         []*Node
	Rng           *sched.Rng

	// ResultHook, if set, may rewrite (or replace) the result an operator carries from machine to
	// node. It gets the node, the request operation and the machine's result.
	ResultHook func(n *Node, req *types.Operation, res *types.Operation) *types.Operation
	// OpFilter, if set, decides whether the operator of node n handles op now.
	OpFilter func(n *Node, op *types.Operation) bool
	// Trace of driver actions (for witnesses).
	Trace []string
	// ColdHook, if set, runs before an operation is fed to node n's machine (restart injection).
	// If it returns a non-nil result, that result is used instead of feeding the operation.
	ColdHook func(n *Node, op *types.Operation) (*types.Operation, error)
	// AfterStep, if set, is called after every executed action of Run.
	AfterStep func(a Action)
}

func WorkRoot() string {
	v := os.Getenv("VERIF_WORK")
	if v == "" {
		v = "/verif/work"
	}
	_ = os.MkdirAll(v, 0o755)
	return v
}

func NewWorld(opt Options) (*World, error) {
	if opt.WorkRoot == "" {
		opt.WorkRoot = WorkRoot()
	}
	if opt.ViaCLI {
		opt.ViaHTTP = true
		if CLIBin() == "" {
			opt.ViaCLI = false
		}
	}
	w := &World{Opt: opt, Board: NewMemBoard(), Rng: sched.Derive(opt.Seed, 0x5C4ED)}
	if !opt.NoCold || opt.UseLevelDB {
		if err := os.MkdirAll(opt.WorkRoot, 0o755); err != nil {
			return nil, err
		}
		d, err := os.MkdirTemp(opt.WorkRoot, fmt.Sprintf("w%d-", os.Getpid()))
		if err != nil {
			return nil, err
		}
		w.Dir = d
	}
	if opt.OddNames && len(opt.Names) == 0 {
		opt.Names = OddNames(opt.N, opt.Seed)
	}
	for i := 0; i < opt.N; i++ {
		name := fmt.Sprintf("node_%d", i)
		if i < len(opt.Names) {
			name = opt.Names[i]
		}
		dir := w.Dir
		if opt.NoCold && !opt.UseLevelDB {
			dir = ""
		}
		n, err := NewNode(i, name, opt.Seed, w.Board, NodeOpts{UseLevelDB: opt.UseLevelDB, Dir: dir, CommSeed: opt.CommSeed, Mnemonic: mnemonicAt(opt.Mnemonics, i), ViaHTTP: opt.ViaHTTP})
		if err != nil {
			w.Close()
			return nil, err
		}
		if opt.NoCold && n.Cold != nil {
			n.Cold = nil
		}
		if opt.ViaCLI {
			base := w.Dir
			if base == "" {
				if base, err = os.MkdirTemp(opt.WorkRoot, fmt.Sprintf("cli%d-", os.Getpid())); err != nil {
					return nil, err
				}
				w.Dir = base
			}
			if n.CLI, err = NewCLIOp(n, filepath.Join(base, fmt.Sprintf("operator_%d", i))); err != nil {
				w.Close()
				return nil, err
			}
		}
		w.Nodes = append(w.Nodes, n)
	}
	return w, nil
}

func (w *World) Close() {
	w.StopLive()
	for _, n := range w.Nodes {
		if n == nil {
			continue
		}
		if n.Cancel != nil {
			n.Cancel()
		}
		if n.CLI != nil {
			n.CLI.Close()
		}
		n.CloseHandles()
	}
	if w.Dir != "" {
		_ = os.RemoveAll(w.Dir)
	}
}

func (w *World) tracef(f string, a ...interface{}) {
	if len(w.Trace) < 4000 {
		w.Trace = append(w.Trace, fmt.Sprintf(f, a...))
	}
}

// InitPayload builds the opening proposal for the world's participants.
func (w *World) InitPayload(t int, createdAt time.Time, nodes ...*Node) []byte {
	if len(nodes) == 0 {
		nodes = w.Nodes
	}
	var ps []*requests.SignatureProposalParticipantsEntry
	for _, n := range nodes {
		var pk []byte
		var err error
		if n.Proc != nil {
			pk = n.ColdPub
		} else if pk, err = n.Cold.GetPubKey().MarshalBinary(); err != nil {
			panic(err)
		}
		ps = append(ps, &requests.SignatureProposalParticipantsEntry{Username: n.Name, PubKey: n.KeyPair.Pub, DkgPubKey: pk})
	}
	bz, err := json.Marshal(requests.SignatureProposalParticipantsListRequest{Participants: ps, SigningThreshold: t, CreatedAt: createdAt})
	if err != nil {
		panic(err)
	}
	return bz
}

// StartDKG lets node `by` post the opening proposal through the real API path; returns round id.
func (w *World) StartDKG(by int, t int, createdAt time.Time, nodes ...*Node) (string, error) {
	payload := w.InitPayload(t, createdAt, nodes...)
	if cli := w.Nodes[by].CLI; cli != nil {
		// the tool stamps the proposal with its own clock, so the round id is read from the board
		before := w.Board.Len()
		if err := cli.StartDKG(payload); err != nil {
			return "", err
		}
		for _, m := range w.Board.All()[before:] {
			if m.Event == string(spf.EventInitProposal) && m.SenderAddr == w.Nodes[by].Name {
				return m.DkgRoundID, nil
			}
		}
		return "", fmt.Errorf("start_dkg succeeded but no opening proposal is on the board")
	}
	if api := w.Nodes[by].API; api != nil {
		if err := api.StartDKG(payload); err != nil {
			return "", err
		}
	} else if err := w.Nodes[by].Svc.StartDKG(&dto.StartDkgDTO{Payload: payload}); err != nil {
		return "", err
	}
	id := sha256.Sum256(payload)
	return hex.EncodeToString(id[:]), nil
}

// PendingOps returns node n's pending operations in a deterministic order.
func (w *World) PendingOps(n *Node) []*types.Operation {
	ops, err := n.Ops.GetOperations()
	if n.API != nil {
		ops, err = n.API.Operations()
	}
	if err != nil {
		return nil
	}
	var out []*types.Operation
	for _, o := range ops {
		out = append(out, o)
	}
	sort.Slice(out, func(i, j int) bool { return out[i].ID < out[j].ID })
	return out
}

func OpToDTO(o *types.Operation) *dto.OperationDTO {
	return &dto.OperationDTO{ID: o.ID, Type: string(o.Type), Payload: o.Payload, ResultMsgs: o.ResultMsgs,
		CreatedAt: o.CreatedAt, DkgID: o.DKGIdentifier, To: o.To, Event: o.Event, ExtraData: o.ExtraData}
}

// JSONRoundTrip emulates the file/QR channel between the two machines.
func JSONRoundTrip(o *types.Operation) (*types.Operation, error) {
	bz, err := json.Marshal(o)
	if err != nil {
		return nil, err
	}
	var out types.Operation
	if err := json.Unmarshal(bz, &out); err != nil {
		return nil, err
	}
	return &out, nil
}

// ColdResult feeds op to the node's machine through JSON (as the operator would) and returns the
// result operation. storeLog=true goes through ProcessOperation (operation log + result file).
func (w *World) ColdResult(n *Node, op *types.Operation, storeLog bool) (res *types.Operation, err error) {
	// a panic inside the machine is the machine's process dying: the operator gets no result
	defer func() {
		if r := recover(); r != nil {
			w.MachinePanics++
			res, err = nil, &MachinePanic{Node: n.Name, OpType: string(op.Type), Value: fmt.Sprint(r)}
		}
	}()
	return w.coldResult(n, op, storeLog)
}

// MachinePanic is returned by ColdResult when the airgapped machine panicked while handling op.
type MachinePanic struct {
	Node, OpType, Value string
}

func (e *MachinePanic) Error() string {
	return fmt.Sprintf("the airgapped machine of %s panicked on %s: %s", e.Node, e.OpType, e.Value)
}

func (w *World) coldResult(n *Node, op *types.Operation, storeLog bool) (*types.Operation, error) {
	in, err := JSONRoundTrip(op)
	if err != nil {
		return nil, err
	}
	if n.Proc != nil {
		return n.Proc.ReadOperation(in)
	}
	var res types.Operation
	if storeLog {
		n.Cold.SetResultFolder(filepath.Dir(n.ColdDir))
		path, err := n.Cold.ProcessOperation(*in, true)
		if err != nil {
			return nil, err
		}
		bz, err := os.ReadFile(path)
		if err != nil {
			return nil, err
		}
		_ = os.Remove(path)
		if err := json.Unmarshal(bz, &res); err != nil {
			return nil, fmt.Errorf("result file does not parse: %w", err)
		}
	} else {
		r, err := n.Cold.GetOperationResult(*in)
		if err != nil {
			return nil, err
		}
		rr, err := JSONRoundTrip(&r)
		if err != nil {
			return nil, err
		}
		res = *rr
	}
	return &res, nil
}

// UseOpLog makes HandleOp go through Machine.ProcessOperation (operation log + result file).
var UseOpLog = false

// HandleOp plays the operator for one pending operation of node n. It returns the error of the
// node's submission API (nil when accepted).
func (w *World) HandleOp(n *Node, op *types.Operation) error {
	if fsm.State(op.Type) == spf.StateAwaitParticipantsConfirmations {
		w.tracef("%s approve %s", n.Name, op.ID[:6])
		if n.CLI != nil {
			return n.CLI.Approve(op.ID)
		}
		if n.API != nil {
			return n.API.Approve(op.ID)
		}
		return n.Svc.ApproveParticipation(&dto.OperationIdDTO{OperationID: op.ID})
	}
	var res *types.Operation
	if cached, ok := n.ResultCache[op.ID]; ok {
		res = &types.Operation{}
		if err := json.Unmarshal(cached, res); err != nil {
			return err
		}
	} else {
		if n.CLI != nil {
			// get_operation writes the request file; the machine's prompt reads it (read_operation)
			path, err := n.CLI.FetchOperation(op.ID)
			if err != nil {
				return fmt.Errorf("get_operation: %w", err)
			}
			fromFile, err := ReadOperationFile(path)
			if err != nil {
				return fmt.Errorf("request file written by get_operation: %w", err)
			}
			op = fromFile
		}
		var r *types.Operation
		var err error
		if w.ColdHook != nil {
			r, err = w.ColdHook(n, op)
			if err != nil {
				return fmt.Errorf("cold hook: %w", err)
			}
		}
		if r == nil {
			r, err = w.ColdResult(n, op, UseOpLog)
			if err != nil {
				return fmt.Errorf("cold: %w", err)
			}
		}
		res = r
		if w.ResultHook != nil {
			res = w.ResultHook(n, op, res)
			if res == nil {
				return nil
			}
		}
		bz, _ := json.Marshal(res)
		n.ResultCache[op.ID] = bz
	}
	w.tracef("%s submit %s %s -> %s", n.Name, op.Type, op.ID[:6], res.Event)
	if n.CLI != nil {
		bz, err := json.Marshal(res)
		if err != nil {
			return err
		}
		path := filepath.Join(n.CLI.Dir, res.Filename()+"_result.json")
		if err := os.WriteFile(path, bz, 0o600); err != nil {
			return err
		}
		return n.CLI.SubmitFile(path)
	}
	if n.API != nil {
		bz, err := json.Marshal(res) // the result file the machine wrote, uploaded as it is
		if err != nil {
			return err
		}
		return n.API.Submit(bz)
	}
	return n.Svc.ProcessOperation(OpToDTO(res))
}

// Action is one enabled step of the world scheduler.
type Action struct {
	Kind string // "poll" | "op"
	Node int
	Op   *types.Operation
}

// Enabled lists the currently enabled actions.
func (w *World) Enabled() []Action {
	var acts []Action
	bl := w.Board.Len()
	for i, n := range w.Nodes {
		if int(n.Offset()) < bl {
			acts = append(acts, Action{Kind: "poll", Node: i})
		}
		if n.Cold == nil && n.Proc == nil {
			continue
		}
		for _, op := range w.PendingOps(n) {
			if w.OpFilter != nil && !w.OpFilter(n, op) {
				continue
			}
			acts = append(acts, Action{Kind: "op", Node: i, Op: op})
		}
	}
	return acts
}

// Do executes an action. For polls, upto<=0 means the whole board.
func (w *World) Do(a Action, upto int) error {
	n := w.Nodes[a.Node]
	switch a.Kind {
	case "poll":
		w.tracef("%s poll from %d upto %d", n.Name, n.Offset(), upto)
		_, err := n.PollStep(upto)
		return err
	case "op":
		err := w.HandleOp(n, a.Op)
		if err != nil {
			w.tracef("%s op %s error: %v", n.Name, a.Op.Type, err)
		}
		return nil
	}
	return nil
}

// RunPolicy chooses the next action; nil means "stop".
type RunPolicy func(w *World, acts []Action) (*Action, int)

// RandomPolicy picks a uniformly random enabled action; polls consume a random prefix of what
// is unread (different splits of consumption into polls).
func RandomPolicy(w *World, acts []Action) (*Action, int) {
	a := acts[w.Rng.Intn(len(acts))]
	upto := 0
	if a.Kind == "poll" && w.Rng.Intn(3) == 0 {
		off := int(w.Nodes[a.Node].Offset())
		upto = off + 1 + w.Rng.Intn(w.Board.Len()-off)
	}
	return &a, upto
}

// OneAtATimePolicy: random action, polls consume exactly one message (so that every
// (message, node) pair is met in the exact state in which the node consumes it).
func OneAtATimePolicy(w *World, acts []Action) (*Action, int) {
	a := acts[w.Rng.Intn(len(acts))]
	upto := 0
	if a.Kind == "poll" {
		upto = int(w.Nodes[a.Node].Offset()) + 1
	}
	return &a, upto
}

// EagerPolicy: every node polls everything, then every operation is handled, in index order.
func EagerPolicy(w *World, acts []Action) (*Action, int) {
	for i := range acts {
		if acts[i].Kind == "poll" {
			return &acts[i], 0
		}
	}
	return &acts[0], 0
}

// Run drives the world until no action is enabled or maxSteps is hit. It returns the number of
// steps and whether quiescence was reached.
func (w *World) Run(policy RunPolicy, maxSteps int) (int, bool) {
	if policy == nil {
		policy = EagerPolicy
	}
	failed := map[string]int{}
	for step := 0; step < maxSteps; step++ {
		acts := w.Enabled()
		// An operation whose submission keeps being refused would loop forever; drop it from the
		// enabled set after 2 refusals (it stays pending in the pool).
		var en []Action
		for _, a := range acts {
			if a.Kind == "op" && failed[fmt.Sprint(a.Node, "/", a.Op.ID)] >= 2 {
				continue
			}
			en = append(en, a)
		}
		if len(en) == 0 {
			return step, true
		}
		a, upto := policy(w, en)
		if a == nil {
			return step, false
		}
		if a.Kind == "op" {
			n := w.Nodes[a.Node]
			if err := w.HandleOp(n, a.Op); err != nil {
				failed[fmt.Sprint(a.Node, "/", a.Op.ID)]++
				w.tracef("%s op %s refused: %v", n.Name, a.Op.Type, err)
			}
			if w.AfterStep != nil {
				w.AfterStep(*a)
			}
			continue
		}
		_ = w.Do(*a, upto)
		if w.AfterStep != nil {
			w.AfterStep(*a)
		}
	}
	return maxSteps, false
}

// ProposeSign lets node `by` propose a batch through the real API.
// Range is a window of baked positions [Start, End).
type Range struct{ Start, End int }

// dtoRange builds the repository's dto.Range whatever integer type its fields have (the harness must
// keep compiling when a change under test retypes them).
func dtoRange(r *Range) *dto.Range {
	if r == nil {
		return nil
	}
	out := &dto.Range{}
	v := reflect.ValueOf(out).Elem()
	for name, x := range map[string]int{"Start": r.Start, "End": r.End} {
		f := v.FieldByName(name)
		switch f.Kind() {
		case reflect.Int, reflect.Int8, reflect.Int16, reflect.Int32, reflect.Int64:
			f.SetInt(int64(x))
		case reflect.Uint, reflect.Uint8, reflect.Uint16, reflect.Uint32, reflect.Uint64:
			f.SetUint(uint64(x))
		}
	}
	return out
}

func (w *World) ProposeSign(by int, roundID string, data map[string][]byte, rng *Range) error {
	id, err := hex.DecodeString(roundID)
	if err != nil {
		return err
	}
	if cli := w.Nodes[by].CLI; cli != nil && (rng == nil || len(data) == 0) && fileNamesOK(data) {
		if rng != nil {
			return cli.ProposeBaked(roundID, rng.Start, rng.End)
		}
		return cli.ProposeBatch(roundID, data)
	}
	if api := w.Nodes[by].API; api != nil && (rng == nil || len(data) == 0) {
		if rng != nil {
			return api.ProposeBaked(id, rng.Start, rng.End)
		}
		return api.ProposeBatch(id, data)
	}
	return w.Nodes[by].Svc.ProposeSignMessages(&dto.ProposeSignBatchMessagesDTO{DkgID: id, Data: data, Range: dtoRange(rng)})
}

// SignMsg builds a board message signed with node n's communication key (harness-built traffic).
func SignMsg(n *Node, round string, event string, data []byte, recipient string) storage.Message {
	m := storage.Message{DkgRoundID: round, Event: event, Data: data, SenderAddr: n.Name, RecipientAddr: recipient}
	m.Signature = signEd(n, m.Bytes())
	return m
}

func mnemonicAt(m []string, i int) string {
	if i < len(m) {
		return m[i]
	}
	return ""
}

// fileNamesOK: every key can be the name of a file in a directory (sign_batch_data reads a directory);
// other names can only come from a direct API client.
func fileNamesOK(data map[string][]byte) bool {
	for k := range data {
		if k == "" || k == "." || k == ".." || strings.ContainsAny(k, "/\x00") || len(k) > 200 {
			return false
		}
	}
	return true
}

// (the repository requires 3..150 bytes and uniqueness, nothing else)
var nameZoo = []string{"Alice", "alice", "ALICE", "bob smith", " lead", "trail ", "ünï-çødé", "验证者", "000", "0000", "node_0", "Node_0", "a.b/c", "x\ty", strings.Repeat("long", 37), "---", "null", "true", "{ }", "a\"b", "nul\x00l"}

// OddNames picks n distinct names from the zoo, determined by seed.
func OddNames(n int, seed uint64) []string {
	r := sched.Derive(seed, 0x2A2E)
	p := r.Perm(len(nameZoo))
	var out []string
	for i := 0; i < n && i < len(p); i++ {
		out = append(out, nameZoo[p[i]])
	}
	return out
}
