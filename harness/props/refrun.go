package props

import (
	"fmt"

	"github.com/lidofinance/dc4bc/storage"

	"verifharness/world"
)

// Moment is a rewind point of a reference run: every hot node's durable state + board length.
type Moment struct {
	Step     int
	BoardLen int
	Snaps    []map[string][]byte
	Desc     string
}

// Recorder collects moments while a world runs.
type Recorder struct {
	W       *world.World
	Moments []*Moment
	step    int
}

func NewRecorder(w *world.World) *Recorder {
	r := &Recorder{W: w}
	w.AfterStep = func(a world.Action) {
		d := fmt.Sprintf("%s by %s", a.Kind, w.Nodes[a.Node].Name)
		if a.Op != nil {
			d += " " + string(a.Op.Type)
		}
		r.Snap(d)
	}
	r.Snap("start")
	return r
}

func (r *Recorder) Snap(desc string) {
	m := &Moment{Step: r.step, BoardLen: r.W.Board.Len(), Desc: desc}
	for _, n := range r.W.Nodes {
		m.Snaps = append(m.Snaps, n.Mem.Snapshot())
	}
	r.step++
	r.Moments = append(r.Moments, m)
}

func (r *Recorder) Stop() { r.W.AfterStep = nil }

// offsetOf decodes the saved offset from a snapshot.
func offsetOf(snap map[string][]byte) int {
	b := snap[world.Topic+"_offset"]
	if len(b) != 8 {
		return 0
	}
	o := 0
	for i := 7; i >= 0; i-- {
		o = o<<8 | int(b[i])
	}
	return o
}

// NextFor returns the message node v would consume next at moment m (nil if none), i.e. the
// genuine message whose processing state is exactly the snapshot.
func NextFor(all []storage.Message, m *Moment, v int, name string) *storage.Message {
	for i := offsetOf(m.Snaps[v]); i < m.BoardLen && i < len(all); i++ {
		if all[i].RecipientAddr == "" || all[i].RecipientAddr == name {
			mm := all[i]
			return &mm
		}
		// messages for others are skipped by Poll without touching state
	}
	return nil
}

// applyAt restores node v to moment m, runs ProcessMessage(msg) and reports (error, changed keys).
// The board is cut back to the moment afterwards.
func applyAt(w *world.World, m *Moment, v int, msg storage.Message) (err error, diff []string, panicked interface{}) {
	n := w.Nodes[v]
	n.Mem.Restore(m.Snaps[v])
	before := m.Snaps[v]
	boardLen := w.Board.Len()
	func() {
		defer func() {
			if r := recover(); r != nil {
				panicked = r
			}
		}()
		err = n.Svc.ProcessMessage(msg)
	}()
	after := n.Mem.Snapshot()
	diff = world.DiffMaps(before, after, world.Topic+"_offset")
	w.Board.Truncate(boardLen)
	return
}
